(* Model of struct Graph in src/program.rs: topological_sort (Kahn, FIFO queue) and find_cycle
   (deque-driven depth-first search with a parents map).

   The Rust graph keeps its nodes and successor sets in randomly seeded HashSets; their
   iteration order is a parameter here: a graph is given by a *presentation* - the node list in
   iteration order and, per node, its successors in iteration order.  The theorems quantify over
   all presentations of the same graph. *)
From HclV Require Import Base.
Open Scope N_scope.

Section Graph.
  Variable node : Type.
  Variable eqb : node -> node -> bool.

  Record graph := mkGraph {
    g_nodes : list node;                    (* iteration order of `nodes` *)
    g_succ : list (node * list node);       (* `edges`: successors of a node, in iteration order *)
    g_num_edges : N                         (* number of insert() calls *)
  }.

  Fixpoint assoc {V} (l : list (node * V)) (n : node) : option V :=
    match l with
    | [] => None
    | (k, v) :: r => if eqb n k then Some v else assoc r n
    end.

  Definition memb (n : node) (l : list node) : bool := existsb (eqb n) l.

  Definition succs (g : graph) (n : node) : list node :=
    match assoc (g_succ g) n with Some l => l | None => [] end.

  (* edges_inverted[n]: the distinct predecessors of n *)
  Definition preds (g : graph) (n : node) : list node :=
    map fst (filter (fun kv => memb n (snd kv)) (g_succ g)).

  Definition pair_eqb (a b : node * node) : bool := eqb (fst a) (fst b) && eqb (snd a) (snd b).

  Fixpoint set_count (l : list (node * N)) (n : node) (c : N) : list (node * N) :=
    match l with
    | [] => [(n, c)]
    | (k, v) :: r => if eqb n k then (k, c) :: r else (k, v) :: set_count r n c
    end.

  (* ---- find_cycle --------------------------------------------------------------------------- *)
  (* parents : HashMap<T, Option<T>> *)
  Definition parents_t := list (node * option node).

  Fixpoint set_parent (ps : parents_t) (n : node) (p : option node) : parents_t :=
    match ps with
    | [] => [(n, p)]
    | (k, v) :: r => if eqb n k then (k, p) :: r else (k, v) :: set_parent r n p
    end.

  (* back_path: parent <- grandparent <- ... ; stops at cur or when the chain ends *)
  Fixpoint back_path (fuel : nat) (ps : parents_t) (cur : node) (path : list node) (last : node)
    : option (list node) :=
    (* path is kept reversed-last-first: last :: ... ; returns Some forward path if cur is reached *)
    if eqb last cur then Some path      (* path, read left to right, is cur -> ... -> parent *)
    else match fuel with
         | O => None
         | S fu =>
             match assoc ps last with
             | Some (Some gp) => back_path fu ps cur (gp :: path) gp
             | _ => None
             end
         end.

  Fixpoint find_cycle_loop (fuel : nat) (g : graph) (stack : list (option node * node))
           (ps : parents_t) : result (list node) :=
    match fuel with
    | O => err1 OutOfFuel []
    | S fu =>
        match stack with
        | [] => err1 Panicked []          (* panic!("find_cycle() called when no cycle present") *)
        | (mp, cur) :: rest =>
            let known := match assoc ps cur with Some _ => true | None => false end in
            let stack1 := if known then rest
                          else fold_left (fun st out => (Some cur, out) :: st) (succs g cur) rest in
            match mp with
            | Some parent =>
                if known then
                  match back_path (S (List.length (g_nodes g))) ps cur [parent] parent with
                  | Some path => Ok path
                  | None => find_cycle_loop fu g stack1 ps
                  end
                else find_cycle_loop fu g stack1 (set_parent ps cur mp)
            | None => find_cycle_loop fu g stack1 (set_parent ps cur None)
            end
        end
    end.

  Definition edge_total (g : graph) : nat :=
    fold_right (fun kv acc => (List.length (snd kv) + acc)%nat) O (g_succ g).

  Definition find_cycle (g : graph) : result (list node) :=
    find_cycle_loop (S (List.length (g_nodes g) + edge_total g)) g
                    (map (fun n => (None, n)) (g_nodes g)) [].

  (* ---- topological_sort --------------------------------------------------------------------- *)
  Definition has_pred (g : graph) (n : node) : bool :=
    existsb (fun kv => memb n (snd kv)) (g_succ g).

  Definition init_queue (g : graph) : list node :=
    filter (fun n => negb (has_pred g n)) (g_nodes g).

  Definition init_counts (g : graph) : list (node * N) :=
    map (fun n => (n, N.of_nat (List.length (preds g n)))) (g_nodes g).

  (* processing the out-edges of cur: (counts, visited, queue) *)
  Fixpoint visit_outs (cur : node) (outs : list node) (counts : list (node * N))
           (visited : list (node * node)) (queue : list node)
    : result (list (node * N) * list (node * node) * list node) :=
    match outs with
    | [] => Ok (counts, visited, queue)
    | out :: r =>
        if existsb (pair_eqb (cur, out)) visited then visit_outs cur r counts visited queue
        else
          let c := match assoc counts out with Some c => c | None => 0 end in
          if c =? 0 then err1 Panicked []               (* usize underflow: 0 - 1 *)
          else
            let c1 := c - 1 in
            visit_outs cur r (set_count counts out c1) ((cur, out) :: visited)
                       (if c1 =? 0 then queue ++ [out] else queue)
    end.

  Fixpoint kahn_loop (fuel : nat) (g : graph) (queue : list node) (counts : list (node * N))
           (visited : list (node * node)) (acc : list node)
    : result (list node * list (node * node)) :=
    match queue with
    | [] => Ok (rev acc, visited)
    | cur :: rest =>
        match fuel with
        | O => err1 OutOfFuel []
        | S fu =>
            do x <- visit_outs cur (succs g cur) counts visited rest;
            let '(counts1, visited1, queue1) := x in
            kahn_loop fu g queue1 counts1 visited1 (cur :: acc)
        end
    end.

  (* Ok (inl order) | Ok (inr cycle) *)
  Definition toposort (g : graph) : result (list node + list node) :=
    do x <- kahn_loop (S (List.length (g_nodes g))) g (init_queue g) (init_counts g) [] [];
    let '(order, visited) := x in
    if N.of_nat (List.length visited) =? g_num_edges g then Ok (inl order)
    else do c <- find_cycle g; Ok (inr c).

  (* ---- checkers used on the implementation's answers ------------------------------------- *)
  Definition is_edge (g : graph) (a b : node) : bool := memb b (succs g a).

  Fixpoint index_of (n : node) (l : list node) : option nat :=
    match l with
    | [] => None
    | x :: r => if eqb n x then Some O else option_map S (index_of n r)
    end.

  (* every node exactly once, and every edge goes forward *)
  Definition is_linear_extension (g : graph) (order : list node) : bool :=
    forallb (fun n => memb n order) (g_nodes g) &&
    (List.length order =? List.length (g_nodes g))%nat &&
    forallb (fun n => memb n (g_nodes g)) order &&
    forallb (fun kv =>
               forallb (fun b => match index_of (fst kv) order, index_of b order with
                                 | Some i, Some j => (i <? j)%nat
                                 | _, _ => false
                                 end) (snd kv)) (g_succ g).

  (* consecutive elements are edges and the last closes on the first *)
  Fixpoint is_path (g : graph) (l : list node) : bool :=
    match l with
    | a :: ((b :: _) as r) => is_edge g a b && is_path g r
    | _ => true
    end.

  Definition is_cycle (g : graph) (c : list node) : bool :=
    match c with
    | [] => false
    | first :: _ => is_path g c && is_edge g (last c first) first
    end.
End Graph.

Arguments mkGraph {node}.
Arguments g_nodes {node}.
Arguments g_succ {node}.
Arguments g_num_edges {node}.

(* instances used by the extracted driver: integer graphs (hook toposort_trace) *)
Definition toposortN (g : graph N) := toposort N N.eqb g.
Definition is_linear_extensionN (g : graph N) := is_linear_extension N N.eqb g.
Definition is_cycleN (g : graph N) := is_cycle N N.eqb g.
