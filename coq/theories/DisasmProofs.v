(* C20: specification from CS:APP figures 4.2/4.3 and proofs about Disasm. *)
From HclV Require Import Base Disasm.
From Coq Require Import ZifyN ZifyBool ZifyNat.
Ltac Zify.zify_post_hook ::= Z.div_mod_to_equations.
Open Scope string_scope.
Open Scope N_scope.

(* ---- the specification: the instruction set as CS:APP lists it -------------------- *)
Inductive fmt :=
| F0       (* no operands, 1 byte *)
| Frr      (* rA, rB; 2 bytes *)
| Firmov   (* irmovq V, rB; 10 bytes *)
| Frmmov   (* rmmovq rA, D(rB); 10 bytes *)
| Fmrmov   (* mrmovq D(rB), rA; 10 bytes *)
| Fdest    (* jXX / call Dest; 9 bytes *)
| Fra.     (* pushq / popq rA; 2 bytes *)

(* first byte, mnemonic, format: figure 4.2 with the function codes of figure 4.3 *)
Definition csapp_table : list (N * string * fmt) :=
  [ (0x00, "halt", F0); (0x10, "nop", F0);
    (0x20, "rrmovq", Frr); (0x21, "cmovle", Frr); (0x22, "cmovl", Frr); (0x23, "cmove", Frr);
    (0x24, "cmovne", Frr); (0x25, "cmovge", Frr); (0x26, "cmovg", Frr);
    (0x30, "irmovq", Firmov); (0x40, "rmmovq", Frmmov); (0x50, "mrmovq", Fmrmov);
    (0x60, "addq", Frr); (0x61, "subq", Frr); (0x62, "andq", Frr); (0x63, "xorq", Frr);
    (0x70, "jmp", Fdest); (0x71, "jle", Fdest); (0x72, "jl", Fdest); (0x73, "je", Fdest);
    (0x74, "jne", Fdest); (0x75, "jge", Fdest); (0x76, "jg", Fdest);
    (0x80, "call", Fdest); (0x90, "ret", F0); (0xA0, "pushq", Fra); (0xB0, "popq", Fra) ].

Definition csapp_reg (r : N) : string :=
  match r with
  | 0 => "%rax" | 1 => "%rcx" | 2 => "%rdx" | 3 => "%rbx" | 4 => "%rsp" | 5 => "%rbp"
  | 6 => "%rsi" | 7 => "%rdi" | 8 => "%r8" | 9 => "%r9" | 10 => "%r10" | 11 => "%r11"
  | 12 => "%r12" | 13 => "%r13" | 14 => "%r14" | _ => "NONE"
  end.

Definition flen (f : fmt) : N :=
  match f with F0 => 1 | Frr | Fra => 2 | Fdest => 9 | Firmov | Frmmov | Fmrmov => 10 end.

(* the 128-bit little-endian value whose low bytes encode the instruction; [rest] is
   whatever follows it in memory *)
Definition encode (f : fmt) (b0 ra rb imm rest : N) : N :=
  match f with
  | F0 => b0 + 256 * rest
  | Frr | Fra => b0 + 256 * (16 * ra + rb) + 65536 * rest
  | Firmov | Frmmov | Fmrmov => b0 + 256 * (16 * ra + rb) + 65536 * imm + 2 ^ 80 * rest
  | Fdest => b0 + 256 * imm + 2 ^ 72 * rest
  end.

Definition ftext (f : fmt) (mn : string) (ra rb imm : N) : string :=
  match f with
  | F0 => mn
  | Frr => mn ++ " " ++ csapp_reg ra ++ ", " ++ csapp_reg rb
  | Fra => mn ++ " " ++ csapp_reg ra
  | Firmov => mn ++ " $0x" ++ hex imm ++ ", " ++ csapp_reg rb
  | Frmmov => mn ++ " " ++ csapp_reg ra ++ ", 0x" ++ hex imm ++ "(" ++ csapp_reg rb ++ ")"
  | Fmrmov => mn ++ " 0x" ++ hex imm ++ "(" ++ csapp_reg rb ++ "), " ++ csapp_reg ra
  | Fdest => mn ++ " 0x" ++ hex imm
  end.

Definition len_by_icode (icode : N) : N :=
  match icode with
  | 0 | 1 | 9 => 1
  | 2 | 6 | 10 | 11 => 2
  | 3 | 4 | 5 => 10
  | 7 | 8 => 9
  | _ => 1
  end.

(* ---- field extraction --------------------------------------------------------------- *)
Lemma land15 x : N.land x 15 = x mod 16.
Proof. change 15 with (N.ones 4). rewrite N.land_ones. reflexivity. Qed.

Lemma land255 x : N.land x 255 = x mod 256.
Proof. change 255 with (N.ones 8). rewrite N.land_ones. reflexivity. Qed.

Lemma disassemble_fields v :
  disassemble v =
  disasm_fields ((v / 16) mod 16) (v mod 16) ((v / 4096) mod 16) ((v / 256) mod 16)
                ((v / 65536) mod two64) ((v / 256) mod two64).
Proof.
  unfold disassemble. rewrite !land15, !N.shiftr_div_pow2. reflexivity.
Qed.

Lemma lt16_cases (r : N) : r < 16 ->
  r = 0 \/ r = 1 \/ r = 2 \/ r = 3 \/ r = 4 \/ r = 5 \/ r = 6 \/ r = 7 \/ r = 8 \/ r = 9 \/
  r = 10 \/ r = 11 \/ r = 12 \/ r = 13 \/ r = 14 \/ r = 15.
Proof. lia. Qed.

Lemma name_register_csapp r : r < 16 -> name_register r = csapp_reg r.
Proof.
  intros H. destruct (lt16_cases r H) as
    [->|[->|[->|[->|[->|[->|[->|[->|[->|[->|[->|[->|[->|[->|[->| ->]]]]]]]]]]]]]]]; reflexivity.
Qed.

(* ---- the main theorem: every valid encoding is shown as CS:APP writes it ----------- *)
Definition entry_ok (e : N * string * fmt) : Prop :=
  let '(b0, mn, f) := e in
  forall ra rb imm rest, ra < 16 -> rb < 16 -> imm < two64 ->
    disassemble (encode f b0 ra rb imm rest) = (flen f, ftext f mn ra rb imm).

Lemma fields_low b0 X : b0 < 256 ->
  ((b0 + 256 * X) / 16) mod 16 = b0 / 16 /\ (b0 + 256 * X) mod 16 = b0 mod 16.
Proof. intros. split; lia. Qed.

Lemma fields_regs b0 ra rb X : b0 < 256 -> ra < 16 -> rb < 16 ->
  let v := b0 + 256 * (16 * ra + rb) + 65536 * X in
  (v / 4096) mod 16 = ra /\ (v / 256) mod 16 = rb.
Proof. cbv zeta. intros. split; lia. Qed.

Lemma fields_disp b0 ra rb imm rest : b0 < 256 -> ra < 16 -> rb < 16 -> imm < two64 ->
  let v := b0 + 256 * (16 * ra + rb) + 65536 * imm + 2 ^ 80 * rest in
  (v / 65536) mod two64 = imm.
Proof. unfold two64. cbv zeta. intros. lia. Qed.

Lemma fields_dest b0 imm rest : b0 < 256 -> imm < two64 ->
  let v := b0 + 256 * imm + 2 ^ 72 * rest in
  (v / 256) mod two64 = imm.
Proof. unfold two64. cbv zeta. intros. lia. Qed.

Lemma decode_F0 b0 mn ra rb imm rest : b0 < 256 ->
  (forall c d e f, disasm_fields (b0 / 16) (b0 mod 16) c d e f = (1, mn)) ->
  disassemble (encode F0 b0 ra rb imm rest) = (flen F0, ftext F0 mn ra rb imm).
Proof.
  intros Hb H. rewrite disassemble_fields. cbn [encode flen ftext].
  destruct (fields_low b0 rest Hb) as [-> ->]. apply H.
Qed.

Lemma decode_regs (f : fmt) b0 mn ra rb imm rest :
  f = Frr \/ f = Fra -> b0 < 256 -> ra < 16 -> rb < 16 ->
  (forall e g, disasm_fields (b0 / 16) (b0 mod 16) ra rb e g = (2, ftext f mn ra rb imm)) ->
  disassemble (encode f b0 ra rb imm rest) = (flen f, ftext f mn ra rb imm).
Proof.
  intros Hf Hb Hra Hrb H. rewrite disassemble_fields.
  assert (E : encode f b0 ra rb imm rest = b0 + 256 * (16 * ra + rb) + 65536 * rest)
    by (destruct Hf as [-> | ->]; reflexivity).
  assert (L : flen f = 2) by (destruct Hf as [-> | ->]; reflexivity).
  rewrite E, L.
  destruct (fields_regs b0 ra rb rest Hb Hra Hrb) as [-> ->].
  replace (b0 + 256 * (16 * ra + rb) + 65536 * rest)
    with (b0 + 256 * (16 * ra + rb + 256 * rest)) by lia.
  destruct (fields_low b0 (16 * ra + rb + 256 * rest) Hb) as [-> ->]. apply H.
Qed.

Lemma decode_disp (f : fmt) b0 mn ra rb imm rest :
  f = Firmov \/ f = Frmmov \/ f = Fmrmov -> b0 < 256 -> ra < 16 -> rb < 16 -> imm < two64 ->
  (forall g, disasm_fields (b0 / 16) (b0 mod 16) ra rb imm g = (10, ftext f mn ra rb imm)) ->
  disassemble (encode f b0 ra rb imm rest) = (flen f, ftext f mn ra rb imm).
Proof.
  intros Hf Hb Hra Hrb Himm H. rewrite disassemble_fields.
  assert (E : encode f b0 ra rb imm rest =
              b0 + 256 * (16 * ra + rb) + 65536 * imm + 2 ^ 80 * rest)
    by (destruct Hf as [-> | [-> | ->]]; reflexivity).
  assert (L : flen f = 10) by (destruct Hf as [-> | [-> | ->]]; reflexivity).
  rewrite E, L.
  rewrite (fields_disp b0 ra rb imm rest Hb Hra Hrb Himm).
  replace (b0 + 256 * (16 * ra + rb) + 65536 * imm + 2 ^ 80 * rest)
    with (b0 + 256 * (16 * ra + rb) + 65536 * (imm + 2 ^ 64 * rest)) by lia.
  destruct (fields_regs b0 ra rb (imm + 2 ^ 64 * rest) Hb Hra Hrb) as [-> ->].
  replace (b0 + 256 * (16 * ra + rb) + 65536 * (imm + 2 ^ 64 * rest))
    with (b0 + 256 * (16 * ra + rb + 256 * (imm + 2 ^ 64 * rest))) by lia.
  destruct (fields_low b0 (16 * ra + rb + 256 * (imm + 2 ^ 64 * rest)) Hb) as [-> ->]. apply H.
Qed.

Lemma decode_dest b0 mn ra rb imm rest : b0 < 256 -> imm < two64 ->
  (forall c d e, disasm_fields (b0 / 16) (b0 mod 16) c d e imm = (9, ftext Fdest mn ra rb imm)) ->
  disassemble (encode Fdest b0 ra rb imm rest) = (flen Fdest, ftext Fdest mn ra rb imm).
Proof.
  intros Hb Himm H. rewrite disassemble_fields. cbn [encode flen].
  rewrite (fields_dest b0 imm rest Hb Himm).
  replace (b0 + 256 * imm + 2 ^ 72 * rest) with (b0 + 256 * (imm + 2 ^ 64 * rest)) by lia.
  destruct (fields_low b0 (imm + 2 ^ 64 * rest) Hb) as [-> ->]. apply H.
Qed.

Ltac entry :=
  unfold entry_ok; intros ra rb imm rest Hra Hrb Himm;
  first
  [ apply decode_F0; [ lia | intros; reflexivity ]
  | apply decode_regs; [ auto | lia | assumption | assumption
                       | intros; cbn; rewrite <- ?(name_register_csapp ra Hra), <- ?(name_register_csapp rb Hrb); reflexivity ]
  | apply decode_disp; [ auto | lia | assumption | assumption | assumption
                       | intros; cbn; rewrite <- ?(name_register_csapp ra Hra), <- ?(name_register_csapp rb Hrb); reflexivity ]
  | apply decode_dest; [ lia | assumption | intros; reflexivity ] ].

Lemma decode_all : Forall entry_ok csapp_table.
Proof.
  unfold csapp_table.
  repeat (apply Forall_cons; [ entry | ]). apply Forall_nil.
Qed.

(* ---- length by opcode, and invalid opcodes ------------------------------------------ *)
Lemma length_by_icode v : fst (disassemble v) = len_by_icode ((v / 16) mod 16).
Proof.
  rewrite disassemble_fields.
  assert (H : (v / 16) mod 16 < 16) by lia.
  destruct (lt16_cases _ H) as
    [->|[->|[->|[->|[->|[->|[->|[->|[->|[->|[->|[->|[->|[->|[->| ->]]]]]]]]]]]]]]]; reflexivity.
Qed.

Lemma invalid_opcode v : 11 < (v / 16) mod 16 -> disassemble v = (1, "<invalid>").
Proof.
  intros Hgt. rewrite disassemble_fields.
  assert (H : (v / 16) mod 16 < 16) by lia.
  destruct (lt16_cases _ H) as
    [E|[E|[E|[E|[E|[E|[E|[E|[E|[E|[E|[E|[E|[E|[E|E]]]]]]]]]]]]]]]; rewrite E in *;
    try lia; reflexivity.
Qed.

(* ---- the bytes shown on the trace line ------------------------------------------------ *)
Lemma trace_bytes_spec v : forall count i,
  trace_bytes v i count =
  concat_strings (map (fun k => hex2 ((v / 256 ^ N.of_nat k) mod 256) ++ " ") (seq i count)).
Proof.
  induction count as [|c IH]; intros i; cbn [trace_bytes seq map concat_strings]; [reflexivity|].
  rewrite IH, land255, N.shiftr_div_pow2.
  replace (2 ^ (8 * N.of_nat i)) with (256 ^ N.of_nat i)
    by (change 256 with (2 ^ 8); rewrite <- N.pow_mul_r; reflexivity).
  rewrite sapp_assoc. reflexivity.
Qed.

(* two hex digits denote the byte: checked over all 256 bytes *)
Definition hexval (c : ascii) : option N :=
  let n := N_of_ascii c in
  if (48 <=? n) && (n <=? 57) then Some (n - 48)
  else if (97 <=? n) && (n <=? 102) then Some (n - 87)
  else None.

Fixpoint unhex_acc (s : string) (acc : N) : option N :=
  match s with
  | EmptyString => Some acc
  | String c r => match hexval c with Some d => unhex_acc r (16 * acc + d) | None => None end
  end.
Definition unhex (s : string) : option N :=
  match s with EmptyString => None | _ => unhex_acc s 0 end.

Definition byte_ok (b : N) : bool :=
  match unhex (hex2 b) with Some x => (x =? b) && (String.length (hex2 b) =? 2)%nat | None => false end.

Lemma hex2_all : forallb byte_ok (map N.of_nat (seq 0 256)) = true.
Proof. vm_compute. reflexivity. Qed.

Lemma hex2_roundtrip b : b < 256 -> unhex (hex2 b) = Some b /\ String.length (hex2 b) = 2%nat.
Proof.
  intros H. pose proof hex2_all as A. rewrite forallb_forall in A.
  assert (I : In b (map N.of_nat (seq 0 256))).
  { apply in_map_iff. exists (N.to_nat b). split; [lia|]. apply in_seq. lia. }
  specialize (A b I). unfold byte_ok in A.
  destruct (unhex (hex2 b)) as [x|]; [|discriminate].
  apply andb_true_iff in A. destruct A as [A1 A2].
  apply N.eqb_eq in A1. apply Nat.eqb_eq in A2. subst. auto.
Qed.

(* non-vacuity: the nine encodings of the repository's own unit test, and the extremes *)
Example ex_jle : disassemble 0xAAAAAAAAAAAAAA00000000DEADBEEF71 = (9, "jle 0xdeadbeef").
Proof. vm_compute. reflexivity. Qed.
Example ex_rmmovq : disassemble 0xAAAAAAAAAAAA00000000DEADBEEF8940 = (10, "rmmovq %r8, 0xdeadbeef(%r9)").
Proof. vm_compute. reflexivity. Qed.
Example ex_irmovq_max : disassemble 0x000000000000FFFFFFFFFFFFFFFFFA30 = (10, "irmovq $0xffffffffffffffff, %r10").
Proof. vm_compute. reflexivity. Qed.
Example ex_mrmovq : disassemble (encode Fmrmov 0x50 2 5 (2 ^ 63) 77) = (10, "mrmovq 0x8000000000000000(%rbp), %rdx").
Proof. vm_compute. reflexivity. Qed.
