(* C09, the "with a diagnostic naming the wire" half:

     "A program is rejected, with a diagnostic naming the wire, if any declared wire,
      register-bank input or needed built-in input is never assigned, if a built-in component is
      given some but not all of its inputs (unless its enable input is the constant 0), if any
      name is declared twice or assigned twice or used or assigned without being declared, or if
      it assigns a name that already has a driver (a register-bank output, a built-in output, or
      a constant), or lets a constant or a register's initial value depend on a wire."

   One statement per fault.  A fault is stated over the statement list alone, in the vocabulary of
   CompleteSpec.v (const_names, wire_names, assigned_names, const_exprs, assign_exprs, bank_decls,
   bank_letters, refs, ...); the conclusion is that Program::new (Build.build_program) answers
   [Err es] where [es] contains the diagnostic of the fault's kind naming exactly that wire.

   Program::new works in passes and stops after the first pass that has something to report:
     1  declarations (all of: redeclared names, double assignments, assignments to built-in outputs
        and to constants, constants reading non-constants)      - kinds [decl_diag]
     2  the constants are sorted and evaluated                  - one WireLoop / kinds [expr_diag]
     3  register banks  +  4  missing assignments (one list)    - kinds [bank_diag] / [unset_diag]
     5a built-in components (missing / partial inputs)          - kinds [component_diag]
     5b the wires are sorted (one WireLoop), then every assignment is checked (one list)
   Hence the faults of pass 1 are reported unconditionally; a fault of a later pass is reported
   provided the earlier passes are clean.  "Clean" is stated declaratively: [decls_clean],
   [consts_resolve], [banks_clean], [all_driven], [components_clean] are groups of clauses of
   CompleteSpec.fault_free_with, nothing else ([stmt_decls_clean_exact], [stmt_front_clean_exact]:
   the first two are exactly cleanliness of the model's passes 1 and 2).  Every later fault has two
   forms: (a) with the earlier passes clean the diagnostic is reported; (b) without any cleanliness
   hypothesis the program is rejected and either the diagnostic is in the list or the list is the
   answer of an earlier pass ([before_banks], [before_components], [before_schedule]: the kind
   sets).

   Since [build_program] is a function, the statements "fault on n -> exists es, build = Err es /\
   In d es" for the faults of one pass speak of the same list: all faults of a pass are reported
   together ([stmt_reports_same_list] and the [..._together] statements).

   What is NOT claimed, because it is false of the model and of the Rust code alike (computed
   examples in FaultDiagProofs.v):
   - a constant defined twice has only its last definition examined ([last_const_def]; the draft
     for any definition is refuted);
   - a never-assigned register input is not reported when its register has a complaint of the bank
     pass (the register is dropped): form (b) of [stmt_unset_register_input_reported] has the extra
     alternative, form (a) needs [banks_clean];
   - a constant / initial value reading a REGISTER signal is reported as UndeclaredWireRead (the
     bank signals are declared later), for an initial value only the first such name;
   - a name read by an assignment but declared nowhere gets UnsetUndeclaredWire always,
     UndeclaredWireRead only if it is the checker's first complaint about the expression. *)
From Coq Require Import Relations.
From HclV Require Import Base Expr ExprRules Machine Graph Build BuildSpec LoopSpec Generated CompleteSpec.
Open Scope string_scope.
Open Scope list_scope.
Open Scope N_scope.

(* how often a name occurs in a list of names *)
Definition times (n : string) (l : list string) : nat := count_occ string_dec l n.

(* every name a const or wire declaration introduces, with multiplicity *)
Definition declared_names (stmts : list stmt) : list string := const_names stmts ++ wire_names stmts.

(* "const c = e" is the LAST definition of c in the text (the one that counts when c is, wrongly,
   defined more than once: Program::new keeps one expression per name) *)
Definition last_const_def (stmts : list stmt) (c : string) (e : expr) : Prop :=
  exists l1 l2, const_exprs stmts = l1 ++ (c, e) :: l2 /\ ~ In c (map fst l2).

(* a declared register: bank "register iO { r : w = d; ... }" with a well-formed name; its
   signals are i_r (input) and O_r (output) *)
Definition declared_register (is_lower is_upper : string -> bool) (stmts : list stmt)
           (bname i o r : string) (w : width) (d : expr) : Prop :=
  exists regs, In (bname, regs) (bank_decls stmts) /\ bank_letters bname = Some (i, o) /\
               is_lower i = true /\ is_upper o = true /\ In (r, w, d) regs.

Section FaultDiagSpec.
  Variable f : features.
  Variable fixed : list fixed_fn.
  Variable is_lower : string -> bool.
  Variable is_upper : string -> bool.

  Notation build := (build_program f fixed is_lower is_upper).

  (* the program is rejected and diagnostic d is in the list *)
  Definition reports (stmts : list stmt) (d : err) : Prop :=
    exists es, build stmts = Err es /\ In d es.

  (* the program is rejected with diagnostics of the kinds K only (at least one) *)
  Definition rejected_with_kinds (K : ekind -> bool) (stmts : list stmt) : Prop :=
    exists es, build stmts = Err es /\ es <> [] /\ Forall (fun d => K (ek d) = true) es.

  (* ============================================================================== *)
  (* Pass 1: declarations.  Unconditional.                                           *)
  (* ============================================================================== *)
  (* a name declared twice (const/const, wire/wire or const/wire) *)
  Definition stmt_redeclared_reported : Prop :=
    forall stmts n, (times n (declared_names stmts) >= 2)%nat ->
      reports stmts (mkErr RedeclaredWire [n]).

  (* a declaration of a name the built-in components own (pc, Stat, i10bytes, reg_srcA, ...) *)
  Definition stmt_redeclared_builtin_reported : Prop :=
    forall stmts n, In n (declared_names stmts) -> In n (fixed_names fixed) ->
      reports stmts (mkErr RedeclaredBuiltinWire [n]).

  (* a name assigned twice *)
  Definition stmt_double_assigned_reported : Prop :=
    forall stmts n, (times n (assigned_names stmts) >= 2)%nat ->
      reports stmts (mkErr DoubleAssignedWire [n]).

  (* an assignment to the output of a built-in component *)
  Definition stmt_assigned_builtin_output_reported : Prop :=
    forall stmts n, In n (assigned_names stmts) -> In n (fixed_out_names fixed) ->
      reports stmts (mkErr DoubleAssignedFixedOutWire [n]).

  (* an assignment to a constant *)
  Definition stmt_assigned_constant_reported : Prop :=
    forall stmts n, In n (assigned_names stmts) -> In n (const_names stmts) ->
      reports stmts (mkErr ConstantAssigned [n]).

  (* a constant whose definition reads a wire (declared or built-in) *)
  Definition stmt_const_reads_wire_reported : Prop :=
    forall stmts c e r, last_const_def stmts c e -> In r (refs e) ->
      In r (wire_names stmts) \/ In r (fixed_names fixed) -> ~ In r (const_names stmts) ->
      reports stmts (mkErr NonConstantWireRead [r]).

  (* a constant whose definition reads a name that is neither a constant nor a wire.  (Register
     signals are in this class: the banks are processed later.) *)
  Definition stmt_const_reads_undeclared_reported : Prop :=
    forall stmts c e r, last_const_def stmts c e -> In r (refs e) ->
      ~ In r (wire_names stmts) -> ~ In r (fixed_names fixed) -> ~ In r (const_names stmts) ->
      reports stmts (mkErr UndeclaredWireRead [r]).

  (* DRAFT (refuted): the same for ANY definition "const c = e" of the text.  False when c is
     defined twice: only the last definition is examined (and c is reported as redeclared). *)
  Definition stmt_const_reads_wire_reported_any_def : Prop :=
    forall stmts c e r, In (c, e) (const_exprs stmts) -> In r (refs e) ->
      In r (wire_names stmts) \/ In r (fixed_names fixed) -> ~ In r (const_names stmts) ->
      reports stmts (mkErr NonConstantWireRead [r]).

  (* ... what is true of any definition: the wire is named, or the constant is (as redeclared) *)
  Definition stmt_const_reads_nonconst_any_def : Prop :=
    forall stmts c e r, In (c, e) (const_exprs stmts) -> In r (refs e) -> ~ In r (const_names stmts) ->
      reports stmts (mkErr NonConstantWireRead [r]) \/ reports stmts (mkErr UndeclaredWireRead [r]) \/
      reports stmts (mkErr RedeclaredWire [c]).

  (* -- the declaration pass is clean: the clauses of fault_free_with about it -- *)
  Record decls_clean (stmts : list stmt) : Prop := {
    dc_declared_once : NoDup (declared_names stmts);
    dc_not_builtin : forall n, In n (declared_names stmts) -> ~ In n (fixed_names fixed);
    dc_assigned_once : NoDup (assigned_names stmts);
    dc_not_driven : forall n, In n (assigned_names stmts) ->
        ~ In n (fixed_out_names fixed) /\ ~ In n (const_names stmts);
    dc_consts_closed : forall n e r, In (n, e) (const_exprs stmts) -> In r (refs e) -> In r (const_names stmts)
  }.

  (* it is exactly cleanliness of the model's declaration pass (LoopSpec.decl_pass_clean) *)
  Definition stmt_decls_clean_exact : Prop :=
    forall stmts, decls_clean stmts <-> decl_pass_clean fixed stmts.

  (* a program whose declarations are not clean is rejected by pass 1, with diagnostics of the
     declaration kinds only (no later fault is looked for) *)
  Definition stmt_decl_faults_preempt : Prop :=
    forall stmts, ~ decls_clean stmts -> rejected_with_kinds decl_diag stmts.

  (* all faults of pass 1 appear in ONE list *)
  Definition stmt_decl_faults_together : Prop :=
    forall stmts, ~ decls_clean stmts ->
      exists es, build stmts = Err es /\
        (forall n, (times n (declared_names stmts) >= 2)%nat -> In (mkErr RedeclaredWire [n]) es) /\
        (forall n, In n (declared_names stmts) -> In n (fixed_names fixed) -> In (mkErr RedeclaredBuiltinWire [n]) es) /\
        (forall n, (times n (assigned_names stmts) >= 2)%nat -> In (mkErr DoubleAssignedWire [n]) es) /\
        (forall n, In n (assigned_names stmts) -> In n (fixed_out_names fixed) ->
                   In (mkErr DoubleAssignedFixedOutWire [n]) es) /\
        (forall n, In n (assigned_names stmts) -> In n (const_names stmts) -> In (mkErr ConstantAssigned [n]) es) /\
        (forall c e r, last_const_def stmts c e -> In r (refs e) -> ~ In r (const_names stmts) ->
                       (In r (wire_names stmts) \/ In r (fixed_names fixed) -> In (mkErr NonConstantWireRead [r]) es) /\
                       (~ In r (wire_names stmts) -> ~ In r (fixed_names fixed) -> In (mkErr UndeclaredWireRead [r]) es)).

  (* and every diagnostic of a pass-1 rejection names a real fault of that kind *)
  Definition stmt_decl_diags_are_real : Prop :=
    forall stmts es d, build stmts = Err es -> ~ decls_clean stmts -> In d es ->
      exists n, enames d = [n] /\
        match ek d with
        | RedeclaredWire => (times n (declared_names stmts) >= 2)%nat
        | RedeclaredBuiltinWire => In n (declared_names stmts) /\ In n (fixed_names fixed)
        | DoubleAssignedWire => (times n (assigned_names stmts) >= 2)%nat
        | DoubleAssignedFixedOutWire => In n (assigned_names stmts) /\ In n (fixed_out_names fixed)
        | ConstantAssigned => In n (assigned_names stmts) /\ In n (const_names stmts)
        | NonConstantWireRead =>
            (exists c e, last_const_def stmts c e /\ In n (refs e)) /\
            (In n (wire_names stmts) \/ In n (fixed_names fixed)) /\ ~ In n (const_names stmts)
        | UndeclaredWireRead =>
            (exists c e, last_const_def stmts c e /\ In n (refs e)) /\
            ~ In n (wire_names stmts) /\ ~ In n (fixed_names fixed) /\ ~ In n (const_names stmts)
        | _ => False
        end.

  (* ============================================================================== *)
  (* Pass 2: the constants resolve                                                    *)
  (* ============================================================================== *)
  (* no cycle among the constants, and cv gives every constant the value and width its definition
     has: the clauses of fault_free_with about constants *)
  Record consts_resolve (cv : string -> option wval) (stmts : list stmt) : Prop := {
    cr_acyclic : acyclic (const_reads stmts);
    cr_domain : forall n, cv n <> None <-> In n (const_names stmts);
    cr_eval : forall n e, In (n, e) (const_exprs stmts) -> exists v, cv n = Some v /\ eval f cv e = Ok v;
    cr_width : forall n e, In (n, e) (const_exprs stmts) -> exists w, has_width f (cwidth cv) cv e w
  }.

  (* passes 1 and 2 are clean *)
  Definition front_clean (cv : string -> option wval) (stmts : list stmt) : Prop :=
    decls_clean stmts /\ consts_resolve cv stmts.

  (* ... exactly when the model's pass 1 is clean and its resolve_constants succeeds, with the
     values cv *)
  Definition stmt_front_clean_exact : Prop :=
    forall stmts cv, front_clean cv stmts <->
      (decl_pass_clean fixed stmts /\
       exists consts, resolve_constants f (s_consts (decls_of fixed stmts)) = Ok consts /\
                      forall n, lookup consts n = cv n).

  (* a non-empty list of diagnostics of the kinds K only *)
  Definition only_kinds (K : ekind -> bool) (es : list err) : Prop :=
    es <> [] /\ Forall (fun d => K (ek d) = true) es.

  (* what passes 1 and 2 answer when they reject *)
  Definition before_banks (es : list err) : Prop :=
    only_kinds decl_diag es \/ (exists c, es = [mkErr WireLoop c]) \/ only_kinds expr_diag es.

  (* the program is rejected; d is reported unless the rejection is of the form E *)
  Definition reports_unless (E : list err -> Prop) (stmts : list stmt) (d : err) : Prop :=
    exists es, build stmts = Err es /\ (In d es \/ E es).

  (* ============================================================================== *)
  (* Passes 3 and 4: register banks and missing assignments (reported together).       *)
  (* Each fault: (a) reported when passes 1-2 are clean; (b) without that hypothesis,  *)
  (* reported unless passes 1-2 reject.                                               *)
  (* ============================================================================== *)
  (* a bank whose name is not one lower-case then one upper-case character *)
  Definition stmt_bank_name_reported : Prop :=
    forall stmts name regs, In (name, regs) (bank_decls stmts) ->
      (forall i o, bank_letters name = Some (i, o) -> ~ (is_lower i = true /\ is_upper o = true)) ->
      (forall cv, front_clean cv stmts -> reports stmts (mkErr InvalidRegisterBankName [name])) /\
      reports_unless before_banks stmts (mkErr InvalidRegisterBankName [name]).

  (* an assignment to a register output O_r *)
  Definition stmt_assigned_register_output_reported : Prop :=
    forall stmts bn i o r w d, declared_register is_lower is_upper stmts bn i o r w d ->
      In (o ++ "_" ++ r)%string (assigned_names stmts) ->
      (forall cv, front_clean cv stmts -> reports stmts (mkErr DoubleAssignedRegisterWire [(o ++ "_" ++ r)%string])) /\
      reports_unless before_banks stmts (mkErr DoubleAssignedRegisterWire [(o ++ "_" ++ r)%string]).

  (* a register whose initial value reads a wire (declared or built-in) *)
  Definition stmt_init_reads_wire_reported : Prop :=
    forall stmts bn i o r w d rf, declared_register is_lower is_upper stmts bn i o r w d ->
      In rf (refs d) -> In rf (wire_names stmts) \/ In rf (fixed_names fixed) -> ~ In rf (const_names stmts) ->
      (forall cv, front_clean cv stmts -> reports stmts (mkErr NonConstantWireRead [rf])) /\
      reports_unless before_banks stmts (mkErr NonConstantWireRead [rf]).

  (* a register signal i_r / O_r that is also declared as a wire or constant *)
  Definition stmt_register_signal_declared_reported : Prop :=
    forall stmts bn i o r w d n, declared_register is_lower is_upper stmts bn i o r w d ->
      n = (i ++ "_" ++ r)%string \/ n = (o ++ "_" ++ r)%string -> In n (declared_names stmts) ->
      (forall cv, front_clean cv stmts -> reports stmts (mkErr RedeclaredWire [n])) /\
      reports_unless before_banks stmts (mkErr RedeclaredWire [n]).

  (* a bank's stall_O / bubble_O that is also declared as a wire or constant *)
  Definition stmt_control_signal_declared_reported : Prop :=
    forall stmts bn regs i o n, In (bn, regs) (bank_decls stmts) -> bank_letters bn = Some (i, o) ->
      is_lower i = true -> is_upper o = true ->
      n = ("stall_" ++ o)%string \/ n = ("bubble_" ++ o)%string -> In n (declared_names stmts) ->
      (forall cv, front_clean cv stmts -> reports stmts (mkErr RedeclaredWire [n])) /\
      reports_unless before_banks stmts (mkErr RedeclaredWire [n]).

  (* a declared wire that is never assigned *)
  Definition stmt_unset_wire_reported : Prop :=
    forall stmts n, In n (wire_names stmts) -> ~ In n (assigned_names stmts) ->
      (forall cv, front_clean cv stmts -> reports stmts (mkErr UnsetWire [n])) /\
      reports_unless before_banks stmts (mkErr UnsetWire [n]).

  (* -- the register banks are well formed: the clauses of fault_free_with about banks -- *)
  Record banks_clean (cv : string -> option wval) (stmts : list stmt) : Prop := {
    bc_name : forall b, In b (bank_decls stmts) ->
        exists i o, bank_letters (fst b) = Some (i, o) /\ is_lower i = true /\ is_upper o = true;
    bc_distinct : NoDup (bank_signal_names stmts);
    bc_undeclared : forall n, In n (bank_signal_names stmts ++ bank_specials stmts) -> ~ In n (declared_names stmts);
    bc_init_closed : forall x r, In x (bank_regs stmts) -> In r (refs (reg_init x)) -> In r (const_names stmts);
    bc_init_width : forall x, In x (bank_regs stmts) -> exists w, has_width f (cwidth cv) cv (reg_init x) w;
    bc_init_eval : forall x, In x (bank_regs stmts) ->
        exists v, eval f cv (reg_init x) = Ok v /\ wcombine (wd v) (reg_width x) <> None;
    bc_outputs_unassigned : forall n, In n (bank_outputs stmts) -> ~ In n (assigned_names stmts)
  }.

  (* the diagnostics of the register-bank pass proper / of the missing-assignment check *)
  Definition bank_diag (k : ekind) : bool :=
    expr_diag k ||
    match k with
    | InvalidRegisterBankName | RedeclaredWire | NonConstantWireRead | DuplicateRegister
    | DoubleAssignedRegisterWire | DoubleDeclaredRegisterOutWire | MismatchedRegisterDefaultWidths => true
    | _ => false
    end.
  Definition unset_diag (k : ekind) : bool :=
    match k with UnsetWire | UnsetRegisterInputWire => true | _ => false end.

  (* a register input i_r that is never assigned: reported when the banks are well formed;
     in general, reported unless an earlier pass rejects or the bank pass itself has a complaint
     (a register with a complaint is dropped, and its input is then not asked for) *)
  Definition stmt_unset_register_input_reported : Prop :=
    forall stmts bn i o r w d, declared_register is_lower is_upper stmts bn i o r w d ->
      ~ In (i ++ "_" ++ r)%string (assigned_names stmts) ->
      (forall cv, front_clean cv stmts -> banks_clean cv stmts ->
                  reports stmts (mkErr UnsetRegisterInputWire [(i ++ "_" ++ r)%string])) /\
      reports_unless (fun es => before_banks es \/ exists x, In x es /\ bank_diag (ek x) = true)
                     stmts (mkErr UnsetRegisterInputWire [(i ++ "_" ++ r)%string]).


  (* ============================================================================== *)
  (* Pass 5a: the built-in components (all their complaints are reported together).    *)
  (* (a) reported when passes 1-4 are clean; (b) reported unless passes 1-4 reject.    *)
  (* ============================================================================== *)
  (* every declared wire and every register input is assigned *)
  Definition all_driven (stmts : list stmt) : Prop :=
    forall n, In n (wire_names stmts ++ bank_inputs stmts) -> In n (assigned_names stmts).

  (* passes 1 to 4 are clean *)
  Definition middle_clean (cv : string -> option wval) (stmts : list stmt) : Prop :=
    front_clean cv stmts /\ banks_clean cv stmts /\ all_driven stmts.

  Definition banks_pass_diag (k : ekind) : bool := bank_diag k || unset_diag k.

  (* what passes 1 to 4 answer when they reject *)
  Definition before_components (es : list err) : Prop :=
    before_banks es \/ only_kinds banks_pass_diag es.

  (* the inputs of component c the program assigns / does not assign, in table order *)
  Definition given_inputs (stmts : list stmt) (c : fixed_fn) : list string :=
    filter (fun n => mem_str n (assigned_names stmts)) (fixed_in_names c).
  Definition missing_inputs (stmts : list stmt) (c : fixed_fn) : list string :=
    filter (fun n => negb (mem_str n (assigned_names stmts))) (fixed_in_names c).

  (* an input of a mandatory component (Stat, pc) is never assigned *)
  Definition stmt_mandatory_input_reported : Prop :=
    forall stmts c j, In c fixed -> ff_mandatory c = true ->
      In j (fixed_in_names c) -> ~ In j (assigned_names stmts) ->
      (forall cv, middle_clean cv stmts -> reports stmts (mkErr UnsetBuiltinWire [j])) /\
      reports_unless before_components stmts (mkErr UnsetBuiltinWire [j]).

  (* the component is switched off: its enable input is assigned an expression that evaluates,
     from the constants alone, to 0 *)
  Definition switched_off (cv : string -> option wval) (stmts : list stmt) (c : fixed_fn) : Prop :=
    exists en e v, ff_enable c = Some en /\ In (en, e) (assign_exprs stmts) /\
                   eval f cv e = Ok v /\ is_true v = false.

  (* a component given some but not all of its inputs, and not switched off: one diagnostic
     listing the inputs given, "/", the inputs missing *)
  Definition stmt_partial_component_reported : Prop :=
    forall stmts c i j, In c fixed -> ff_mandatory c = false ->
      In i (fixed_in_names c) -> In i (assigned_names stmts) ->
      In j (fixed_in_names c) -> ~ In j (assigned_names stmts) ->
      (forall cv, middle_clean cv stmts -> ~ switched_off cv stmts c ->
         reports stmts (mkErr PartialFixedInput (given_inputs stmts c ++ ["/"] ++ missing_inputs stmts c))) /\
      ((forall cv, front_clean cv stmts -> ~ switched_off cv stmts c) ->
         reports_unless before_components stmts
           (mkErr PartialFixedInput (given_inputs stmts c ++ ["/"] ++ missing_inputs stmts c))).

  (* the output of a component is read by an assignment ("needed") while an input of the component
     is never assigned: the diagnostic names the missing INPUT, not the output that is read *)
  Definition stmt_needed_output_reported : Prop :=
    forall stmts c o w y e j, In c fixed -> ff_mandatory c = false -> ff_out c = Some (o, w) ->
      In (y, e) (assign_exprs stmts) -> In o (refs e) ->
      ~ In o (bank_outputs stmts) -> ~ In o (bank_specials stmts) ->
      In j (fixed_in_names c) -> ~ In j (assigned_names stmts) ->
      (forall cv, middle_clean cv stmts -> reports stmts (mkErr UnsetBuiltinWire [j])) /\
      reports_unless before_components stmts (mkErr UnsetBuiltinWire [j]).

  (* ============================================================================== *)
  (* Pass 5b: every assignment is checked, in dependency order (reported together).    *)
  (* ============================================================================== *)
  (* the built-in components have no complaint: clauses of fault_free_with *)
  Record components_clean (cv : string -> option wval) (stmts : list stmt) : Prop := {
    cc_mandatory : forall c, In c fixed -> ff_mandatory c = true -> inputs_assigned stmts c;
    cc_partial : forall c i j, In c fixed -> ff_mandatory c = false ->
        In i (fixed_in_names c) -> In i (assigned_names stmts) ->
        In j (fixed_in_names c) -> ~ In j (assigned_names stmts) -> switched_off cv stmts c;
    cc_needed : forall c o w y e, In c fixed -> ff_out c = Some (o, w) ->
        In (y, e) (assign_exprs stmts) -> In o (refs e) -> inputs_assigned stmts c
  }.

  Definition component_diag (k : ekind) : bool :=
    match k with UnsetBuiltinWire | PartialFixedInput => true | _ => false end.

  (* what passes 1 to 5a and the sorter answer when they reject *)
  Definition before_schedule (es : list err) : Prop :=
    before_components es \/ only_kinds component_diag es \/ exists c, es = [mkErr WireLoop c].

  (* no declaration of any sort gives n a width *)
  Definition undeclared (stmts : list stmt) (n : string) : Prop :=
    ~ In n (fixed_names fixed) /\ ~ In n (declared_names stmts) /\
    ~ In n (bank_signal_names stmts) /\ ~ In n (bank_specials stmts).

  (* an assignment to an undeclared name *)
  Definition stmt_undeclared_assigned_reported : Prop :=
    table_distinct fixed ->
    forall stmts n, In n (assigned_names stmts) -> undeclared stmts n ->
      (forall cv, middle_clean cv stmts -> components_clean cv stmts -> (forall c, ~ wire_cycle fixed stmts c) ->
                  reports stmts (mkErr UndeclaredWireAssigned [n])) /\
      reports_unless before_schedule stmts (mkErr UndeclaredWireAssigned [n]).

  (* an assignment reads a name that has no driver and is not declared by the program: not a
     constant, not a register output, not a bank's stall_X / bubble_X, not assigned, not a built-in
     output, not a declared wire.  (What is left: names nobody declares, and never-assigned built-in
     INPUTS such as mem_addr - which the message then calls "undeclared".) *)
  Definition stmt_undriven_read_reported : Prop :=
    table_distinct fixed ->
    forall stmts y e n, In (y, e) (assign_exprs stmts) -> In n (refs e) ->
      ~ In n (assigned_names stmts) -> ~ In n (declared_names stmts) ->
      ~ In n (bank_outputs stmts) -> ~ In n (bank_specials stmts) -> ~ In n (fixed_out_names fixed) ->
      (forall cv, middle_clean cv stmts -> components_clean cv stmts -> (forall c, ~ wire_cycle fixed stmts c) ->
                  reports stmts (mkErr UnsetUndeclaredWire [n])) /\
      reports_unless before_schedule stmts (mkErr UnsetUndeclaredWire [n]).
  (* ============================================================================== *)
  (* "Reported together": build_program is a function, so whatever is reported is in    *)
  (* the one list of the rejection.  Made explicit per pass.                           *)
  (* ============================================================================== *)
  Definition stmt_reports_same_list : Prop :=
    forall stmts es d, build stmts = Err es -> reports stmts d -> In d es.

  (* passes 3 and 4: with passes 1-2 clean, the list of ANY rejection contains a diagnostic for
     every bank fault and every missing assignment (two unset wires: two UnsetWire, ...) *)
  Definition stmt_bank_pass_together : Prop :=
    forall stmts cv es, front_clean cv stmts -> build stmts = Err es ->
      (forall name regs, In (name, regs) (bank_decls stmts) ->
         (forall i o, bank_letters name = Some (i, o) -> ~ (is_lower i = true /\ is_upper o = true)) ->
         In (mkErr InvalidRegisterBankName [name]) es) /\
      (forall bn i o r w d, declared_register is_lower is_upper stmts bn i o r w d ->
         (In (o ++ "_" ++ r)%string (assigned_names stmts) ->
          In (mkErr DoubleAssignedRegisterWire [(o ++ "_" ++ r)%string]) es) /\
         (forall rf, In rf (refs d) -> In rf (wire_names stmts) \/ In rf (fixed_names fixed) ->
                     ~ In rf (const_names stmts) -> In (mkErr NonConstantWireRead [rf]) es) /\
         (banks_clean cv stmts -> ~ In (i ++ "_" ++ r)%string (assigned_names stmts) ->
          In (mkErr UnsetRegisterInputWire [(i ++ "_" ++ r)%string]) es)) /\
      (forall n, In n (wire_names stmts) -> ~ In n (assigned_names stmts) -> In (mkErr UnsetWire [n]) es).

  (* pass 5a: with passes 1-4 clean, every complaint about a built-in component is in the list *)
  Definition stmt_component_pass_together : Prop :=
    forall stmts cv es, middle_clean cv stmts -> build stmts = Err es ->
      forall c, In c fixed ->
        (ff_mandatory c = true -> forall j, In j (fixed_in_names c) -> ~ In j (assigned_names stmts) ->
           In (mkErr UnsetBuiltinWire [j]) es) /\
        (ff_mandatory c = false -> ~ switched_off cv stmts c ->
           forall i j, In i (fixed_in_names c) -> In i (assigned_names stmts) ->
                       In j (fixed_in_names c) -> ~ In j (assigned_names stmts) ->
           In (mkErr PartialFixedInput (given_inputs stmts c ++ ["/"] ++ missing_inputs stmts c)) es) /\
        (ff_mandatory c = false -> forall o w y e, ff_out c = Some (o, w) ->
           In (y, e) (assign_exprs stmts) -> In o (refs e) ->
           ~ In o (bank_outputs stmts) -> ~ In o (bank_specials stmts) ->
           forall j, In j (fixed_in_names c) -> ~ In j (assigned_names stmts) ->
           In (mkErr UnsetBuiltinWire [j]) es).

  (* pass 5b: with everything before clean and no cycle, every undeclared target and every undriven
     undeclared name that is read is in the list *)
  Definition stmt_schedule_pass_together : Prop :=
    table_distinct fixed ->
    forall stmts cv es, middle_clean cv stmts -> components_clean cv stmts ->
      (forall c, ~ wire_cycle fixed stmts c) -> build stmts = Err es ->
      (forall n, In n (assigned_names stmts) -> undeclared stmts n -> In (mkErr UndeclaredWireAssigned [n]) es) /\
      (forall y e n, In (y, e) (assign_exprs stmts) -> In n (refs e) ->
         ~ In n (assigned_names stmts) -> ~ In n (declared_names stmts) ->
         ~ In n (bank_outputs stmts) -> ~ In n (bank_specials stmts) -> ~ In n (fixed_out_names fixed) ->
         In (mkErr UnsetUndeclaredWire [n]) es).
  (* ============================================================================== *)
  (* Every rejection is the answer of exactly one pass: the kind sets.                 *)
  (* ============================================================================== *)
  Definition schedule_diag (k : ekind) : bool :=
    expr_diag k ||
    match k with
    | MismatchedWireWidths | UndeclaredWireAssigned | UnsetWire | UnsetUndeclaredWire => true
    | _ => false
    end.

  (* (in particular UnsetBuiltinWire is never an answer of the missing-assignment check of pass 4,
     although the code has a branch for it) *)
  Definition stmt_rejection_classified : Prop :=
    table_distinct fixed ->
    forall stmts es, build stmts = Err es ->
      only_kinds decl_diag es \/                              (* pass 1 *)
      (exists c, es = [mkErr WireLoop c]) \/                   (* a cycle: constants or wires *)
      only_kinds expr_diag es \/                              (* pass 2: evaluation of constants *)
      only_kinds banks_pass_diag es \/                        (* passes 3-4 *)
      only_kinds component_diag es \/                         (* pass 5a *)
      only_kinds schedule_diag es.                            (* pass 5b *)
End FaultDiagSpec.

(* ================================================================================== *)
(* For the component table of the compiled implementation the hypotheses on the table   *)
(* hold: a built-in name is never a register signal or a stall_X / bubble_X, inputs and *)
(* outputs are pairwise distinct.                                                       *)
(* ================================================================================== *)
Definition stmt_needed_output_reported_gen : Prop :=
  forall f il iu stmts c o w y e j, In c gen_fixed -> ff_mandatory c = false -> ff_out c = Some (o, w) ->
    In (y, e) (assign_exprs stmts) -> In o (refs e) ->
    In j (fixed_in_names c) -> ~ In j (assigned_names stmts) ->
    (forall cv, middle_clean f gen_fixed il iu cv stmts -> reports f gen_fixed il iu stmts (mkErr UnsetBuiltinWire [j])) /\
    reports_unless f gen_fixed il iu before_components stmts (mkErr UnsetBuiltinWire [j]).

Definition stmt_undeclared_assigned_reported_gen : Prop :=
  forall f il iu stmts n, In n (assigned_names stmts) -> undeclared gen_fixed stmts n ->
    (forall cv, middle_clean f gen_fixed il iu cv stmts -> components_clean f gen_fixed cv stmts ->
                (forall c, ~ wire_cycle gen_fixed stmts c) ->
                reports f gen_fixed il iu stmts (mkErr UndeclaredWireAssigned [n])) /\
    reports_unless f gen_fixed il iu before_schedule stmts (mkErr UndeclaredWireAssigned [n]).

Definition stmt_undriven_read_reported_gen : Prop :=
  forall f il iu stmts y e n, In (y, e) (assign_exprs stmts) -> In n (refs e) ->
    ~ In n (assigned_names stmts) -> ~ In n (declared_names stmts) ->
    ~ In n (bank_outputs stmts) -> ~ In n (bank_specials stmts) -> ~ In n (fixed_out_names gen_fixed) ->
    (forall cv, middle_clean f gen_fixed il iu cv stmts -> components_clean f gen_fixed cv stmts ->
                (forall c, ~ wire_cycle gen_fixed stmts c) ->
                reports f gen_fixed il iu stmts (mkErr UnsetUndeclaredWire [n])) /\
    reports_unless f gen_fixed il iu before_schedule stmts (mkErr UnsetUndeclaredWire [n]).
