(* The width checker and the program builder WITH SOURCE SPANS: Expr.check / Expr.eval
   (SpannedExpr::get_width_and_check / evaluate, src/ast.rs) and Build.build_program (Program::new,
   src/program.rs) run on the spanned syntax of SpanParser.v, where every diagnostic carries the byte
   spans the Rust code stores in the Error value - exactly those, and in the order, that the hook
   verif_hooks::error_lines lists (Kind|names|start:end,start:end).  Definitions only.

   WHICH SPANS (the variant of src/errors.rs, the spans error_lines prints for it):
     ast.rs, get_width_and_check
       MismatchedExprWidths(left, wl, right, wr)       [left.span; right.span]   the two operands of a
                                                       binary operator; for  e in {..}:  e and the item
       NonBooleanWidth(e)                              [e.span]   the operand of && / || that is too wide
       MismatchedMuxWidths(options, widths)            the span of the VALUE of every option, in order
       NoMuxDefaultOption / MultipleMuxDefaultOption / UnreachableOptions (mux)   [mux.span]
       UndeclaredWireRead{name, expr}                  [expr.span]   the NamedWire node
       MisorderedBitIndexes(e) / InvalidBitIndex(e, _) [e.span]   the whole  x[lo..hi]
       WireTooWide(e)                                  [e.span]   the whole  (l .. r)
       NoBitWidth(e)                                   [e.span]   the operand of  (l .. r)  without width
     ast.rs, evaluate
       UndeclaredWireRead (the NamedWire node), NoBitWidth (the operand; the RIGHT one is looked at
       first);  RuntimeMismatchedWidths, DivisionByZero carry no span
     program.rs
       RedeclaredWire(name, new, old)                  [new; old]   new = the declaration being processed
                                                       (ConstDecl.name_span / WireDecl.span; for a bank
                                                       signal RegisterBankDecl.name_span / RegisterDecl.span),
                                                       old = wire_decl_spans[name] (the latest earlier one)
       RedeclaredBuiltinWire{name, span}               [span]   the declaration; NO span for the built-in
       DoubleAssignedWire(name, new, old)              [new; old]   spans of the NAME left of "="
       DoubleAssignedFixedOutWire{name, span}          [span]   the assigned name
       ConstantAssigned{name, assign_span, const_span} [assign_span; const_span]
       NonConstantWireRead(name, expr)                 [expr.span]   one diagnostic per NamedWire node
       UndeclaredWireRead (constants)                  [expr.span]   one diagnostic per NamedWire node
       InvalidRegisterBankName(name, span)             [RegisterBankDecl.name_span]
       DuplicateRegister                               none
       DoubleAssignedRegisterWire{register_span, assign_span}    [register_span; assign_span]
       DoubleDeclaredRegisterOutWire{old_span, new_span}         [old; new]  (two RegisterDecl.span)
       MismatchedRegisterDefaultWidths{default_expression}       [default.span]
       UnsetWire(name, span)                           [wire_decl_spans[name]]
       UnsetRegisterInputWire{register_span}           [RegisterDecl.span]
       UnsetBuiltinWire, UnsetUndeclaredWire, PartialFixedInput, WireLoop       none
       MismatchedWireWidths(name, w, expr, w')         [expr.span]   the assigned expression
       UndeclaredWireAssigned{name, span}              [assign_spans[name]]
   There is NO placeholder span for built-in names anywhere in program.rs: a diagnostic that involves a
   built-in wire (RedeclaredBuiltinWire, DoubleAssignedFixedOutWire, UnsetBuiltinWire) names the component in its
   text and shows only the user's construct.

   The maps of spans program.rs keeps:  wire_decl_spans (name -> span of its LATEST declaration:
   insert overwrites), assign_spans (name -> span of the LATEST assigned occurrence), seen_registers
   (signal -> span of the FIRST register that has it: inserted only when absent), register_in_spans
   (input signal -> span of the latest accepted register).  They replace the key lists s_decls,
   s_assigned, t_seen, t_in_spans of Build.v (same keys, same order).

   Three `.unwrap()`s of program.rs read these maps (const_span of ConstantAssigned, assign_span of
   DoubleAssignedRegisterWire, span of UndeclaredWireAssigned); the model reads them with
   [unwrap_span], which answers (0,0) for an absent key; SpanBuildProofs shows that every reported
   span is one the parser recorded (so the key is never absent).

   The functions follow Expr.v / Build.v line by line; where no span is involved (dependency graphs,
   built-in components) the functions of Build.v are used on the erased expressions. *)
From HclV Require Import Base Expr Machine Graph Build Lexer Parser SpanParser.
Open Scope string_scope.
Open Scope list_scope.
Open Scope N_scope.

(* ---- located diagnostics ------------------------------------------------------------------ *)
Record serr := mkSErr { se_kind : ekind; se_names : list string; se_spans : list srcspan }.

Inductive sresult (A : Type) :=
| SOk (a : A)
| SErr (e : list serr).
Arguments SOk {A} a.
Arguments SErr {A} e.

Definition serr1 {A} (k : ekind) (names : list string) (spans : list srcspan) : sresult A :=
  SErr [mkSErr k names spans].

Definition sbind {A B} (r : sresult A) (f : A -> sresult B) : sresult B :=
  match r with SOk a => f a | SErr e => SErr e end.

Notation "'dos' x <- r ; k" := (sbind r (fun x => k))
  (at level 200, x name, r at level 100, k at level 200, right associativity).

(* forgetting the spans *)
Definition erase_serr (d : serr) : err := mkErr (se_kind d) (se_names d).
Definition erase_sresult {A} (r : sresult A) : result A :=
  match r with SOk a => Ok a | SErr es => Err (map erase_serr es) end.

(* a diagnostic without location *)
Definition unlocated (e : err) : serr := mkSErr (ek e) (enames e) [].
Definition lift {A} (r : result A) : sresult A :=
  match r with Ok a => SOk a | Err es => SErr (map unlocated es) end.

(* `.unwrap()` of a span looked up in a map *)
Definition unwrap_span (o : option srcspan) : srcspan :=
  match o with Some s => s | None => (O, O) end.

(* ---- small helpers ------------------------------------------------------------------------- *)
Definition amap {A B : Type} (g : A -> B) (m : list (string * A)) : list (string * B) :=
  map (fun p => (fst p, g (snd p))) m.

(* HashMap: insert only when the key is absent *)
Definition add_first {V : Type} (m : list (string * V)) (k : string) (v : V) : list (string * V) :=
  if has m k then m else m ++ [(k, v)].

(* the spans of the values of the options of a mux *)
Fixpoint arm_value_spans (a : sarms) : list srcspan :=
  match a with
  | SANil => []
  | SACons _ v rest => espan v :: arm_value_spans rest
  end.

(* the NamedWire nodes of an expression, in apply_to_all order: name and span *)
Fixpoint wire_nodes (e : sexpr) : list (string * srcspan) :=
  match e with
  | SEConst _ _ => []
  | SEBin _ _ l r => wire_nodes l ++ wire_nodes r
  | SEUn _ _ e1 => wire_nodes e1
  | SEMux _ a => wire_nodes_arms a
  | SEWire sp n => [(n, sp)]
  | SESlice _ e1 _ _ => wire_nodes e1
  | SECat _ l r => wire_nodes l ++ wire_nodes r
  | SEIn _ e1 items => wire_nodes e1 ++ wire_nodes_items items
  end
with wire_nodes_arms (a : sarms) : list (string * srcspan) :=
  match a with
  | SANil => []
  | SACons c v rest => wire_nodes c ++ wire_nodes v ++ wire_nodes_arms rest
  end
with wire_nodes_items (items : sexprs) : list (string * srcspan) :=
  match items with
  | SXNil => []
  | SXCons e1 rest => wire_nodes e1 ++ wire_nodes_items rest
  end.

(* SpannedExpr::find_references(name): the spans of the NamedWire nodes that read [name] *)
Definition ref_spans (name : string) (e : sexpr) : list srcspan :=
  map snd (filter (fun p => String.eqb name (fst p)) (wire_nodes e)).

(* one diagnostic per usage *)
Definition serrs_for (k : ekind) (name : string) (spans : list srcspan) : list serr :=
  map (fun sp => mkSErr k [name] [sp]) spans.

(* ---- SpannedExpr::get_width_and_check with spans --------------------------------------------- *)
Definition combine_exprs_sp (l r : sexpr) (a b : width) : sresult width :=
  match wcombine a b with
  | Some w => SOk w
  | None => serr1 MismatchedExprWidths [] [espan l; espan r]
  end.

Section CheckSp.
  Variable f : features.
  Variable G : string -> option width.       (* declared widths *)
  Variable C : string -> option wval.        (* constant values, for the always-true test *)

  Fixpoint check_sp (e : sexpr) : sresult width :=
    match e with
    | SEConst _ v => SOk (wd v)
    | SEBin _ op l r =>
        match kind op with
        | EqualWidth =>
            dos wl <- check_sp l; dos wr <- check_sp r; combine_exprs_sp l r wl wr
        | EqualWidthWeak =>
            if f_swb f then
              dos wl <- check_sp l; dos wr <- check_sp r; combine_exprs_sp l r wl wr
            else
              dos wl <- check_sp l; dos wr <- check_sp r; SOk (wmax wl wr)
        | BooleanCombine =>
            if f_sbo f then
              dos wl <- check_sp l;
              if negb (possibly_boolean wl) then serr1 NonBooleanWidth [] [espan l] else
              dos wr <- check_sp r;
              if negb (possibly_boolean wr) then serr1 NonBooleanWidth [] [espan r] else
              SOk (Bits 1)
            else
              dos _ <- check_sp l; dos _ <- check_sp r; SOk (Bits 1)
        | BooleanFromEqualWidth =>
            dos wl <- check_sp l; dos wr <- check_sp r;
            dos _ <- combine_exprs_sp l r wl wr;
            SOk (Bits 1)
        end
    | SEMux sp a =>
        dos st <- check_arms_sp a (mkMS (Some Unl) false false false);
        if f_rmd f && negb (ms_seen st) then serr1 NoMuxDefaultOption [] [sp]
        else if f_dmd f && ms_twice st then serr1 MultipleMuxDefaultOption [] [sp]
        else if f_duo f && ms_unreach st then serr1 UnreachableOptions [] [sp]
        else match ms_width st with
             | Some w => SOk w
             | None => serr1 MismatchedMuxWidths [] (arm_value_spans a)
             end
    | SEUn _ Not e1 => dos _ <- check_sp e1; SOk (Bits 1)
    | SEUn _ _ e1 => check_sp e1
    | SEWire sp n =>
        match G n with
        | Some w => SOk w
        | None => serr1 UndeclaredWireRead [n] [sp]
        end
    | SESlice sp e1 lo hi =>
        if hi <? lo then serr1 MisorderedBitIndexes [] [sp] else
        dos w <- check_sp e1;
        match w with
        | Bits iw => if iw <? hi then serr1 InvalidBitIndex [] [sp] else SOk (Bits (hi - lo))
        | Unl => SOk (Bits (hi - lo))
        end
    | SECat sp l r =>
        dos wl <- check_sp l;
        match wl with
        | Bits lw =>
            dos wr <- check_sp r;
            match wr with
            | Bits rw => if lw + rw <=? 128 then SOk (Bits (lw + rw)) else serr1 WireTooWide [] [sp]
            | Unl => serr1 NoBitWidth [] [espan r]
            end
        | Unl => serr1 NoBitWidth [] [espan l]
        end
    | SEIn _ e1 items =>
        dos wl <- check_sp e1;
        dos errs <- check_items_sp e1 wl items;
        match errs with
        | [] => SOk (Bits 1)
        | _ => SErr errs
        end
    end
  with check_arms_sp (a : sarms) (st : mux_state) : sresult mux_state :=
    match a with
    | SANil => SOk st
    | SACons c v rest =>
        dos _ <- check_sp c;
        let unreach := ms_unreach st || ms_seen st in
        let at_ := always_true f C (erase_expr c) in
        let twice := ms_twice st || (at_ && ms_seen st) in
        let seen := ms_seen st || at_ in
        dos w <- check_sp v;
        let mw := match ms_width st with
                  | Some cur => wcombine cur w
                  | None => None
                  end in
        check_arms_sp rest (mkMS mw seen twice unreach)
    end
  with check_items_sp (left : sexpr) (wl : width) (items : sexprs) : sresult (list serr) :=
    match items with
    | SXNil => SOk []
    | SXCons e1 rest =>
        dos wi <- check_sp e1;
        dos more <- check_items_sp left wl rest;
        match wcombine wl wi with
        | Some _ => SOk more
        | None => SOk (mkSErr MismatchedExprWidths [] [espan left; espan e1] :: more)
        end
    end.
End CheckSp.

(* ---- SpannedExpr::evaluate with spans ---------------------------------------------------------- *)
Section EvalSp.
  Variable f : features.
  Variable rho : string -> option wval.

  Fixpoint eval_sp (e : sexpr) : sresult wval :=
    match e with
    | SEConst _ v => SOk v
    | SEBin _ op l r =>
        dos lv <- eval_sp l;
        dos rv <- eval_sp r;
        lift (apply f op lv rv)
    | SEUn _ op e1 =>
        dos v <- eval_sp e1;
        SOk (unop_apply op v)
    | SEMux _ a =>
        dos v <- eval_arms_sp a;
        SOk (as_width (dynw_arms f rho (erase_arms a) Unl) v)
    | SEWire sp n =>
        match rho n with
        | Some v => SOk v
        | None => serr1 UndeclaredWireRead [n] [sp]
        end
    | SESlice _ e1 lo hi =>
        dos v <- eval_sp e1;
        SOk (as_width (Bits (hi - lo)) (mkV (shr_or_zero (bits v) lo) Unl))
    | SECat _ l r =>
        dos lv <- eval_sp l;
        dos rv <- eval_sp r;
        match wd rv with
        | Bits rb =>
            match wd lv with
            | Bits lb =>
                SOk (as_width (Bits (sat_u8 (lb + rb)))
                              (mkV (N.lor (shl_or_zero (bits lv) rb) (bits rv)) Unl))
            | Unl => serr1 NoBitWidth [] [espan l]
            end
        | Unl => serr1 NoBitWidth [] [espan r]
        end
    | SEIn _ e1 items =>
        dos v <- eval_sp e1;
        eval_items_sp (bits v) items
    end
  with eval_arms_sp (a : sarms) : sresult wval :=
    match a with
    | SANil => SOk (mkV 0 Unl)
    | SACons c v rest =>
        dos cv <- eval_sp c;
        if is_true cv then eval_sp v else eval_arms_sp rest
    end
  with eval_items_sp (x : N) (items : sexprs) : sresult wval :=
    match items with
    | SXNil => SOk false_value
    | SXCons e1 rest =>
        dos r <- eval_sp e1;
        if x =? bits r then SOk true_value else eval_items_sp x rest
    end.
End EvalSp.

(* ---- Program::new with spans --------------------------------------------------------------------- *)
Definition sbank_decl := (string * srcspan * list sreg_decl)%type.   (* name, name_span, registers *)

Section BuildSp.
  Variable f : features.
  Variable fixed : list fixed_fn.
  Variable is_lower : string -> bool.
  Variable is_upper : string -> bool.

  (* ---- step 1: split the statements ------------------------------------------------------- *)
  Record sst1 := mkSSt1 {
    ss_wires : list (string * width);             (* `wires` *)
    ss_decl_spans : list (string * srcspan);      (* `wire_decl_spans` *)
    ss_assigns : list (string * sexpr);           (* `assignments` *)
    ss_assign_spans : list (string * srcspan);    (* `assign_spans` *)
    ss_needed : list string;                      (* `needed_wires` *)
    ss_consts : list (string * sexpr);            (* `constants_raw` *)
    ss_banks : list sbank_decl;                   (* `register_banks_raw` *)
    ss_types : list (string * wtype);
    ss_errs : list serr
  }.

  (* check_double_declare, before  wire_decl_spans.insert(name, span) *)
  Definition check_double_declare_sp (s : sst1) (name : string) (span : srcspan) : list serr :=
    match lookup (ss_decl_spans s) name with
    | Some other => [mkSErr RedeclaredWire [name] [span; other]]
    | None => if mem_str name (fixed_names fixed) then [mkSErr RedeclaredBuiltinWire [name] [span]] else []
    end.

  Definition step1_const_sp (s : sst1) (d : sconst_decl) : sst1 :=
    let '(name, nsp, e) := d in
    mkSSt1 (ss_wires s) (upd (ss_decl_spans s) name nsp) (ss_assigns s) (ss_assign_spans s) (ss_needed s)
           (upd (ss_consts s) name e) (ss_banks s) (upd (ss_types s) name TConstant)
           (ss_errs s ++ check_double_declare_sp s name nsp).

  Definition step1_wire_sp (s : sst1) (d : swire_decl) : sst1 :=
    let '(name, w, sp) := d in
    mkSSt1 (upd (ss_wires s) name w) (upd (ss_decl_spans s) name sp) (ss_assigns s) (ss_assign_spans s)
           (add_set name (ss_needed s)) (ss_consts s) (ss_banks s) (upd (ss_types s) name TNormal)
           (ss_errs s ++ check_double_declare_sp s name sp).

  Definition step1_assign_name_sp (e : sexpr) (s : sst1) (nm : string * srcspan) : sst1 :=
    let '(name, sp) := nm in
    let errs := match lookup (ss_assign_spans s) name with
                | Some other => [mkSErr DoubleAssignedWire [name] [sp; other]]
                | None => if mem_str name (fixed_out_names fixed)
                          then [mkSErr DoubleAssignedFixedOutWire [name] [sp]] else []
                end in
    mkSSt1 (ss_wires s) (ss_decl_spans s) (upd (ss_assigns s) name e) (upd (ss_assign_spans s) name sp)
           (ss_needed s) (ss_consts s) (ss_banks s) (ss_types s) (ss_errs s ++ errs).

  Definition step1_sp (s : sst1) (x : sstmt) : sst1 :=
    match x with
    | SSConst decls => fold_left step1_const_sp decls s
    | SSWire decls => fold_left step1_wire_sp decls s
    | SSAssign assigns =>
        fold_left (fun s1 (a : sassign) =>
                     fold_left (step1_assign_name_sp (snd (fst a))) (fst (fst a)) s1) assigns s
    | SSBank name nsp regs _ =>
        mkSSt1 (ss_wires s) (ss_decl_spans s) (ss_assigns s) (ss_assign_spans s) (ss_needed s) (ss_consts s)
               (ss_banks s ++ [(name, nsp, regs)]) (ss_types s) (ss_errs s)
    end.

  Definition init1_sp : sst1 :=
    mkSSt1 (fold_left (fun m nw => upd m (fst nw) (snd nw)) (fixed_wires fixed) []) [] [] [] [] [] []
           (fold_left (fun m nt => upd m (fst nt) (snd nt)) (fixed_types fixed) []) [].

  (* constants may only read constants: one diagnostic per reading NamedWire node *)
  Definition const_ref_errors_sp (s : sst1) : list serr :=
    flat_map (fun ne : string * sexpr =>
      let e := snd ne in
      flat_map (fun r =>
        let is_const := has (ss_consts s) r in
        if has (ss_wires s) r && negb is_const then serrs_for NonConstantWireRead r (ref_spans r e)
        else if negb is_const then serrs_for UndeclaredWireRead r (ref_spans r e)
        else []) (nodup_str (refs (erase_expr e)))) (ss_consts s).

  Definition const_assigned_errors_sp (s : sst1) : list serr :=
    flat_map (fun ns : string * srcspan =>
                if has (ss_consts s) (fst ns)
                then [mkSErr ConstantAssigned [fst ns]
                             [snd ns; unwrap_span (lookup (ss_decl_spans s) (fst ns))]]
                else []) (ss_assign_spans s).

  (* ---- step 2: resolve_constants ---------------------------------------------------------- *)
  Fixpoint eval_consts_sp (consts : list (string * sexpr)) (order : list string)
           (vals : list (string * wval)) (errs : list serr) : list (string * wval) * list serr :=
    match order with
    | [] => (vals, errs)
    | n :: r =>
        match lookup consts n with
        | None => (vals, errs ++ [mkSErr Panicked [n] []])
        | Some e =>
            match check_sp f (fun k => match lookup vals k with Some v => Some (wd v) | None => None end)
                           (lookup vals) e with
            | SErr es => eval_consts_sp consts r vals (errs ++ es)
            | SOk _ =>
                match eval_sp f (lookup vals) e with
                | SOk v => eval_consts_sp consts r (upd vals n v) errs
                | SErr es => eval_consts_sp consts r vals (errs ++ es)
                end
            end
        end
    end.

  Definition resolve_constants_sp (consts : list (string * sexpr)) : sresult (list (string * wval)) :=
    dos r <- lift (toposort string String.eqb (const_graph (amap erase_expr consts)));
    match r with
    | inl order =>
        let '(vals, errs) := eval_consts_sp consts order [] [] in
        match errs with [] => SOk vals | _ => SErr errs end
    | inr cyc => serr1 WireLoop cyc []
    end.

  (* ---- step 3: register banks ---------------------------------------------------------------- *)
  Record sst3 := mkSSt3 {
    st_banks : list bank;
    st_defaulted : list string;
    st_types : list (string * wtype);
    st_seen : list (string * srcspan);            (* `seen_registers` *)
    st_in_spans : list (string * srcspan);        (* `register_in_spans` *)
    st_errs : list serr
  }.

  Definition step3_register_sp (s : sst1) (consts : list (string * wval)) (bank_name inp outp : string)
             (acc : sst3 * list (string * string * width) * list (string * wval))
             (r : sreg_decl) : sst3 * list (string * string * width) * list (string * wval) :=
    let '(t, sigs, defaults) := acc in
    let '(rname, w, dflt, rsp) := r in
    let in_name := (inp ++ "_" ++ rname)%string in
    let out_name := (outp ++ "_" ++ rname)%string in
    let types := upd (upd (st_types t) in_name TRegisterBankInput) out_name TRegisterBankOutput in
    let e_redecl := flat_map (fun n => match lookup (ss_decl_spans s) n with
                                       | Some other => [mkSErr RedeclaredWire [n] [rsp; other]]
                                       | None => []
                                       end) [in_name; out_name] in
    let e_nonconst := flat_map (fun rf =>
                        if has (ss_wires s) rf && negb (has consts rf)
                        then serrs_for NonConstantWireRead rf (ref_spans rf dflt) else [])
                        (nodup_str (refs (erase_expr dflt))) in
    let e_dup := if has defaults out_name then [mkSErr DuplicateRegister [bank_name; rname] []] else [] in
    let e_assigned := if has (ss_assigns s) out_name
                      then [mkSErr DoubleAssignedRegisterWire [out_name]
                                   [rsp; unwrap_span (lookup (ss_assign_spans s) out_name)]]
                      else [] in
    let e_out := match lookup (st_seen t) out_name with
                 | Some old => [mkSErr DoubleDeclaredRegisterOutWire [out_name] [old; rsp]]
                 | None => []
                 end in
    let seen1 := add_first (st_seen t) out_name rsp in
    let e_in := match lookup seen1 in_name with
                | Some old => [mkSErr DoubleDeclaredRegisterOutWire [in_name] [old; rsp]]
                | None => []
                end in
    let seen2 := add_first seen1 in_name rsp in
    let pre := e_redecl ++ e_nonconst ++ e_dup ++ e_assigned ++ e_out ++ e_in in
    match pre with
    | _ :: _ =>
        (mkSSt3 (st_banks t) (st_defaulted t) types seen2 (st_in_spans t) (st_errs t ++ pre), sigs, defaults)
    | [] =>
        match check_sp f (fun k => match lookup consts k with Some v => Some (wd v) | None => None end)
                       (lookup consts) dflt with
        | SErr es =>
            (mkSSt3 (st_banks t) (st_defaulted t) types seen2 (st_in_spans t) (st_errs t ++ es), sigs, defaults)
        | SOk _ =>
        match eval_sp f (lookup consts) dflt with
        | SOk v =>
            let e_w := match wcombine (wd v) w with
                       | None => [mkSErr MismatchedRegisterDefaultWidths [bank_name; rname] [espan dflt]]
                       | Some _ => []
                       end in
            (mkSSt3 (st_banks t) (st_defaulted t) types seen2 (upd (st_in_spans t) in_name rsp) (st_errs t ++ e_w),
             sigs ++ [(in_name, out_name, w)], upd defaults out_name (as_width w v))
        | SErr es =>
            (mkSSt3 (st_banks t) (st_defaulted t) types seen2 (st_in_spans t) (st_errs t ++ es), sigs, defaults)
        end
        end
    end.

  Definition step3_bank_sp (s : sst1) (consts : list (string * wval)) (t : sst3) (b : sbank_decl) : sst3 :=
    let '(name, nsp, regs) := b in
    match utf8_chars name "" with
    | [inp; outp] =>
        if negb (is_lower inp) || negb (is_upper outp)
        then mkSSt3 (st_banks t) (st_defaulted t) (st_types t) (st_seen t) (st_in_spans t)
                    (st_errs t ++ [mkSErr InvalidRegisterBankName [name] [nsp]])
        else
          let stall := ("stall_" ++ outp)%string in
          let bubble := ("bubble_" ++ outp)%string in
          let dfl := (if has (ss_assigns s) stall then [] else [stall]) ++
                     (if has (ss_assigns s) bubble then [] else [bubble]) in
          let e_special := flat_map (fun n => match lookup (ss_decl_spans s) n with
                                              | Some other => [mkSErr RedeclaredWire [n] [nsp; other]]
                                              | None => []
                                              end) [stall; bubble] in
          let t1 := mkSSt3 (st_banks t) (fold_left (fun l x => add_set x l) dfl (st_defaulted t))
                           (upd (upd (st_types t) stall TRegisterBankSpecial) bubble TRegisterBankSpecial)
                           (st_seen t) (st_in_spans t) (st_errs t ++ e_special) in
          let '(t2, sigs, defaults) := fold_left (step3_register_sp s consts name inp outp) regs (t1, [], []) in
          mkSSt3 (st_banks t2 ++ [mkBank name sigs defaults stall bubble]) (st_defaulted t2) (st_types t2)
                 (st_seen t2) (st_in_spans t2) (st_errs t2)
    | _ => mkSSt3 (st_banks t) (st_defaulted t) (st_types t) (st_seen t) (st_in_spans t)
                  (st_errs t ++ [mkSErr InvalidRegisterBankName [name] [nsp]])
    end.

  (* ---- step 4: missing assignments -------------------------------------------------------------- *)
  Definition unset_errors_sp (s : sst1) (t : sst3) (needed : list string) : list serr :=
    flat_map (fun n =>
      if has (ss_assigns s) n then []
      else match lookup (ss_decl_spans s) n with
           | Some sp => [mkSErr UnsetWire [n] [sp]]
           | None =>
               match lookup (st_in_spans t) n with
               | Some sp => [mkSErr UnsetRegisterInputWire [n] [sp]]
               | None => [mkSErr UnsetBuiltinWire [n] []]
               end
           end) needed.

  (* ---- step 5: assignments_to_actions ------------------------------------------------------------- *)
  Fixpoint schedule_sp (widths : list (string * width)) (consts : list (string * wval))
           (assigns : list (string * sexpr)) (assign_spans : list (string * srcspan))
           (by_out : list (string * fixed_fn)) (decl_spans : list (string * srcspan))
           (order : list string) (acts : list action) (errs : list serr) (undeclared : list string)
    : list action * list serr * list string :=
    match order with
    | [] => (acts, errs, undeclared)
    | n :: r =>
        match lookup assigns n with
        | Some e =>
            match lookup widths n with
            | Some w =>
                match check_sp f (lookup widths) (lookup consts) e with
                | SOk we =>
                    let e1 := match wcombine w we with
                              | None => [mkSErr MismatchedWireWidths [n] [espan e]]
                              | Some _ => []
                              end in
                    schedule_sp widths consts assigns assign_spans by_out decl_spans r
                                (acts ++ [AAssign n (erase_expr e) w]) (errs ++ e1) undeclared
                | SErr es =>
                    schedule_sp widths consts assigns assign_spans by_out decl_spans r acts (errs ++ es) undeclared
                end
            | None =>
                schedule_sp widths consts assigns assign_spans by_out decl_spans r acts
                            (errs ++ [mkSErr UndeclaredWireAssigned [n] [unwrap_span (lookup assign_spans n)]])
                            undeclared
            end
        | None =>
            match lookup by_out n with
            | Some ff =>
                schedule_sp widths consts assigns assign_spans by_out decl_spans r (acts ++ [ff_action ff]) errs undeclared
            | None =>
                match lookup decl_spans n with
                | Some sp =>
                    schedule_sp widths consts assigns assign_spans by_out decl_spans r acts
                                (errs ++ [mkSErr UnsetWire [n] [sp]]) undeclared
                | None =>
                    schedule_sp widths consts assigns assign_spans by_out decl_spans r acts errs (add_set n undeclared)
                end
            end
        end
    end.

  Definition assignments_to_actions_sp (widths : list (string * width)) (consts : list (string * wval))
             (assigns : list (string * sexpr)) (assign_spans : list (string * srcspan))
             (known : list string) (decl_spans : list (string * srcspan))
    : sresult (list action) :=
    let plain := amap erase_expr assigns in
    let g0 := assign_graph plain known in
    (* preprocess_fixed: its diagnostics (UnsetBuiltinWire, PartialFixedInput) carry no span *)
    let '(g, by_out, no_out, errs0) := fold_left (preprocess_one f consts plain) fixed (g0, [], [], []) in
    match errs0 with
    | _ :: _ => SErr (map unlocated errs0)
    | [] =>
        dos r <- lift (toposort string String.eqb g);
        match r with
        | inr cyc => serr1 WireLoop cyc []
        | inl order =>
            let '(acts, errs, undeclared) :=
              schedule_sp widths consts assigns assign_spans by_out decl_spans order [] [] [] in
            let errs1 := errs ++ map (fun n => mkSErr UnsetUndeclaredWire [n] []) undeclared in
            match errs1 with
            | _ :: _ => SErr errs1
            | [] => SOk (acts ++ map ff_action no_out)
            end
        end
    end.

  Definition build_program_sp (stmts : list sstmt) : sresult program :=
    let s := fold_left step1_sp stmts init1_sp in
    let errs1 := ss_errs s ++ const_assigned_errors_sp s ++ const_ref_errors_sp s in
    match errs1 with
    | _ :: _ => SErr errs1
    | [] =>
        dos consts <- resolve_constants_sp (ss_consts s);
        let t := fold_left (step3_bank_sp s consts) (ss_banks s) (mkSSt3 [] [] (ss_types s) [] [] []) in
        let widths1 := fold_left (fun m nw => upd m (fst nw) (snd nw)) (bank_wires (st_banks t)) (ss_wires s) in
        let known_banks := all_out_names (st_banks t) in
        let needed := fold_left (fun l x => add_set x l) (all_in_names (st_banks t)) (ss_needed s) in
        let errs4 := st_errs t ++ unset_errors_sp s t needed in
        let widths := fold_left (fun m nv => upd m (fst nv) (wd (snd nv))) consts widths1 in
        let known := known_banks ++ st_defaulted t ++ map fst consts in
        match errs4 with
        | _ :: _ => SErr errs4
        | [] =>
            dos acts <- assignments_to_actions_sp widths consts (ss_assigns s) (ss_assign_spans s) known
                                                  (ss_decl_spans s);
            SOk (mkProgram consts acts (st_banks t) (st_defaulted t) (st_types t))
        end
    end.
End BuildSp.

(* the front end on a text: lex, parse with spans, build *)
Definition front_sp (f : features) (fixed : list fixed_fn) (is_lower is_upper : string -> bool)
           (uclass_of : N -> uclass) (tiers : list tier) (bytes : list N) : option (sresult program) :=
  match parse_text_sp uclass_of tiers bytes with
  | Some stmts => Some (build_program_sp f fixed is_lower is_upper stmts)
  | None => None
  end.
