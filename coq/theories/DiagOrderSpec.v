(* C12 for Program::new: "A rejected program is rejected on every run, with the same kinds of
   diagnostics about the same names (when several dependency loops exist, which one is shown may
   differ)."

   Program::new (src/program.rs) iterates over several HashMap / HashSet collections whose
   iteration order changes from run to run.  The model Build.v walks them in insertion order.
   Here the builder is restated with an arbitrary reordering inserted at every place where the
   Rust code iterates a hash collection (`build_program_with`); lookups by key are order-free and
   stay as they are.  The claim of Build.v's header - the order is irrelevant to WHICH
   diagnostics are produced - is `stmt_diagnostics_order_free`.

   Statements only; proofs are in DiagOrderProofs.v. *)
From Coq Require Import Permutation.
From HclV Require Import Base Expr Machine Graph GraphSpec Build MachineSpec SchedSpec BuildSpec LoopSpec.
(* only for the decidable table condition fixed_sched_ok (inputs of a component distinct, outputs
   distinct, no built-in name looks like a register-bank signal) under which C01 is proved *)
From HclV Require BuildProofs.
Open Scope string_scope.
Open Scope list_scope.
Open Scope N_scope.

(* ---- the iteration orders of one run ----------------------------------------------------------- *)
(* One reordering per iteration site.  A site that iterates `expr.referenced_wires()` (a fresh
   HashSet per call) gets the name that owns the expression as context, so that two expressions
   with the same references may still be walked differently. *)
Record ord := mkOrd {
  o_assigned : list string -> list string;                     (* for (name, span) in &assign_spans *)
  o_consts_check : list (string * expr) -> list (string * expr);  (* for (_, expr) in &constants_raw *)
  o_refs_check : string -> list string -> list string;         (*   for in_name in expr.referenced_wires() *)
  o_consts_graph : list (string * expr) -> list (string * expr);  (* resolve_constants: for (name, expr) in exprs *)
  o_refs_graph : string -> list string -> list string;         (*   for in_name in expr.referenced_wires() *)
  o_present_consts : graph string -> graph string;             (* the sorter's own hash tables, constants *)
  o_refs_bank : string -> list string -> list string;          (* register.default.referenced_wires() *)
  o_needed : list string -> list string;                       (* for name in needed_wires *)
  o_assigns : list (string * expr) -> list (string * expr);    (* for (name, expr) in assignments *)
  o_refs_assign : string -> list string -> list string;        (*   for in_name in expr.referenced_wires() *)
  o_present_wires : graph string -> graph string;              (* the sorter's own hash tables, wires *)
  o_undeclared : list string -> list string                    (* for name in seen_undeclared *)
}.

(* the same graph, its nodes and successor lists enumerated differently *)
Definition presentation_ok (P : graph string -> graph string) : Prop :=
  forall g, wf_graph string g ->
    wf_graph string (P g) /\
    (forall x, In x (g_nodes (P g)) <-> In x (g_nodes g)) /\
    (forall a b, edge string String.eqb (P g) a b <-> edge string String.eqb g a b).

Definition ord_ok (o : ord) : Prop :=
  (forall l, Permutation (o_assigned o l) l) /\
  (forall l, Permutation (o_consts_check o l) l) /\
  (forall n l, Permutation (o_refs_check o n l) l) /\
  (forall l, Permutation (o_consts_graph o l) l) /\
  (forall n l, Permutation (o_refs_graph o n l) l) /\
  presentation_ok (o_present_consts o) /\
  (forall n l, Permutation (o_refs_bank o n l) l) /\
  (forall l, Permutation (o_needed o l) l) /\
  (forall l, Permutation (o_assigns o l) l) /\
  (forall n l, Permutation (o_refs_assign o n l) l) /\
  presentation_ok (o_present_wires o) /\
  (forall l, Permutation (o_undeclared o l) l).

(* insertion order everywhere: the model Build.v *)
Definition ord_id : ord :=
  mkOrd (fun l => l) (fun l => l) (fun _ l => l) (fun l => l) (fun _ l => l) (fun g => g)
        (fun _ l => l) (fun l => l) (fun l => l) (fun _ l => l) (fun g => g) (fun l => l).

(* ---- Build.v again, with the reorderings inserted ---------------------------------------------- *)
Section BuildWith.
  Variable f : features.
  Variable fixed : list fixed_fn.
  Variable is_lower : string -> bool.
  Variable is_upper : string -> bool.
  Variable o : ord.

  (* step 1 walks the statement list (a Vec): unchanged *)

  Definition const_assigned_errors_with (s : st1) : list err :=
    flat_map (fun n => if has (s_consts s) n then [mkErr ConstantAssigned [n]] else [])
             (o_assigned o (s_assigned s)).

  Definition const_ref_errors_with (s : st1) : list err :=
    flat_map (fun ne =>
      let e := snd ne in
      flat_map (fun r =>
        let is_const := has (s_consts s) r in
        if has (s_wires s) r && negb is_const then errs_for NonConstantWireRead r (count_str r (refs e))
        else if negb is_const then errs_for UndeclaredWireRead r (count_str r (refs e))
        else []) (o_refs_check o (fst ne) (nodup_str (refs e)))) (o_consts_check o (s_consts s)).

  Definition const_graph_with (consts : list (string * expr)) : graph string :=
    fold_left (fun g ne =>
                 graph_add_node (fold_left (fun g1 r => graph_insert g1 r (fst ne))
                                           (o_refs_graph o (fst ne) (nodup_str (refs (snd ne)))) g)
                                (fst ne))
              (o_consts_graph o consts) empty_graph.

  Definition resolve_constants_with (consts : list (string * expr)) : result (list (string * wval)) :=
    do r <- toposort string String.eqb (o_present_consts o (const_graph_with consts));
    match r with
    | inl order =>
        let '(vals, errs) := eval_consts f consts order [] [] in
        match errs with [] => Ok vals | _ => Err errs end
    | inr cyc => err1 WireLoop cyc
    end.

  Definition step3_register_with (s : st1) (consts : list (string * wval)) (bank_name inp outp : string)
             (acc : st3 * list (string * string * width) * list (string * wval))
             (r : string * width * expr) : st3 * list (string * string * width) * list (string * wval) :=
    let '(t, sigs, defaults) := acc in
    let '(rname, w, dflt) := r in
    let in_name := (inp ++ "_" ++ rname)%string in
    let out_name := (outp ++ "_" ++ rname)%string in
    let types := upd (upd (t_types t) in_name TRegisterBankInput) out_name TRegisterBankOutput in
    let e_redecl := flat_map (fun n => if mem_str n (s_decls s) then [mkErr RedeclaredWire [n]] else [])
                             [in_name; out_name] in
    let e_nonconst := flat_map (fun rf =>
                        if has (s_wires s) rf && negb (has consts rf)
                        then errs_for NonConstantWireRead rf (count_str rf (refs dflt)) else [])
                        (o_refs_bank o out_name (nodup_str (refs dflt))) in
    let e_dup := if has defaults out_name then [mkErr DuplicateRegister [bank_name; rname]] else [] in
    let e_assigned := if has (s_assigns s) out_name then [mkErr DoubleAssignedRegisterWire [out_name]] else [] in
    let e_out := if mem_str out_name (t_seen t) then [mkErr DoubleDeclaredRegisterOutWire [out_name]] else [] in
    let seen1 := add_set out_name (t_seen t) in
    let e_in := if mem_str in_name seen1 then [mkErr DoubleDeclaredRegisterOutWire [in_name]] else [] in
    let seen2 := add_set in_name seen1 in
    let pre := e_redecl ++ e_nonconst ++ e_dup ++ e_assigned ++ e_out ++ e_in in
    match pre with
    | _ :: _ =>
        (mkSt3 (t_banks t) (t_defaulted t) types seen2 (t_in_spans t) (t_errs t ++ pre), sigs, defaults)
    | [] =>
        match check f (fun k => match lookup consts k with Some v => Some (wd v) | None => None end)
                    (lookup consts) dflt with
        | Err es =>
            (mkSt3 (t_banks t) (t_defaulted t) types seen2 (t_in_spans t) (t_errs t ++ es), sigs, defaults)
        | Ok _ =>
        match eval f (lookup consts) dflt with
        | Ok v =>
            let e_w := match wcombine (wd v) w with
                       | None => [mkErr MismatchedRegisterDefaultWidths [bank_name; rname]]
                       | Some _ => []
                       end in
            (mkSt3 (t_banks t) (t_defaulted t) types seen2 (add_set in_name (t_in_spans t)) (t_errs t ++ e_w),
             sigs ++ [(in_name, out_name, w)], upd defaults out_name (as_width w v))
        | Err es =>
            (mkSt3 (t_banks t) (t_defaulted t) types seen2 (t_in_spans t) (t_errs t ++ es), sigs, defaults)
        end
        end
    end.

  Definition step3_bank_with (s : st1) (consts : list (string * wval)) (t : st3)
             (b : string * list (string * width * expr)) : st3 :=
    let '(name, regs) := b in
    match utf8_chars name "" with
    | [inp; outp] =>
        if negb (is_lower inp) || negb (is_upper outp)
        then mkSt3 (t_banks t) (t_defaulted t) (t_types t) (t_seen t) (t_in_spans t)
                   (t_errs t ++ [mkErr InvalidRegisterBankName [name]])
        else
          let stall := ("stall_" ++ outp)%string in
          let bubble := ("bubble_" ++ outp)%string in
          let dfl := (if has (s_assigns s) stall then [] else [stall]) ++
                     (if has (s_assigns s) bubble then [] else [bubble]) in
          let e_special := flat_map (fun n => if mem_str n (s_decls s) then [mkErr RedeclaredWire [n]] else [])
                                    [stall; bubble] in
          let t1 := mkSt3 (t_banks t) (fold_left (fun l x => add_set x l) dfl (t_defaulted t))
                          (upd (upd (t_types t) stall TRegisterBankSpecial) bubble TRegisterBankSpecial)
                          (t_seen t) (t_in_spans t) (t_errs t ++ e_special) in
          let '(t2, sigs, defaults) :=
              fold_left (step3_register_with s consts name inp outp) regs (t1, [], []) in
          mkSt3 (t_banks t2 ++ [mkBank name sigs defaults stall bubble]) (t_defaulted t2) (t_types t2)
                (t_seen t2) (t_in_spans t2) (t_errs t2)
    | _ => mkSt3 (t_banks t) (t_defaulted t) (t_types t) (t_seen t) (t_in_spans t)
                 (t_errs t ++ [mkErr InvalidRegisterBankName [name]])
    end.

  Definition assign_graph_with (assigns : list (string * expr)) (known : list string) : graph string :=
    fold_left (fun g ne =>
                 fold_left (fun g1 r => if mem_str r known then g1 else graph_insert g1 r (fst ne))
                           (o_refs_assign o (fst ne) (nodup_str (refs (snd ne))))
                           (graph_add_node g (fst ne)))
              (o_assigns o assigns) empty_graph.

  (* preprocess_fixed walks the component table (a Vec): Build.preprocess_one unchanged;
     the loop over the sorted names is Build.schedule unchanged *)
  Definition assignments_to_actions_with (widths : list (string * width)) (consts : list (string * wval))
             (assigns : list (string * expr)) (known : list string) (decls : list string)
    : result (list action) :=
    let g0 := assign_graph_with assigns known in
    let '(g, by_out, no_out, errs0) :=
        fold_left (preprocess_one f consts assigns) fixed (g0, [], [], []) in
    match errs0 with
    | _ :: _ => Err errs0
    | [] =>
        do r <- toposort string String.eqb (o_present_wires o g);
        match r with
        | inr cyc => err1 WireLoop cyc
        | inl order =>
            let '(acts, errs, undeclared) := schedule f widths consts assigns by_out decls order [] [] [] in
            let errs1 := errs ++ map (fun n => mkErr UnsetUndeclaredWire [n]) (o_undeclared o undeclared) in
            match errs1 with
            | _ :: _ => Err errs1
            | [] => Ok (acts ++ map ff_action no_out)
            end
        end
    end.

  Definition build_program_with (stmts : list stmt) : result program :=
    let s := fold_left (step1 fixed) stmts (init1 fixed) in
    let errs1 := s_errs s ++ const_assigned_errors_with s ++ const_ref_errors_with s in
    match errs1 with
    | _ :: _ => Err errs1
    | [] =>
        do consts <- resolve_constants_with (s_consts s);
        let t := fold_left (step3_bank_with s consts) (s_banks s) (mkSt3 [] [] (s_types s) [] [] []) in
        let widths1 := fold_left (fun m nw => upd m (fst nw) (snd nw)) (bank_wires (t_banks t)) (s_wires s) in
        let known_banks := all_out_names (t_banks t) in
        let needed := fold_left (fun l x => add_set x l) (all_in_names (t_banks t)) (s_needed s) in
        let errs4 := t_errs t ++ unset_errors s t (o_needed o needed) in
        let widths := fold_left (fun m nv => upd m (fst nv) (wd (snd nv))) consts widths1 in
        let known := known_banks ++ t_defaulted t ++ map fst consts in
        match errs4 with
        | _ :: _ => Err errs4
        | [] =>
            do acts <- assignments_to_actions_with widths consts (s_assigns s) known (s_decls s);
            Ok (mkProgram consts acts (t_banks t) (t_defaulted t) (t_types t))
        end
    end.
End BuildWith.

(* with insertion order everywhere it is the model of Build.v *)
Definition stmt_build_with_id : Prop :=
  forall f fixed is_lower is_upper stmts,
    build_program_with f fixed is_lower is_upper ord_id stmts = build_program f fixed is_lower is_upper stmts.

(* ---- when two outcomes count as the same --------------------------------------------------------- *)
(* two programs that differ only in the enumeration order of the constant table (a HashMap) and
   in the order of the scheduled actions *)
Definition same_program (p p' : program) : Prop :=
  Permutation (p_consts p) (p_consts p') /\ NoDup (map fst (p_consts p)) /\
  p_banks p = p_banks p' /\ p_defaulted p = p_defaulted p' /\ p_types p = p_types p' /\
  Permutation (p_actions p) (p_actions p').

Section OrderFree.
  Variable f : features.
  Variable fixed : list fixed_fn.
  Variable is_lower : string -> bool.
  Variable is_upper : string -> bool.

  (* the same diagnostics (kind and names) with the same multiplicities - or both runs report
     one dependency loop, each a real loop of the program *)
  Definition same_diagnostics (stmts : list stmt) (es es' : list err) : Prop :=
    Permutation es es' \/
    exists c c', es = [mkErr WireLoop c] /\ es' = [mkErr WireLoop c'] /\
                 ((const_cycle stmts c /\ const_cycle stmts c') \/
                  (wire_cycle fixed stmts c /\ wire_cycle fixed stmts c')).

  Definition same_outcome_build (stmts : list stmt) (r r' : result program) : Prop :=
    match r, r' with
    | Err es, Err es' => es <> [] /\ same_diagnostics stmts es es'
    | Ok p, Ok p' => same_program p p'
    | _, _ => False
    end.

  (* ---- the phases up to and including the constants ---------------------------------------------- *)
  (* the declaration pass: the same diagnostics in another order *)
  Definition stmt_decl_pass_order_free : Prop :=
    forall o stmts, ord_ok o ->
      let s := fold_left (step1 fixed) stmts (init1 fixed) in
      Permutation (s_errs s ++ const_assigned_errors_with o s ++ const_ref_errors_with o s)
                  (s_errs s ++ const_assigned_errors s ++ const_ref_errors s).

  (* the constants: any two runs either both report a loop among the constant definitions (each a
     real one), or both report the same diagnostics, or both produce the same table *)
  Definition stmt_resolve_constants_order_free : Prop :=
    forall o o' stmts, ord_ok o -> ord_ok o' ->
      let s := fold_left (step1 fixed) stmts (init1 fixed) in
      s_errs s ++ const_assigned_errors s ++ const_ref_errors s = [] ->
      match resolve_constants_with f o (s_consts s), resolve_constants_with f o' (s_consts s) with
      | Err es, Err es' =>
          es <> [] /\
          (Permutation es es' \/
           exists c c', es = [mkErr WireLoop c] /\ es' = [mkErr WireLoop c'] /\
                        const_cycle stmts c /\ const_cycle stmts c')
      | Ok consts, Ok consts' =>
          Permutation consts consts' /\ NoDup (map fst consts)
      | _, _ => False
      end.

  (* ---- the whole builder ---------------------------------------------------------------------------- *)
  (* C12: whatever the iteration orders of two runs, the outcomes are the same *)
  Definition stmt_diagnostics_order_free : Prop :=
    fixed_table_distinct fixed ->
    forall o o' stmts, ord_ok o -> ord_ok o' ->
      same_outcome_build stmts (build_program_with f fixed is_lower is_upper o stmts)
                               (build_program_with f fixed is_lower is_upper o' stmts).

  (* in particular against the model of Build.v itself *)
  Definition stmt_model_order_is_representative : Prop :=
    fixed_table_distinct fixed ->
    forall o stmts, ord_ok o ->
      same_outcome_build stmts (build_program f fixed is_lower is_upper stmts)
                               (build_program_with f fixed is_lower is_upper o stmts).

  (* an accepted program is scheduled validly under every iteration order *)
  Definition stmt_with_valid_schedule : Prop :=
    fixed_table_ok fixed = true -> BuildProofs.fixed_sched_ok fixed = true ->
    forall o stmts p, ord_ok o ->
      build_program_with f fixed is_lower is_upper o stmts = Ok p ->
      valid_schedule (known0 p) (p_actions p) = true.
End OrderFree.
