(* The composed tool (Tool.v): proofs of the statements of ToolSpec.v. *)
From Coq Require Import Permutation ZifyBool ZifyNat ZifyN.
From HclV Require Import Base Expr ExprSpec Machine MachineSpec MachineProofs MemSpec TableSpec TableProofs
                         SchedSpec SchedProofs Build BuildSpec BuildProofs Yo YoCodecSpec YoCodecProofs
                         HistorySpec HistoryProofs Lexer Parser Generated
                         Cli CliArgs CliArgsSpec CliArgsProofs Tool ToolSpec.
Open Scope string_scope.
Open Scope N_scope.

(* ====================================================================================== *)
(* Part 1: the simulator under different output options                                     *)
(* ====================================================================================== *)
Definition same_outcome (r r' : result (mstate * string)) : Prop :=
  match r, r' with
  | Ok (s1, _), Ok (s2, _) => s1 = s2
  | Err e1, Err e2 => e1 = e2
  | _, _ => False
  end.

(* ---- the prompt changes the text only ---------------------------------------------------- *)
Lemma run_prompting_empty fuel f o p : forall s, run_prompting "" fuel f o p s = run fuel f o p s.
Proof.
  induction fuel as [|fu IH]; intros s; cbn [run_prompting run].
  - reflexivity.
  - destruct (done o s); [reflexivity|].
    destruct (if o_show_regs_mem o then dump_y86 o p s else Ok "") as [d|es]; cbn [bind]; [|reflexivity].
    destruct (step f o p s) as [x|es]; cbn [bind]; [|reflexivity].
    rewrite IH. destruct (run fu f o p (fst x)) as [y|es]; cbn [bind]; reflexivity.
Qed.

Lemma run_prompting_same pr fuel f o p :
  forall s, same_outcome (run_prompting pr fuel f o p s) (run fuel f o p s).
Proof.
  induction fuel as [|fu IH]; intros s; cbn [run_prompting run].
  - destruct (done o s); cbn; reflexivity.
  - destruct (done o s); [cbn; reflexivity|].
    destruct (if o_show_regs_mem o then dump_y86 o p s else Ok "") as [d|es]; cbn [bind]; [|cbn; reflexivity].
    destruct (step f o p s) as [x|es]; cbn [bind]; [|cbn; reflexivity].
    specialize (IH (fst x)). unfold same_outcome in IH.
    destruct (run_prompting pr fu f o p (fst x)) as [[y1 t1]|e1], (run fu f o p (fst x)) as [[y2 t2]|e2];
      cbn [bind same_outcome fst snd]; try exact IH; contradiction.
Qed.

Lemma run_prompting_ok pr fuel f o p s final text :
  run_prompting pr fuel f o p s = Ok (final, text) -> exists text0, run fuel f o p s = Ok (final, text0).
Proof.
  intros H. pose proof (run_prompting_same pr fuel f o p s) as S. rewrite H in S. cbn in S.
  destruct (run fuel f o p s) as [[s2 t2]|e2]; [|contradiction]. subst s2. exists t2. reflexivity.
Qed.

(* ---- one cycle: same state or same error under any two option sets -------------------------- *)
Lemma step_option_free f o o' p s : same_outcome (step f o p s) (step f o' p s).
Proof.
  unfold step. pose proof (exec_options_ok f o o' (p_actions p) s) as E.
  destruct (exec_actions f o (p_actions p) s) as [[s1 t1]|e1],
           (exec_actions f o' (p_actions p) s) as [[s2 t2]|e2]; cbn [bind fst snd]; try contradiction.
  - subst s2.
    assert (T : forall oo, exists tbl, (if o_show_wire_values oo then dump_values oo p (values s1) else Ok "") = Ok tbl).
    { intros oo. destruct (o_show_wire_values oo); [apply table_total_holds | exists ""; reflexivity]. }
    destruct (T o) as [tb ->]. destruct (T o') as [tb' ->]. cbn [bind].
    destruct (process_banks (values s1) (p_banks p)) as [v2|e]; cbn; reflexivity.
  - subst e2. cbn. reflexivity.
Qed.

(* ---- the state dump cannot fail on a state that has the register-bank signals ----------------- *)
Lemma in_keys_lookup {V} (m : list (string * V)) k : In k (map fst m) -> exists v, lookup m k = Some v.
Proof. intros H. apply has_lookup. apply has_In. exact H. Qed.

Lemma dump_bank_signals_total vals : forall sigs loc,
  (forall i o w, In (i, o, w) sigs -> In o (map fst vals)) ->
  exists r, dump_bank_signals vals sigs loc = Ok r.
Proof.
  induction sigs as [|[[i o] w] sigs IH]; intros loc H; cbn [dump_bank_signals].
  - eexists. reflexivity.
  - destruct (in_keys_lookup vals o (H i o w (or_introl eq_refl))) as [v Hv].
    rewrite (get_value_some _ _ _ Hv). cbn [bind].
    match goal with |- context [dump_bank_signals vals sigs ?l] =>
      destruct (IH l (fun i' o' w' Hin => H i' o' w' (or_intror Hin))) as [r ->] end.
    cbn [bind]. eexists. reflexivity.
Qed.

Lemma dump_bank_total vals b :
  (forall k, In k (bank_signal_names [b]) -> In k (map fst vals)) ->
  exists t, dump_bank vals b = Ok t.
Proof.
  intros H. unfold bank_signal_names in H. cbn [flat_map] in H. rewrite app_nil_r in H.
  unfold dump_bank.
  assert (Hst : In (b_stall b) (map fst vals)).
  { apply H. apply in_or_app. right. right. left. reflexivity. }
  assert (Hbu : In (b_bubble b) (map fst vals)).
  { apply H. apply in_or_app. right. left. reflexivity. }
  destruct (in_keys_lookup _ _ Hst) as [st Est]. destruct (in_keys_lookup _ _ Hbu) as [bu Ebu].
  rewrite (get_value_some _ _ _ Est), (get_value_some _ _ _ Ebu). cbn [bind].
  destruct (dump_bank_signals_total vals (b_signals b) 18) as [r ->].
  - intros i o w Hin. apply H. apply in_or_app. left.
    apply in_flat_map. exists (i, o, w). split; [exact Hin|]. cbn [fst snd]. right. left. reflexivity.
  - cbn [bind]. eexists. reflexivity.
Qed.

Lemma bank_signal_names_in banks b k :
  In b banks -> In k (bank_signal_names [b]) -> In k (bank_signal_names banks).
Proof.
  intros Hb Hk. unfold bank_signal_names in *. cbn [flat_map] in Hk. rewrite app_nil_r in Hk.
  apply in_flat_map. exists b. split; assumption.
Qed.

Lemma dump_y86_total o p s : keys_inv p s -> exists t, dump_y86 o p s = Ok t.
Proof.
  intros [K _]. unfold dump_y86.
  assert (B : exists bt, (if o_show_banks o then dump_custom_registers (values s) (p_banks p) else Ok "") = Ok bt).
  { destruct (o_show_banks o); [|exists ""; reflexivity].
    destruct (dump_custom_registers (values s) (p_banks p)) as [bt|es] eqn:E; [exists bt; reflexivity|].
    exfalso.
    destruct (proj1 (bank_dump_fails_iff_holds (values s) (p_banks p)) (ex_intro _ es E)) as [b [es' [Hb He]]].
    destruct (dump_bank_total (values s) b) as [t Ht]; [|congruence].
    intros k Hk. apply K. right. apply (bank_signal_names_in _ b k Hb Hk). }
  destruct B as [bt ->]. cbn [bind]. eexists. reflexivity.
Qed.

(* ---- keys_inv along a run ---------------------------------------------------------------- *)
Lemma keys_inv_iter k f o p : forall s s', keys_inv p s -> iter_step k f o p s = Ok s' -> keys_inv p s'.
Proof.
  induction k as [|k IH]; intros s s' K H; cbn [iter_step] in H.
  - injection H as <-. exact K.
  - destruct (step f o p s) as [[s1 t1]|es] eqn:E; cbn [bind fst] in H; [|discriminate H].
    apply (IH s1 s'); [|exact H]. apply (keys_inv_step_holds f o p s s1 t1 K E).
Qed.

Lemma keys_inv_run fuel f o p s s' t : keys_inv p s -> run fuel f o p s = Ok (s', t) -> keys_inv p s'.
Proof.
  intros K H. destruct (run_stops_exactly_ok fuel f o p s s' t H) as [k [Hk _]].
  apply (keys_inv_iter k f o p s s' K Hk).
Qed.

(* ---- a whole run: same state or same error under any two option sets with the same timeout --- *)
Theorem run_result_option_free_holds : stmt_run_result_option_free.
Proof.
  intros fuel f o o' p. induction fuel as [|fu IH]; intros s K HT; cbn [run].
  - rewrite (done_timeout_eq o o' s HT). destruct (done o s); reflexivity.
  - rewrite (done_timeout_eq o o' s HT). destruct (done o s); [reflexivity|].
    assert (D : forall oo, exists d, (if o_show_regs_mem oo then dump_y86 oo p s else Ok "") = Ok d).
    { intros oo. destruct (o_show_regs_mem oo); [apply dump_y86_total; exact K | exists ""; reflexivity]. }
    destruct (D o) as [d ->]. destruct (D o') as [d' ->]. cbn [bind].
    pose proof (step_option_free f o o' p s) as S. unfold same_outcome in S.
    destruct (step f o p s) as [[s1 t1]|e1] eqn:E1, (step f o' p s) as [[s2 t2]|e2] eqn:E2;
      cbn [bind fst snd]; try contradiction.
    + subst s2. specialize (IH s1 (keys_inv_step_holds f o p s s1 t1 K E1) HT).
      destruct (run fu f o p s1) as [[y1 u1]|g1], (run fu f o' p s1) as [[y2 u2]|g2];
        cbn [bind fst snd]; try exact IH; contradiction.
    + exact S.
Qed.

Lemma run_option_free fuel f o o' p s :
  keys_inv p s -> o_timeout o = o_timeout o' -> same_outcome (run fuel f o p s) (run fuel f o' p s).
Proof. intros K HT. exact (run_result_option_free_holds fuel f o o' p s K HT). Qed.

(* the draft for arbitrary states: a bank whose output wire has no value, stalled *)
Definition cex_bank : bank := mkBank "X" [("x_v", "X_v", Bits 8)] [("X_v", mkV 0 (Bits 8))] "stall_X" "bubble_X".
Definition cex_prog : program := mkProgram [] [] [cex_bank] [] [].
Definition cex_state : mstate :=
  mkState [("stall_X", mkV 1 (Bits 1)); ("bubble_X", mkV 0 (Bits 1)); ("x_v", mkV 5 (Bits 8))] [] (repeat 0 16) None 0.

Theorem run_result_option_free_any_state_draft_refuted : ~ stmt_run_result_option_free_any_state_draft.
Proof.
  intros H.
  specialize (H 1%nat gen_features (set_timeout default_options 1) (set_timeout (set_quiet default_options) 1)
                cex_prog cex_state eq_refl).
  vm_compute in H. exact H.
Qed.

(* non-vacuity of run_result_option_free: a state with the bank signals, both runs succeed *)
Example ex_run_option_free :
  let s := mkState [("stall_X", mkV 1 (Bits 1)); ("bubble_X", mkV 0 (Bits 1)); ("x_v", mkV 5 (Bits 8));
                    ("X_v", mkV 7 (Bits 8))] [] (repeat 0 16) None 0 in
  keys_inv cex_prog s /\
  exists s1 t1 t2,
    run 2 gen_features (set_timeout default_options 2) cex_prog s = Ok (s1, t1) /\
    run 2 gen_features (set_timeout (set_quiet default_options) 2) cex_prog s = Ok (s1, t2) /\ t1 <> t2.
Proof.
  cbv zeta. split.
  - split; intros k Hk.
    + cbn in Hk. cbn. tauto.
    + cbn in Hk. cbn. tauto.
  - eexists _, _, _. split; [vm_compute; reflexivity|]. split; [vm_compute; reflexivity|]. discriminate.
Qed.

(* ====================================================================================== *)
(* Part 2: the pieces of the tool                                                           *)
(* ====================================================================================== *)
(* ---- Program::initial_state cannot fail on an accepted program -------------------------------- *)
Lemma init_signals_total defaults : forall sigs vals,
  (forall i o w, In (i, o, w) sigs -> In o (map fst defaults)) ->
  exists v, init_signals vals defaults sigs = Ok v.
Proof.
  induction sigs as [|[[i o] w] sigs IH]; intros vals H; cbn [init_signals].
  - eexists. reflexivity.
  - destruct (in_keys_lookup defaults o (H i o w (or_introl eq_refl))) as [d ->].
    apply IH. intros i' o' w' Hin. apply (H i' o' w'). right. exact Hin.
Qed.

Lemma init_banks_total : forall banks vals,
  (forall b, In b banks -> forall x, In x (bank_outs b) -> In x (map fst (b_defaults b))) ->
  exists v, init_banks vals banks = Ok v.
Proof.
  induction banks as [|b r IH]; intros vals H; cbn [init_banks].
  - eexists. reflexivity.
  - destruct (init_signals_total (b_defaults b) (b_signals b) vals) as [v1 ->].
    + intros i o w Hin. apply (H b (or_introl eq_refl)). unfold bank_outs.
      apply in_map_iff. exists (i, o, w). split; [reflexivity | exact Hin].
    + cbn [bind]. apply IH. intros b' Hb'. apply H. right. exact Hb'.
Qed.

Lemma initial_state_total p : banks_wf (p_banks p) -> exists s, initial_state p = Ok s.
Proof.
  intros [_ [_ W]]. unfold initial_state.
  destruct (init_banks_total (p_banks p) (p_consts p)) as [v ->].
  - intros b Hb x Hx. destruct (W b Hb) as [_ [_ [_ [_ [_ Hiff]]]]]. apply Hiff. exact Hx.
  - cbn [bind]. eexists. reflexivity.
Qed.

Lemma initial_state_shape p s : initial_state p = Ok s -> mem s = [] /\ cycle s = 0.
Proof.
  unfold initial_state. destruct (init_banks (p_consts p) (p_banks p)) as [v|es]; cbn [bind]; [|discriminate].
  intros H. injection H as <-. split; reflexivity.
Qed.

Lemma accepted_initial text p :
  parse_y86_hcl text = FrontAccepted p ->
  exists s0, initial_state p = Ok s0 /\ keys_inv p s0 /\ mem s0 = [] /\ cycle s0 = 0.
Proof.
  unfold parse_y86_hcl. destruct gen_tiers as [tiers|]; [|discriminate].
  destruct (parse_text test_uclass tiers text) as [stmts|]; [|discriminate].
  destruct (build_program gen_features gen_fixed ascii_lower ascii_upper stmts) as [q|es] eqn:B; [|discriminate].
  intros H. injection H as <-.
  destruct (initial_state_total q (accept_banks_wf_ok _ _ _ _ stmts q B)) as [s0 Hs0].
  exists s0. split; [exact Hs0|]. split; [exact (keys_inv_initial_holds q s0 Hs0)|].
  exact (initial_state_shape q s0 Hs0).
Qed.

Lemma keys_inv_with_mem p s m : keys_inv p s -> keys_inv p (with_mem s m).
Proof. intros K. exact K. Qed.

(* ---- run_y86 -------------------------------------------------------------------------------- *)
(* in terms of Machine.run under the default options *)
Definition sim_result (o : options) (p : program) (start : mstate) : result (mstate * string) :=
  run (N.to_nat (o_timeout o)) gen_features (set_timeout default_options (o_timeout o)) p start.

Lemma timeout_set_timeout o t : o_timeout (set_timeout o t) = t.
Proof. reflexivity. Qed.

Lemma run_y86_spec files pr p s0 yo o :
  keys_inv p s0 ->
  match files yo with
  | None => run_y86 files pr p s0 yo o = OMessage "open"
  | Some image =>
      match load_from_y86 (mem s0) image with
      | Err _ => run_y86 files pr p s0 yo o = OMessage "load"
      | Ok m =>
          let start := with_mem s0 m in
          match sim_result o p start with
          | Err _ => run_y86 files pr p s0 yo o = OMessage "simulation"
          | Ok (final, _) =>
              exists text dump,
                run_prompting pr (N.to_nat (o_timeout o)) gen_features o p start = Ok (final, text) /\
                dump_y86 o p final = Ok dump /\
                run_y86 files pr p s0 yo o = OFinal (o_timeout o) o p start final text dump
          end
      end
  end.
Proof.
  intros K. unfold run_y86. destruct (files yo) as [image|]; [|reflexivity].
  destruct (load_from_y86 (mem s0) image) as [m|es]; [|reflexivity].
  cbv zeta. unfold sim_result.
  set (start := with_mem s0 m). set (fuel := N.to_nat (o_timeout o)).
  assert (Ks : keys_inv p start) by exact K.
  pose proof (run_prompting_same pr fuel gen_features o p start) as S1.
  pose proof (run_option_free fuel gen_features o (set_timeout default_options (o_timeout o)) p start Ks eq_refl) as S2.
  unfold same_outcome in S1, S2.
  destruct (run_prompting pr fuel gen_features o p start) as [[f1 t1]|e1] eqn:E1;
  destruct (run fuel gen_features o p start) as [[f2 t2]|e2] eqn:E2; try contradiction;
  destruct (run fuel gen_features (set_timeout default_options (o_timeout o)) p start) as [[f3 t3]|e3] eqn:E3;
    try contradiction.
  - subst f2 f3. destruct (dump_y86_total o p f1 (keys_inv_run _ _ _ _ _ _ _ Ks E2)) as [d Hd].
    exists t1, d. rewrite Hd. repeat split; reflexivity.
  - reflexivity.
Qed.

(* ====================================================================================== *)
(* Part 3: main_real up to the call of run_y86                                              *)
(* ====================================================================================== *)
Inductive plan :=
| PStop (r : outcome)
| PRun (p : program) (s0 : mstate) (yo : string) (t : N).

Definition timeout_arg (rest2 : list string) : option N :=
  match rest2 with [] => Some default_timeout | t :: _ => parse_u32 t end.

Definition plan_of (files : file_system) (help version check : bool) (free : list string) : plan :=
  if help then PStop (OUsage 0)
  else if version then PStop OVersion
  else match free with
  | [] => PStop (OUsage 1)
  | hcl :: rest =>
      match read_y86_hcl files hcl with
      | None => PStop (OMessage "Error reading")
      | Some text =>
          if 3 <? N.of_nat (List.length free) then PStop (OUsage 1)
          else match parse_y86_hcl text with
          | FrontAccepted p =>
              match initial_state p with
              | Err _ => PStop (OPanic "initial_state")
              | Ok s0 =>
                  if check then PStop OSyntaxOK
                  else match rest with
                  | [] => PStop (OUsage 1)
                  | yo :: rest2 =>
                      if negb (ends_with ".yo" yo) then PStop (OMessage "extension")
                      else match timeout_arg rest2 with
                      | None => PStop (OMessage "timeout")
                      | Some t => PRun p s0 yo t
                      end
                  end
              end
          | _ => PStop (OMessage "diagnostics")
          end
      end
  end.

Definition finish_plan (files : file_system) (fs : list flag) (pl : plan) : outcome :=
  match pl with
  | PStop r => r
  | PRun p s0 yo t => run_y86 files (prompt_of fs) p s0 yo (set_timeout (run_options_of fs) t)
  end.

Lemma tool_outcome_plan files args fs free :
  parse_argv args = Some (fs, free) ->
  tool_outcome files args =
  finish_plan files fs (plan_of files (has_flag FHelp fs) (has_flag FVersion fs) (has_flag FCheck fs) free).
Proof.
  intros EP. unfold tool_outcome, plan_of. rewrite EP.
  destruct (has_flag FHelp fs); [reflexivity|].
  destruct (has_flag FVersion fs); [reflexivity|].
  destruct free as [|hcl rest]; [reflexivity|].
  destruct (read_y86_hcl files hcl) as [text|]; [|reflexivity].
  destruct (3 <? N.of_nat (List.length (hcl :: rest))); [reflexivity|].
  destruct (parse_y86_hcl text) as [|es|p]; [reflexivity|reflexivity|].
  destruct (initial_state p) as [s0|es]; [|reflexivity].
  destruct (has_flag FCheck fs); [reflexivity|].
  destruct rest as [|yo rest2]; [reflexivity|].
  destruct (negb (ends_with ".yo" yo)); [reflexivity|].
  unfold timeout_arg. destruct (match rest2 with [] => Some default_timeout | t :: _ => parse_u32 t end); reflexivity.
Qed.

Lemma tool_outcome_none files args : parse_argv args = None -> tool_outcome files args = OMessage "getopts".
Proof. intros EP. unfold tool_outcome. rewrite EP. reflexivity. Qed.

(* what a PRun plan says *)
Lemma plan_run_inv files h v c free p s0 yo t :
  plan_of files h v c free = PRun p s0 yo t ->
  h = false /\ v = false /\ c = false /\
  exists hcl rest2 text,
    free = hcl :: yo :: rest2 /\ (List.length free <= 3)%nat /\ ends_with ".yo" yo = true /\
    timeout_arg rest2 = Some t /\
    read_y86_hcl files hcl = Some text /\ parse_y86_hcl text = FrontAccepted p /\
    initial_state p = Ok s0 /\ keys_inv p s0 /\ mem s0 = [] /\ cycle s0 = 0.
Proof.
  unfold plan_of. destruct h; [discriminate|]. destruct v; [discriminate|].
  destruct free as [|hcl rest]; [discriminate|].
  destruct (read_y86_hcl files hcl) as [text|] eqn:ER; [|discriminate].
  destruct (3 <? N.of_nat (List.length (hcl :: rest))) eqn:E3; [discriminate|].
  destruct (parse_y86_hcl text) as [|es|q] eqn:EF; [discriminate|discriminate|].
  destruct (accepted_initial text q EF) as [s1 [Hs1 [K [Hmem Hcyc]]]]. rewrite Hs1.
  destruct c; [discriminate|].
  destruct rest as [|yo' rest2]; [discriminate|].
  destruct (ends_with ".yo" yo') eqn:EY; cbn [negb]; [|discriminate].
  destruct (timeout_arg rest2) as [t'|] eqn:ET; [|discriminate].
  intros H. injection H as <- <- <- <-.
  split; [reflexivity|]. split; [reflexivity|]. split; [reflexivity|].
  exists hcl, rest2, text.
  split; [reflexivity|]. split; [apply too_many_false; exact E3|].
  split; [exact EY|]. split; [exact ET|]. split; [exact ER|]. split; [exact EF|].
  split; [exact Hs1|]. split; [exact K|]. split; [exact Hmem | exact Hcyc].
Qed.

(* a plan never stops in a panic *)
Lemma plan_no_panic files h v c free w : plan_of files h v c free <> PStop (OPanic w).
Proof.
  unfold plan_of. destruct h; [discriminate|]. destruct v; [discriminate|].
  destruct free as [|hcl rest]; [discriminate|].
  destruct (read_y86_hcl files hcl) as [text|] eqn:ER; [|discriminate].
  destruct (3 <? N.of_nat (List.length (hcl :: rest))) eqn:E3; [discriminate|].
  destruct (parse_y86_hcl text) as [|es|q] eqn:EF; [discriminate|discriminate|].
  destruct (accepted_initial text q EF) as [s1 [Hs1 _]]. rewrite Hs1.
  destruct c; [discriminate|].
  destruct rest as [|yo' rest2]; [discriminate|].
  destruct (negb (ends_with ".yo" yo')); [discriminate|].
  destruct (timeout_arg rest2); discriminate.
Qed.

(* ====================================================================================== *)
(* Part 4: (a) the tool refines the decision model                                          *)
(* ====================================================================================== *)
Lemma refines_pair files args :
  (status_of (tool_outcome files args), what_of (tool_outcome files args)) = main_in_world (world_of files) args.
Proof.
  unfold main_in_world, main_argv, invocation_of, tool_outcome.
  destruct (parse_argv args) as [[fs free]|] eqn:EP; [|reflexivity].
  unfold main_model. cbn [i_opts_ok i_help i_version i_check i_free i_hcl i_yo i_sim negb].
  destruct (has_flag FHelp fs); [reflexivity|].
  destruct (has_flag FVersion fs); [reflexivity|].
  destruct free as [|hcl rest]; [reflexivity|].
  cbn [nth w_hcl w_yo w_sim world_of].
  unfold hcl_kind_of.
  destruct (read_y86_hcl files hcl) as [text|] eqn:ER; [|reflexivity].
  destruct (3 <? N.of_nat (List.length (hcl :: rest))) eqn:E3.
  { destruct (parse_y86_hcl text); reflexivity. }
  destruct (parse_y86_hcl text) as [|es|p] eqn:EF; [reflexivity|reflexivity|].
  destruct (accepted_initial text p EF) as [s0 [Hs0 [K [Hmem Hcyc]]]]. rewrite Hs0.
  destruct (has_flag FCheck fs); [reflexivity|].
  destruct rest as [|yo rest2]; [reflexivity|].
  destruct (negb (ends_with ".yo" yo)); [reflexivity|].
  assert (HB : forall t, (match rest2 with [] => Some default_timeout | t0 :: _ => parse_u32 t0 end) = Some t ->
                         budget_of (hcl :: yo :: rest2) = t).
  { intros t. destruct rest2 as [|ts r]; cbn [budget_of]; [intros H; injection H as <-; reflexivity | intros ->; reflexivity]. }
  destruct (match rest2 with [] => Some default_timeout | t0 :: _ => parse_u32 t0 end) as [t|] eqn:ET; [|reflexivity].
  rewrite (HB t eq_refl). cbn [nth].
  pose proof (run_y86_spec files (prompt_of fs) p s0 yo (set_timeout (run_options_of fs) t) K) as R.
  unfold yo_kind_of, sim_kind_of, start_of. rewrite ER, EF, Hs0.
  destruct (files yo) as [image|]; [|rewrite R; reflexivity].
  rewrite Hmem in *. destruct (load_from_y86 [] image) as [m|es]; [|rewrite R; reflexivity].
  cbv zeta in R. unfold sim_result in R. rewrite timeout_set_timeout in R.
  destruct (run (N.to_nat t) gen_features (set_timeout default_options t) p (with_mem s0 m)) as [[final t0]|es].
  - destruct R as [txt [dump [_ [_ ->]]]]. reflexivity.
  - rewrite R. reflexivity.
Qed.

Lemma in_world_argv files args :
  main_in_world (world_of files) args = main_argv args (hcl_of files args) (yo_of files args) (sim_of files args).
Proof. reflexivity. Qed.

Lemma refines_argv files args :
  (status_of (tool_outcome files args), what_of (tool_outcome files args))
  = main_argv args (hcl_of files args) (yo_of files args) (sim_of files args).
Proof. rewrite <- in_world_argv. apply refines_pair. Qed.

Lemma tool_status_01 files args :
  status_of (tool_outcome files args) = 0 \/ status_of (tool_outcome files args) = 1.
Proof.
  pose proof (refines_argv files args) as R.
  destruct (exit_zero_iff_holds args (hcl_of files args) (yo_of files args) (sim_of files args))
    as [_ [_ [_ [_ [_ H01]]]]].
  rewrite <- R in H01. cbn [fst] in H01.
  destruct (N.eq_dec (status_of (tool_outcome files args)) 0) as [E|E]; [left; exact E | right; exact (H01 E)].
Qed.

Theorem tool_never_panics_holds : stmt_tool_never_panics.
Proof.
  intros files args w H. destruct (tool_status_01 files args) as [E|E]; rewrite H in E; discriminate E.
Qed.

Theorem tool_refines_decision_holds : stmt_tool_refines_decision.
Proof.
  intros prog files args. cbv zeta.
  pose proof (refines_pair files args) as R.
  split; [exact R|]. split; [rewrite <- R; reflexivity|].
  rewrite <- R. cbn [snd]. unfold tool_main_as. cbn [snd].
  destruct (tool_outcome files args); cbn [what_of stdout_of final_state_of]; try reflexivity.
  eexists. reflexivity.
Qed.

Lemma tool_status files prog args :
  fst (tool_main_as prog files args)
  = fst (main_argv args (hcl_of files args) (yo_of files args) (sim_of files args)).
Proof. rewrite <- refines_argv. reflexivity. Qed.

Theorem tool_exit_zero_iff_holds : stmt_tool_exit_zero_iff.
Proof.
  intros prog files args. cbv zeta. rewrite tool_status.
  destruct (exit_zero_iff_holds args (hcl_of files args) (yo_of files args) (sim_of files args))
    as [_ [_ [_ [_ [H0 H01]]]]].
  split; [exact H0 | exact H01].
Qed.

Theorem tool_each_failure_cause_exits_one_holds : stmt_tool_each_failure_cause_exits_one.
Proof.
  intros prog files args. cbv zeta. rewrite tool_status.
  destruct (each_failure_cause_exits_one_holds args (hcl_of files args) (yo_of files args) (sim_of files args))
    as [Hwf Hrest].
  split.
  - intros H. rewrite (Hwf H). reflexivity.
  - intros free Hp Hh Hv. destruct (Hrest free Hp Hh Hv) as [A [B [C [D E]]]].
    split; [intros H; rewrite (A H); reflexivity|].
    split; [exact B|].
    split; [intros H1 H2; rewrite (C H1 H2); reflexivity|].
    split; [exact D|]. exact E.
Qed.

(* the whole outcome depends on the flags only through their set *)
Lemma tool_outcome_flags_ext files args args' fs fs' free :
  parse_argv args = Some (fs, free) -> parse_argv args' = Some (fs', free) ->
  (forall f, In f fs <-> In f fs') ->
  tool_outcome files args = tool_outcome files args'.
Proof.
  intros E E' H.
  assert (HF : forall f, has_flag f fs = has_flag f fs') by (intros f; apply has_flag_ext; apply H).
  unfold tool_outcome, prompt_of, run_options_of. rewrite E, E', !HF. reflexivity.
Qed.

Theorem tool_option_order_free_holds : stmt_tool_option_order_free.
Proof.
  intros prog files pre pre' tail Hno Hperm Hpos.
  assert (HO : tool_outcome files (pre ++ tail) = tool_outcome files (pre' ++ tail)).
  { destruct (scan_perm pre pre' tail Hno Hperm Hpos) as [[E E']|[fs [fs' [free [E [E' Hp]]]]]].
    - rewrite !tool_outcome_none; [reflexivity | unfold parse_argv; rewrite E'; reflexivity
                                   | unfold parse_argv; rewrite E; reflexivity].
    - destruct (no_repeat fs) eqn:NR.
      + apply (tool_outcome_flags_ext files _ _ fs fs' free).
        * unfold parse_argv. rewrite E, NR. reflexivity.
        * unfold parse_argv. rewrite E', <- (no_repeat_perm _ _ Hp), NR. reflexivity.
        * intros f. split; intros Hin; [apply (Permutation_in _ Hp Hin) | apply (Permutation_in _ (Permutation_sym Hp) Hin)].
      + rewrite !tool_outcome_none; [reflexivity | |].
        * unfold parse_argv. rewrite E', <- (no_repeat_perm _ _ Hp), NR. reflexivity.
        * unfold parse_argv. rewrite E, NR. reflexivity. }
  unfold tool_main_as. rewrite HO. reflexivity.
Qed.

(* ====================================================================================== *)
(* Part 5: (b) the final state                                                              *)
(* ====================================================================================== *)
Lemma done_false_iff o s : done o s = false <-> status_ok s /\ cycle s < o_timeout o.
Proof.
  unfold done, timed_out, status_ok, stat_of, status_or_default.
  destruct (lookup (values s) "Stat") as [v|]; lia.
Qed.

Lemma done_true_cases o s : done o s = true -> ~ status_ok s \/ o_timeout o <= cycle s.
Proof.
  unfold done, timed_out, status_ok, stat_of, status_or_default.
  destruct (lookup (values s) "Stat") as [v|]; lia.
Qed.

Lemma iter_step_cycle f o p : forall j s sj, iter_step j f o p s = Ok sj -> cycle sj = cycle s + N.of_nat j.
Proof.
  induction j as [|j IH]; intros s sj H; cbn [iter_step] in H.
  - injection H as <-. lia.
  - destruct (step f o p s) as [[s1 t1]|es] eqn:E; cbn [bind fst] in H; [|discriminate H].
    rewrite (IH s1 sj H), (step_cycle_ok f o p s s1 t1 E). lia.
Qed.

(* ---- options ------------------------------------------------------------------------------- *)
Definition silent (o : options) : Prop :=
  o_trace_assignments o = false /\ o_trace_fixed o = false /\ o_show_wire_values o = false /\
  o_show_regs_mem o = false /\ o_show_disassembly o = false.

Lemma exec_action_silent f o a s s' t : silent o -> exec_action f o a s = Ok (s', t) -> t = "".
Proof.
  intros [H1 [H2 [H3 [H4 H5]]]]. destruct a; cbn [exec_action]; rewrite ?H1, ?H2, ?H5, ?andb_false_r.
  all: repeat match goal with
         | |- context [bind ?r _] => destruct r; cbn [bind]
         | |- context [if ?b then _ else _] => destruct b
         end;
       intros H; try discriminate H; injection H as _ <-; reflexivity.
Qed.

Lemma exec_actions_silent f o : silent o -> forall acts s s' t, exec_actions f o acts s = Ok (s', t) -> t = "".
Proof.
  intros S. induction acts as [|a r IH]; intros s s' t H; cbn [exec_actions] in H.
  - injection H as _ <-. reflexivity.
  - destruct (exec_action f o a s) as [[s1 t1]|es] eqn:E1; cbn [bind fst snd] in H; [|discriminate H].
    destruct (exec_actions f o r s1) as [[s2 t2]|es] eqn:E2; cbn [bind fst snd] in H; [|discriminate H].
    injection H as _ <-. rewrite (exec_action_silent f o a s s1 t1 S E1), (IH s1 s2 t2 E2). reflexivity.
Qed.

Lemma step_silent f o p s s' t : silent o -> step f o p s = Ok (s', t) -> t = "".
Proof.
  intros S H. pose proof S as [_ [_ [H3 _]]]. unfold step in H. rewrite H3 in H.
  destruct (exec_actions f o (p_actions p) s) as [[s1 t1]|es] eqn:E1; cbn [bind fst snd] in H; [|discriminate H].
  destruct (process_banks (values s1) (p_banks p)) as [v2|es]; cbn [bind] in H; [|discriminate H].
  injection H as _ <-. rewrite (exec_actions_silent f o S _ _ _ _ E1). reflexivity.
Qed.

Lemma run_silent f o p : silent o -> forall fuel s s' t, run fuel f o p s = Ok (s', t) -> t = "".
Proof.
  intros S. pose proof S as [_ [_ [_ [H4 _]]]].
  induction fuel as [|fu IH]; intros s s' t H; cbn [run] in H.
  - destruct (done o s); [injection H as _ <-; reflexivity | discriminate H].
  - destruct (done o s); [injection H as _ <-; reflexivity|].
    rewrite H4 in H. cbn [bind] in H.
    destruct (step f o p s) as [[s1 t1]|es] eqn:E1; cbn [bind fst snd] in H; [|discriminate H].
    destruct (run fu f o p s1) as [[s2 t2]|es] eqn:E2; cbn [bind fst snd] in H; [|discriminate H].
    injection H as _ <-. rewrite (step_silent f o p s s1 t1 S E1), (IH s1 s2 t2 E2). reflexivity.
Qed.

Lemma show_banks_options fs t :
  o_show_banks (set_timeout (run_options_of fs) t) = negb (has_flag FTesting fs).
Proof.
  unfold run_options_of.
  destruct (has_flag FQuiet fs), (has_flag FDebug fs), (has_flag FTesting fs), (has_flag FUngroup fs),
           (has_flag FTrace fs); reflexivity.
Qed.

Lemma quiet_options_silent fs t :
  has_flag FQuiet fs = true -> has_flag FDebug fs = false -> has_flag FTrace fs = false ->
  silent (set_timeout (run_options_of fs) t).
Proof.
  intros Hq Hd Ht. unfold run_options_of, silent. rewrite Hq, Hd, Ht.
  destruct (has_flag FTesting fs), (has_flag FUngroup fs); repeat split; reflexivity.
Qed.

(* an OFinal outcome, read backwards *)
Lemma tool_outcome_final_inv files args t o p start final text dump :
  tool_outcome files args = OFinal t o p start final text dump ->
  exists fs f y rest,
    parse_argv args = Some (fs, f :: y :: rest) /\
    timeout_arg rest = Some t /\ (List.length rest <= 1)%nat /\
    start_of files f y = Some (p, start) /\ cycle start = 0 /\ keys_inv p start /\
    o = set_timeout (run_options_of fs) t /\
    run_prompting (prompt_of fs) (N.to_nat t) gen_features o p start = Ok (final, text) /\
    dump_y86 o p final = Ok dump.
Proof.
  intros H. destruct (parse_argv args) as [[fs free]|] eqn:EP.
  2:{ rewrite (tool_outcome_none files args EP) in H. discriminate H. }
  rewrite (tool_outcome_plan files args fs free EP) in H.
  destruct (plan_of files (has_flag FHelp fs) (has_flag FVersion fs) (has_flag FCheck fs) free)
    as [r|q s0 yo t'] eqn:EPl; cbn [finish_plan] in H.
  { subst r. exfalso. revert EPl. unfold plan_of.
    repeat match goal with
           | |- context [if ?b then _ else _] => destruct b
           | |- context [match ?x with _ => _ end] => destruct x
           end; discriminate. }
  destruct (plan_run_inv _ _ _ _ _ _ _ _ _ EPl) as [_ [_ [_ [hcl [rest2 [txt [Hfree [Hlen [_ [Ht [ER [EF [Hs0 [K [Hmem Hcyc]]]]]]]]]]]]]]].
  unfold run_y86 in H.
  destruct (files yo) as [image|] eqn:EY; [|discriminate H].
  destruct (load_from_y86 (mem s0) image) as [m|es] eqn:EL; [|discriminate H].
  cbv zeta in H. rewrite timeout_set_timeout in H.
  destruct (run_prompting (prompt_of fs) (N.to_nat t') gen_features (set_timeout (run_options_of fs) t') q (with_mem s0 m))
    as [[fin txt1]|es] eqn:ER1; [|discriminate H].
  destruct (dump_y86 (set_timeout (run_options_of fs) t') q fin) as [d|es] eqn:ED; [|discriminate H].
  injection H as <- <- <- <- <- <- <-.
  exists fs, hcl, yo, rest2. subst free.
  split; [reflexivity|]. split; [exact Ht|].
  split; [cbn [List.length] in Hlen; lia|].
  split. { unfold start_of. rewrite ER, EF, Hs0, EY, EL. reflexivity. }
  split; [exact Hcyc|]. split; [exact K|]. split; [reflexivity|]. split; [exact ER1 | exact ED].
Qed.

Lemma timeout_arg_spec rest t :
  timeout_arg rest = Some t -> (List.length rest <= 1)%nat ->
  (rest = [] /\ t = 9999) \/ (exists ts, rest = [ts] /\ denotes_u32 ts t).
Proof.
  intros H L. destruct rest as [|ts [|x r]]; cbn [timeout_arg List.length] in *.
  - left. injection H as <-. split; reflexivity.
  - right. exists ts. split; [reflexivity|]. apply parse_u32_iff. exact H.
  - lia.
Qed.

(* status 0 without help, version, --check: the outcome is a final state *)
Lemma status0_final files args :
  status_of (tool_outcome files args) = 0 ->
  ~ given args FHelp -> ~ given args FVersion -> ~ given args FCheck ->
  exists t o p start final text dump, tool_outcome files args = OFinal t o p start final text dump.
Proof.
  intros H0 Hh Hv Hc. pose proof (refines_argv files args) as R.
  destruct (exit_zero_iff_holds args (hcl_of files args) (yo_of files args) (sim_of files args))
    as [H1 [H2 [H3 _]]].
  destruct (tool_outcome files args) as [st| | |why|t o p start final text dump|w] eqn:E;
    cbn [status_of what_of] in *.
  - subst st. exfalso. apply Hh. apply H1. symmetry. exact R.
  - exfalso. apply Hv. apply (proj1 H2 (eq_sym R)).
  - exfalso. apply Hc. apply (proj1 H3 (eq_sym R)).
  - discriminate H0.
  - eexists _, _, _, _, _, _, _. reflexivity.
  - discriminate H0.
Qed.

Theorem tool_final_state_holds : stmt_tool_final_state.
Proof.
  intros prog files args H0 Hh Hv Hc.
  destruct (status0_final files args H0 Hh Hv Hc) as [t [o [p [start [final [text [dump E]]]]]]].
  destruct (tool_outcome_final_inv _ _ _ _ _ _ _ _ _ E)
    as [fs [f [y [rest [EP [Ht [Hl [Hst [Hc0 [K [Ho [Hrun Hdump]]]]]]]]]]]].
  destruct (run_prompting_ok _ _ _ _ _ _ _ _ Hrun) as [text0 Hrun0].
  destruct (run_stops_exactly_ok _ _ _ _ _ _ _ Hrun0) as [k [Hk [Hdone [Hcyc Hbefore]]]].
  assert (HT : o_timeout o = t) by (subst o; reflexivity).
  assert (Hck : cycle final = N.of_nat k) by lia.
  assert (Hle : N.of_nat k <= t).
  { rewrite <- Hck, <- HT. apply (proj1 run_within_timeout_ok _ _ _ _ _ _ _ Hrun0). lia. }
  exists fs, f, y, rest, t, p, start, final, k, text, dump. subst o. cbv zeta.
  set (o := set_timeout (run_options_of fs) t) in *.
  split; [exact EP|]. split; [apply timeout_arg_spec; assumption|].
  split; [exact Hst|]. split; [exact Hc0|]. split; [reflexivity|]. split; [exact E|].
  split; [exact Hk|]. split; [exact Hck|]. split; [exact Hle|].
  split.
  { intros j Hj. destruct (Hbefore j Hj) as [sj [Hsj Hd]]. exists sj. split; [exact Hsj|].
    split; [rewrite (iter_step_cycle _ _ _ _ _ _ Hsj); lia|]. apply (done_false_iff o sj). exact Hd. }
  split.
  { destruct (done_true_cases o final Hdone) as [Hn|Hto]; [right; exact Hn | left]. rewrite HT in Hto. lia. }
  split; [exact Hrun|].
  split.
  { intros Hni. apply has_flag_false in Hni. unfold prompt_of in Hrun. rewrite Hni in Hrun.
    rewrite run_prompting_empty in Hrun. exact Hrun. }
  split; [exact Hdump|].
  split; [unfold tool_main_as; rewrite E; reflexivity|].
  split.
  { pose proof (report_spec_ok o final) as Hrep. rewrite HT, Hck in Hrep. rewrite <- Hrep.
    split.
    - pose proof (done_spec_ok o final) as Hd. rewrite Hdone in Hd. intros Hr. rewrite Hr in Hd. discriminate Hd.
    - destruct (dump_report_ok o p final dump Hdump) as [banks [Hd Hb]].
      exists banks. split.
      + rewrite Hd. unfold timed_out. rewrite HT, Hck. reflexivity.
      + intros Hin. apply Hb. unfold o. rewrite show_banks_options.
        apply has_flag_In in Hin. rewrite Hin. reflexivity. }
  intros Hq Hd Hi Htr.
  assert (Htxt : text = "").
  { apply has_flag_false in Hi. unfold prompt_of in Hrun. rewrite Hi in Hrun.
    rewrite run_prompting_empty in Hrun.
    apply (run_silent gen_features o p) with (fuel := N.to_nat t) (s := start) (s' := final); [|exact Hrun].
    apply quiet_options_silent; [apply has_flag_In; exact Hq | apply has_flag_false; exact Hd
                                 | apply has_flag_false; exact Htr]. }
  split; [exact Htxt|]. unfold tool_main_as. rewrite E. cbn [snd stdout_of]. rewrite Htxt. reflexivity.
Qed.

(* ====================================================================================== *)
(* Part 6: (c) --check, (d) the files read, (e) the output options                          *)
(* ====================================================================================== *)
(* the plan reads the first positional only *)
Lemma plan_of_files_ext files files' h v c free :
  (forall hcl, nth_error free 0 = Some hcl -> files hcl = files' hcl) ->
  plan_of files h v c free = plan_of files' h v c free.
Proof.
  intros H. unfold plan_of, read_y86_hcl. destruct free as [|hcl rest]; [reflexivity|].
  rewrite (H hcl eq_refl). reflexivity.
Qed.

Lemma run_y86_files_ext files files' pr p s0 yo o :
  files yo = files' yo -> run_y86 files pr p s0 yo o = run_y86 files' pr p s0 yo o.
Proof. intros H. unfold run_y86. rewrite H. reflexivity. Qed.

Lemma free_of_some args fs free : parse_argv args = Some (fs, free) -> free_of args = free.
Proof. intros E. unfold free_of. rewrite E. reflexivity. Qed.

Theorem tool_deterministic_in_files_holds : stmt_tool_deterministic_in_files.
Proof.
  intros prog files files' args H.
  assert (HO : tool_outcome files args = tool_outcome files' args).
  { destruct (parse_argv args) as [[fs free]|] eqn:EP.
    2:{ rewrite !tool_outcome_none by exact EP. reflexivity. }
    rewrite (free_of_some _ _ _ EP) in H.
    rewrite !(tool_outcome_plan _ args fs free EP).
    rewrite <- (plan_of_files_ext files files') by (intros hcl Hh; apply H; left; exact Hh).
    destruct (plan_of files (has_flag FHelp fs) (has_flag FVersion fs) (has_flag FCheck fs) free)
      as [r|p s0 yo t] eqn:EPl; cbn [finish_plan]; [reflexivity|].
    destruct (plan_run_inv _ _ _ _ _ _ _ _ _ EPl) as [_ [_ [_ [hcl [rest2 [txt [Hfree _]]]]]]].
    apply run_y86_files_ext. apply H. right. rewrite Hfree. reflexivity. }
  split; [exact HO|]. unfold tool_main_as. rewrite HO. reflexivity.
Qed.

(* ---- (c) ---------------------------------------------------------------------------------------- *)
Lemma given_has_flag args fs free f : parse_argv args = Some (fs, free) -> given args f -> has_flag f fs = true.
Proof. intros EP G. apply (given_iff args fs free f EP). exact G. Qed.

Theorem tool_check_prints_only_syntax_ok_holds : stmt_tool_check_prints_only_syntax_ok.
Proof.
  intros prog files args G. cbv zeta.
  pose proof (refines_argv files args) as R.
  set (hcl := hcl_of files args) in *. set (yo := yo_of files args) in *. set (sim := sim_of files args) in *.
  assert (NF : final_state_of (tool_outcome files args) = None).
  { destruct (tool_outcome files args) as [st| | |why|t o p start final text dump|w] eqn:E; try reflexivity.
    exfalso. apply (check_simulates_nothing_holds args hcl yo sim t G). rewrite <- R. reflexivity. }
  split; [exact NF|].
  split.
  { unfold tool_main_as. cbn [snd].
    destruct (tool_outcome files args); cbn [stdout_of]; try tauto. discriminate NF. }
  split.
  { intros Hh Hv.
    destruct (exit_zero_iff_holds args hcl yo sim) as [_ [_ [H3 [_ [H0 H01]]]]].
    split.
    - intros Hcp. apply H3 in Hcp. rewrite <- R in Hcp. unfold tool_main_as.
      destruct (tool_outcome files args); cbn [status_of what_of] in Hcp; try discriminate Hcp.
      reflexivity.
    - intros Hncp.
      assert (Hst : status_of (tool_outcome files args) = 1).
      { rewrite <- R in H0, H01. cbn [fst] in H0, H01. apply H01. intros Hz. apply H0 in Hz.
        destruct Hz as [Hz|[Hz|[Hz|[t Hz]]]].
        - exact (Hh Hz).
        - destruct Hz as [Hz _]. exact (Hv Hz).
        - exact (Hncp Hz).
        - destruct Hz as [f [y [rest [_ [_ [_ [Hnc _]]]]]]]. exact (Hnc G). }
      unfold tool_main_as. cbn [fst snd]. split; [exact Hst|].
      destruct (tool_outcome files args); cbn [status_of stdout_of] in *; try discriminate Hst; tauto. }
  intros files' Hf.
  assert (HO : tool_outcome files' args = tool_outcome files args).
  { destruct (parse_argv args) as [[fs free]|] eqn:EP.
    2:{ rewrite !tool_outcome_none by exact EP. reflexivity. }
    rewrite (free_of_some _ _ _ EP) in Hf.
    rewrite !(tool_outcome_plan _ args fs free EP).
    rewrite (plan_of_files_ext files files').
    2:{ intros h Hh. destruct free as [|h' r]; [discriminate Hh|]. injection Hh as <-. exact Hf. }
    destruct (plan_of files' (has_flag FHelp fs) (has_flag FVersion fs) (has_flag FCheck fs) free)
      as [r|p s0 y t] eqn:EPl; cbn [finish_plan]; [reflexivity|].
    destruct (plan_run_inv _ _ _ _ _ _ _ _ _ EPl) as [_ [_ [Hc _]]].
    rewrite (given_has_flag args fs free FCheck EP G) in Hc. discriminate Hc. }
  unfold tool_main_as. rewrite HO. reflexivity.
Qed.

(* ---- (e) ---------------------------------------------------------------------------------------- *)
Theorem tool_output_options_holds : stmt_tool_output_options.
Proof.
  intros prog files args args' fs fs' free EP EP' Hsame. cbv zeta.
  assert (HH : has_flag FHelp fs = has_flag FHelp fs') by (apply has_flag_ext, Hsame, not_output_H).
  assert (HV : has_flag FVersion fs = has_flag FVersion fs') by (apply has_flag_ext, Hsame, not_output_V).
  assert (HC : has_flag FCheck fs = has_flag FCheck fs') by (apply has_flag_ext, Hsame, not_output_C).
  assert (Goal :
    status_of (tool_outcome files args) = status_of (tool_outcome files args') /\
    what_of (tool_outcome files args) = what_of (tool_outcome files args') /\
    program_of (tool_outcome files args) = program_of (tool_outcome files args') /\
    start_state_of (tool_outcome files args) = start_state_of (tool_outcome files args') /\
    final_state_of (tool_outcome files args) = final_state_of (tool_outcome files args')).
  { rewrite (tool_outcome_plan files args fs free EP), (tool_outcome_plan files args' fs' free EP').
    rewrite <- HH, <- HV, <- HC.
    destruct (plan_of files (has_flag FHelp fs) (has_flag FVersion fs) (has_flag FCheck fs) free)
      as [r|p s0 yo t] eqn:EPl; cbn [finish_plan]; [repeat split; reflexivity|].
    destruct (plan_run_inv _ _ _ _ _ _ _ _ _ EPl) as [_ [_ [_ [hcl [rest2 [txt [_ [_ [_ [_ [_ [_ [_ [K _]]]]]]]]]]]]]].
    pose proof (run_y86_spec files (prompt_of fs) p s0 yo (set_timeout (run_options_of fs) t) K) as R.
    pose proof (run_y86_spec files (prompt_of fs') p s0 yo (set_timeout (run_options_of fs') t) K) as R'.
    destruct (files yo) as [image|]; [|rewrite R, R'; repeat split; reflexivity].
    destruct (load_from_y86 (mem s0) image) as [m|es]; [|rewrite R, R'; repeat split; reflexivity].
    cbv zeta in R, R'. unfold sim_result in R, R'. rewrite !timeout_set_timeout in R, R'.
    destruct (run (N.to_nat t) gen_features (set_timeout default_options t) p (with_mem s0 m)) as [[final t0]|es].
    - destruct R as [text [dump [_ [_ ->]]]]. destruct R' as [text' [dump' [_ [_ ->]]]].
      repeat split; reflexivity.
    - rewrite R, R'. repeat split; reflexivity. }
  destruct Goal as [G1 G2]. split; [unfold tool_main_as; cbn [fst]; exact G1 | exact G2].
Qed.

(* the draft about -q *)
Definition count_hcl : string :=
"register cC { n : 64 = 0; }
c_n = C_n + 1;
pc = 0;
Stat = [ C_n == 2 : STAT_HLT; 1 : STAT_AOK ];
".
Definition halt_yo : string := "0x000: 00                   | halt
".
Definition div_hcl : string :=
"register cC { n : 64 = 0; }
c_n = 1 / C_n;
pc = 0;
Stat = STAT_AOK;
".
Definition ex_files : file_system :=
  files_of [("count.hcl", bytes_of count_hcl); ("p.yo", bytes_of halt_yo); ("p.txt", bytes_of halt_yo);
            ("bad.hcl", bytes_of "wire x : 8;
");
            ("bad.yo", bytes_of "0x000: zz | garbage
");
            ("div.hcl", bytes_of div_hcl)].

Theorem tool_quiet_only_dump_draft_refuted : ~ stmt_tool_quiet_only_dump_draft.
Proof.
  intros H.
  assert (E : exists t o p start final dump,
             tool_outcome ex_files ["-q"; "-i"; "count.hcl"; "p.yo"; "1"]
             = OFinal t o p start final prompt_line dump).
  { vm_compute. eexists _, _, _, _, _, _. reflexivity. }
  destruct E as [t [o [p [start [final [dump E]]]]]].
  specialize (H "hclrs" ex_files ["-q"; "-i"; "count.hcl"; "p.yo"; "1"] [FQuiet; FInteractive]
                ["count.hcl"; "p.yo"; "1"] t o p start final prompt_line dump eq_refl (or_introl eq_refl) E).
  unfold tool_main_as in H. rewrite E in H. cbn [snd stdout_of] in H.
  apply (f_equal String.length) in H. rewrite sapp_length in H.
  change (String.length prompt_line) with 26%nat in H. lia.
Qed.

(* ====================================================================================== *)
(* Part 7: computed examples                                                                *)
(* ====================================================================================== *)
(* The expected exit status and standard output below were OBSERVED: they are the exit status and
   the standard output of the compiled program /repo/target/debug/hclrs run on files with the
   contents of ex_files (count.hcl, p.yo, p.txt, bad.hcl, bad.yo, div.hcl) and the same arguments.
   The one exception is ex_division_by_zero: the compiled program has already printed the state
   before the failing cycle on standard output; the model's `run` returns no text with an error. *)
(* the three-cycle counter, default options: a dump before each cycle, the disassembly, the final dump *)
Example ex_counter_default :
  tool_main ex_files ["count.hcl"; "p.yo"] =
  (0, "+------------------- between cycles    0 and    1 ----------------------+
| RAX:                0   RCX:                0   RDX:                0 |
| RBX:                0   RSP:                0   RBP:                0 |
| RSI:                0   RDI:                0   R8:                 0 |
| R9:                 0   R10:                0   R11:                0 |
| R12:                0   R13:                0   R14:                0 |
| register cC(N) { n=0000000000000000 }                                 |
| used memory:   _0 _1 _2 _3  _4 _5 _6 _7   _8 _9 _a _b  _c _d _e _f    |
|  0x0000000_:   00                                                     |
+-----------------------------------------------------------------------+
pc = 0x0; loaded [00 : halt]
+------------------- between cycles    1 and    2 ----------------------+
| RAX:                0   RCX:                0   RDX:                0 |
| RBX:                0   RSP:                0   RBP:                0 |
| RSI:                0   RDI:                0   R8:                 0 |
| R9:                 0   R10:                0   R11:                0 |
| R12:                0   R13:                0   R14:                0 |
| register cC(N) { n=0000000000000001 }                                 |
| used memory:   _0 _1 _2 _3  _4 _5 _6 _7   _8 _9 _a _b  _c _d _e _f    |
|  0x0000000_:   00                                                     |
+-----------------------------------------------------------------------+
pc = 0x0; loaded [00 : halt]
+------------------- between cycles    2 and    3 ----------------------+
| RAX:                0   RCX:                0   RDX:                0 |
| RBX:                0   RSP:                0   RBP:                0 |
| RSI:                0   RDI:                0   R8:                 0 |
| R9:                 0   R10:                0   R11:                0 |
| R12:                0   R13:                0   R14:                0 |
| register cC(N) { n=0000000000000002 }                                 |
| used memory:   _0 _1 _2 _3  _4 _5 _6 _7   _8 _9 _a _b  _c _d _e _f    |
|  0x0000000_:   00                                                     |
+-----------------------------------------------------------------------+
pc = 0x0; loaded [00 : halt]
+----------------------- halted in state: ------------------------------+
| RAX:                0   RCX:                0   RDX:                0 |
| RBX:                0   RSP:                0   RBP:                0 |
| RSI:                0   RDI:                0   R8:                 0 |
| R9:                 0   R10:                0   R11:                0 |
| R12:                0   R13:                0   R14:                0 |
| register cC(N) { n=0000000000000003 }                                 |
| used memory:   _0 _1 _2 _3  _4 _5 _6 _7   _8 _9 _a _b  _c _d _e _f    |
|  0x0000000_:   00                                                     |
+--------------------- (end of halted state) ---------------------------+
Cycles run: 3
").
Proof. vm_compute. reflexivity. Qed.

(* -q: the final dump only *)
Example ex_counter_quiet :
  tool_main ex_files ["-q"; "count.hcl"; "p.yo"] =
  (0, "+----------------------- halted in state: ------------------------------+
| RAX:                0   RCX:                0   RDX:                0 |
| RBX:                0   RSP:                0   RBP:                0 |
| RSI:                0   RDI:                0   R8:                 0 |
| R9:                 0   R10:                0   R11:                0 |
| R12:                0   R13:                0   R14:                0 |
| register cC(N) { n=0000000000000003 }                                 |
| used memory:   _0 _1 _2 _3  _4 _5 _6 _7   _8 _9 _a _b  _c _d _e _f    |
|  0x0000000_:   00                                                     |
+--------------------- (end of halted state) ---------------------------+
Cycles run: 3
").
Proof. vm_compute. reflexivity. Qed.

(* a budget of two cycles: timed out *)
Example ex_counter_timeout :
  tool_main ex_files ["count.hcl"; "p.yo"; "2"; "-q"] =
  (0, "+------------ timed out after     2 cycles in state: -------------------+
| RAX:                0   RCX:                0   RDX:                0 |
| RBX:                0   RSP:                0   RBP:                0 |
| RSI:                0   RDI:                0   R8:                 0 |
| R9:                 0   R10:                0   R11:                0 |
| R12:                0   R13:                0   R14:                0 |
| register cC(N) { n=0000000000000002 }                                 |
| used memory:   _0 _1 _2 _3  _4 _5 _6 _7   _8 _9 _a _b  _c _d _e _f    |
|  0x0000000_:   00                                                     |
+-----------------------------------------------------------------------+
").
Proof. vm_compute. reflexivity. Qed.

(* -i: the prompt line after every cycle; -t: no register banks *)
Example ex_counter_interactive :
  tool_main ex_files ["-i"; "-t"; "count.hcl"; "p.yo"; "2"] =
  (0, "+------------------- between cycles    0 and    1 ----------------------+
| RAX:                0   RCX:                0   RDX:                0 |
| RBX:                0   RSP:                0   RBP:                0 |
| RSI:                0   RDI:                0   R8:                 0 |
| R9:                 0   R10:                0   R11:                0 |
| R12:                0   R13:                0   R14:                0 |
| used memory:   _0 _1 _2 _3  _4 _5 _6 _7   _8 _9 _a _b  _c _d _e _f    |
|  0x0000000_:   00                                                     |
+-----------------------------------------------------------------------+
pc = 0x0; loaded [00 : halt]
(press enter to continue)
+------------------- between cycles    1 and    2 ----------------------+
| RAX:                0   RCX:                0   RDX:                0 |
| RBX:                0   RSP:                0   RBP:                0 |
| RSI:                0   RDI:                0   R8:                 0 |
| R9:                 0   R10:                0   R11:                0 |
| R12:                0   R13:                0   R14:                0 |
| used memory:   _0 _1 _2 _3  _4 _5 _6 _7   _8 _9 _a _b  _c _d _e _f    |
|  0x0000000_:   00                                                     |
+-----------------------------------------------------------------------+
pc = 0x0; loaded [00 : halt]
(press enter to continue)
+------------ timed out after     2 cycles in state: -------------------+
| RAX:                0   RCX:                0   RDX:                0 |
| RBX:                0   RSP:                0   RBP:                0 |
| RSI:                0   RDI:                0   R8:                 0 |
| R9:                 0   R10:                0   R11:                0 |
| R12:                0   R13:                0   R14:                0 |
| used memory:   _0 _1 _2 _3  _4 _5 _6 _7   _8 _9 _a _b  _c _d _e _f    |
|  0x0000000_:   00                                                     |
+-----------------------------------------------------------------------+
").
Proof. vm_compute. reflexivity. Qed.

(* -d: component messages and the grouped wire table *)
Example ex_counter_debug :
  tool_main ex_files ["-d"; "count.hcl"; "p.yo"; "1"] =
  (0, "+------------------- between cycles    0 and    1 ----------------------+
| RAX:                0   RCX:                0   RDX:                0 |
| RBX:                0   RSP:                0   RBP:                0 |
| RSI:                0   RDI:                0   R8:                 0 |
| R9:                 0   R10:                0   R11:                0 |
| R12:                0   R13:                0   R14:                0 |
| register cC(N) { n=0000000000000000 }                                 |
| used memory:   _0 _1 _2 _3  _4 _5 _6 _7   _8 _9 _a _b  _c _d _e _f    |
|  0x0000000_:   00                                                     |
+-----------------------------------------------------------------------+
i10bytes set to 0x0 (reading 10 bytes from memory at pc=0x0)
pc = 0x0; loaded [00 : halt]

Values of inputs to built-in components:
pc                   0x0000000000000000
Stat                                0x1

Values of outputs of built-in components:
i10bytes         0x00000000000000000000

Values of register bank signals:
C_n                  0x0000000000000000
c_n                  0x0000000000000001

+------------ timed out after     1 cycles in state: -------------------+
| RAX:                0   RCX:                0   RDX:                0 |
| RBX:                0   RSP:                0   RBP:                0 |
| RSI:                0   RDI:                0   R8:                 0 |
| R9:                 0   R10:                0   R11:                0 |
| R12:                0   R13:                0   R14:                0 |
| register cC(N) { n=0000000000000001 }                                 |
| used memory:   _0 _1 _2 _3  _4 _5 _6 _7   _8 _9 _a _b  _c _d _e _f    |
|  0x0000000_:   00                                                     |
+-----------------------------------------------------------------------+
").
Proof. vm_compute. reflexivity. Qed.

(* the ungrouped table *)
Example ex_counter_debug_ungrouped :
  tool_main ex_files ["-d"; "--ungroup-debug-wires"; "count.hcl"; "p.yo"; "1"] =
  (0, "+------------------- between cycles    0 and    1 ----------------------+
| RAX:                0   RCX:                0   RDX:                0 |
| RBX:                0   RSP:                0   RBP:                0 |
| RSI:                0   RDI:                0   R8:                 0 |
| R9:                 0   R10:                0   R11:                0 |
| R12:                0   R13:                0   R14:                0 |
| register cC(N) { n=0000000000000000 }                                 |
| used memory:   _0 _1 _2 _3  _4 _5 _6 _7   _8 _9 _a _b  _c _d _e _f    |
|  0x0000000_:   00                                                     |
+-----------------------------------------------------------------------+
i10bytes set to 0x0 (reading 10 bytes from memory at pc=0x0)
pc = 0x0; loaded [00 : halt]
Values of wires:
Wire                              Value
C_n                  0x0000000000000000
c_n                  0x0000000000000001
i10bytes         0x00000000000000000000
pc                   0x0000000000000000
Stat                                0x1

+------------ timed out after     1 cycles in state: -------------------+
| RAX:                0   RCX:                0   RDX:                0 |
| RBX:                0   RSP:                0   RBP:                0 |
| RSI:                0   RDI:                0   R8:                 0 |
| R9:                 0   R10:                0   R11:                0 |
| R12:                0   R13:                0   R14:                0 |
| register cC(N) { n=0000000000000001 }                                 |
| used memory:   _0 _1 _2 _3  _4 _5 _6 _7   _8 _9 _a _b  _c _d _e _f    |
|  0x0000000_:   00                                                     |
+-----------------------------------------------------------------------+
").
Proof. vm_compute. reflexivity. Qed.

(* --trace-assignments.  The compiled program prints these three assignment lines in an order that
   changes from run to run (its schedule follows the iteration order of randomly seeded HashMaps:
   property C12 allows any order the dependencies allow); the model prints them in the order of
   the one schedule Build.build_program computes. *)
Example ex_counter_trace :
  tool_main ex_files ["--trace-assignments"; "-q"; "count.hcl"; "p.yo"; "1"] =
  (0, "c_n set to 0x1
pc set to 0x0
Stat set to 0x1
+------------ timed out after     1 cycles in state: -------------------+
| RAX:                0   RCX:                0   RDX:                0 |
| RBX:                0   RSP:                0   RBP:                0 |
| RSI:                0   RDI:                0   R8:                 0 |
| R9:                 0   R10:                0   R11:                0 |
| R12:                0   R13:                0   R14:                0 |
| register cC(N) { n=0000000000000001 }                                 |
| used memory:   _0 _1 _2 _3  _4 _5 _6 _7   _8 _9 _a _b  _c _d _e _f    |
|  0x0000000_:   00                                                     |
+-----------------------------------------------------------------------+
").
Proof. vm_compute. reflexivity. Qed.

(* -q then -d: the debug output is back, the in-run dumps are not *)
Example ex_counter_quiet_debug :
  tool_main ex_files ["-qd"; "count.hcl"; "p.yo"; "1"] =
  (0, "i10bytes set to 0x0 (reading 10 bytes from memory at pc=0x0)

Values of inputs to built-in components:
pc                   0x0000000000000000
Stat                                0x1

Values of outputs of built-in components:
i10bytes         0x00000000000000000000

Values of register bank signals:
C_n                  0x0000000000000000
c_n                  0x0000000000000001

+------------ timed out after     1 cycles in state: -------------------+
| RAX:                0   RCX:                0   RDX:                0 |
| RBX:                0   RSP:                0   RBP:                0 |
| RSI:                0   RDI:                0   R8:                 0 |
| R9:                 0   R10:                0   R11:                0 |
| R12:                0   R13:                0   R14:                0 |
| register cC(N) { n=0000000000000001 }                                 |
| used memory:   _0 _1 _2 _3  _4 _5 _6 _7   _8 _9 _a _b  _c _d _e _f    |
|  0x0000000_:   00                                                     |
+-----------------------------------------------------------------------+
").
Proof. vm_compute. reflexivity. Qed.

(* --check *)
Example ex_check :
  tool_main ex_files ["--check"; "count.hcl"] =
  (0, "syntax OK
").
Proof. vm_compute. reflexivity. Qed.

(* --check does not look at the second and third positional *)
Example ex_check_ignores_rest :
  tool_main ex_files ["-c"; "count.hcl"; "nonexistent"; "abc"] =
  (0, "syntax OK
").
Proof. vm_compute. reflexivity. Qed.

(* a rejected program (wire never assigned) *)
Example ex_rejected :
  tool_main ex_files ["bad.hcl"; "p.yo"] =
  (1, "").
Proof. vm_compute. reflexivity. Qed.

(* a missing HCL file *)
Example ex_missing_file :
  tool_main ex_files ["nofile.hcl"; "p.yo"] =
  (1, "").
Proof. vm_compute. reflexivity. Qed.

(* a missing memory image *)
Example ex_missing_image :
  tool_main ex_files ["count.hcl"; "nofile.yo"] =
  (1, "").
Proof. vm_compute. reflexivity. Qed.

(* an image with a line that cannot be parsed *)
Example ex_unloadable_image :
  tool_main ex_files ["count.hcl"; "bad.yo"] =
  (1, "").
Proof. vm_compute. reflexivity. Qed.

(* the image must be named *.yo *)
Example ex_bad_extension :
  tool_main ex_files ["count.hcl"; "p.txt"] =
  (1, "").
Proof. vm_compute. reflexivity. Qed.

(* a bad timeout *)
Example ex_bad_timeout :
  tool_main ex_files ["count.hcl"; "p.yo"; "12x"] =
  (1, "").
Proof. vm_compute. reflexivity. Qed.

(* a timeout that does not fit 32 bits *)
Example ex_timeout_too_big :
  tool_main ex_files ["count.hcl"; "p.yo"; "4294967296"] =
  (1, "").
Proof. vm_compute. reflexivity. Qed.

(* an unknown option *)
Example ex_bad_option :
  tool_main ex_files ["--bogus"; "count.hcl"; "p.yo"] =
  (1, "").
Proof. vm_compute. reflexivity. Qed.

(* --version *)
Example ex_version :
  tool_main ex_files ["--version"] =
  (0, "HCLRS version 0.2.14
").
Proof. vm_compute. reflexivity. Qed.

(* a run-time error (division by zero in the first cycle): exit status 1 *)
Example ex_division_by_zero :
  tool_main ex_files ["div.hcl"; "p.yo"] =
  (1, "").
Proof. vm_compute. reflexivity. Qed.

(* --help: the usage text, with argv[0] *)
Example ex_help :
  tool_main_as "/repo/target/debug/hclrs" ex_files ["x"; "-h"; "--version"] =
  (0, "Usage: /repo/target/debug/hclrs [options] HCL-FILE [YO-FILE [TIMEOUT]]
Runs HCL_FILE on YO-FILE. If --check is specified, no YO-FILE may be supplied.
Default timeout is 9999 cycles.

Options:
    -c, --check         check syntax only
    -d, --debug         output wire values after each cycle and other debug
                        output
    -q, --quiet         only output state at the end
    -t, --testing       do not output custom register banks (for autograding)
    -h, --help          print this help menu
    -i, --interactive   prompt after each cycle
        --ungroup-debug-wires 
                        when showing wire values in debug output, do not group
                        wires by category
        --trace-assignments 
                        show assignments in the order they are simulated
        --version       print version number
").
Proof. vm_compute. reflexivity. Qed.

(* no positional: the usage text, exit status 1 *)
Example ex_no_arguments :
  tool_main_as "/repo/target/debug/hclrs" ex_files [] =
  (1, "Usage: /repo/target/debug/hclrs [options] HCL-FILE [YO-FILE [TIMEOUT]]
Runs HCL_FILE on YO-FILE. If --check is specified, no YO-FILE may be supplied.
Default timeout is 9999 cycles.

Options:
    -c, --check         check syntax only
    -d, --debug         output wire values after each cycle and other debug
                        output
    -q, --quiet         only output state at the end
    -t, --testing       do not output custom register banks (for autograding)
    -h, --help          print this help menu
    -i, --interactive   prompt after each cycle
        --ungroup-debug-wires 
                        when showing wire values in debug output, do not group
                        wires by category
        --trace-assignments 
                        show assignments in the order they are simulated
        --version       print version number
").
Proof. vm_compute. reflexivity. Qed.

(* ====================================================================================== *)
(* Part 8: non-vacuity of the theorems                                                      *)
(* ====================================================================================== *)
(* (a): the induced world, computed - one instance per outcome class *)
Example ex_refines_world :
  main_in_world (world_of ex_files) ["-q"; "count.hcl"; "p.yo"] = (0, FinalState 9999) /\
  main_in_world (world_of ex_files) ["count.hcl"; "p.yo"; "2"] = (0, FinalState 2) /\
  main_in_world (world_of ex_files) ["count.hcl"; "-c"] = (0, SyntaxOK) /\
  main_in_world (world_of ex_files) ["bad.hcl"; "p.yo"] = (1, Message "diagnostics") /\
  main_in_world (world_of ex_files) ["nofile.hcl"; "p.yo"] = (1, Message "Error reading") /\
  main_in_world (world_of ex_files) ["count.hcl"; "nofile.yo"] = (1, Message "open") /\
  main_in_world (world_of ex_files) ["count.hcl"; "bad.yo"] = (1, Message "load") /\
  main_in_world (world_of ex_files) ["div.hcl"; "p.yo"] = (1, Message "simulation") /\
  main_in_world (world_of ex_files) ["div.hcl"; "p.yo"; "0"] = (0, FinalState 0) /\
  main_in_world (world_of ex_files) ["count.hcl"] = (1, PrintedUsage).
Proof. vm_compute. repeat split; reflexivity. Qed.

Example ex_kinds :
  hcl_of ex_files ["-q"; "count.hcl"; "p.yo"] = HclAccepted /\ yo_of ex_files ["-q"; "count.hcl"; "p.yo"] = YoLoadable /\
  sim_of ex_files ["-q"; "count.hcl"; "p.yo"] = SimCompletes /\ sim_of ex_files ["div.hcl"; "p.yo"] = SimAborts /\
  hcl_of ex_files ["bad.hcl"] = HclRejected /\ yo_of ex_files ["count.hcl"; "bad.yo"] = YoUnloadable.
Proof. vm_compute. repeat split; reflexivity. Qed.

(* (b): the hypotheses of tool_final_state_holds, and what it then gives on this instance *)
Lemma ex_not_given args fs free f :
  parse_argv args = Some (fs, free) -> has_flag f fs = false -> ~ given args f.
Proof. intros EP H. apply (not_given_iff args fs free f EP). exact H. Qed.

Example ex_final_state_hypotheses :
  let args := ["-q"; "count.hcl"; "p.yo"] in
  fst (tool_main ex_files args) = 0 /\ ~ given args FHelp /\ ~ given args FVersion /\ ~ given args FCheck.
Proof.
  cbv zeta. split; [vm_compute; reflexivity|].
  repeat split; apply (ex_not_given _ [FQuiet] ["count.hcl"; "p.yo"]); reflexivity.
Qed.

(* three cycles, halted (Stat = 2); with a budget of 2: two cycles, status still OK *)
Example ex_final_state_reached :
  match tool_outcome ex_files ["-q"; "count.hcl"; "p.yo"] with
  | OFinal t _ _ start final text _ => (t, cycle start, cycle final, stat_of final, text) = (9999, 0, 3, Some 2, "")
  | _ => False
  end /\
  match tool_outcome ex_files ["count.hcl"; "p.yo"; "2"; "-q"] with
  | OFinal t _ _ start final text _ => (t, cycle start, cycle final, stat_of final, text) = (2, 0, 2, Some 1, "")
  | _ => False
  end.
Proof. vm_compute. split; reflexivity. Qed.

(* (c) *)
Example ex_check_given :
  given ["count.hcl"; "--check"; "p.yo"] FCheck /\ check_passes ["count.hcl"; "--check"; "p.yo"] (hcl_of ex_files ["count.hcl"; "--check"; "p.yo"]) /\
  given ["bad.hcl"; "-c"] FCheck /\ ~ check_passes ["bad.hcl"; "-c"] (hcl_of ex_files ["bad.hcl"; "-c"]).
Proof.
  split; [exists [FCheck], ["count.hcl"; "p.yo"]; split; [reflexivity | left; reflexivity]|].
  split. { apply (check_passes_iff _ [FCheck] ["count.hcl"; "p.yo"]); [reflexivity|].  repeat split; try reflexivity; cbn [List.length]; lia. }
  split; [exists [FCheck], ["bad.hcl"]; split; [reflexivity | left; reflexivity]|].
  intros H. apply (check_passes_iff _ [FCheck] ["bad.hcl"]) in H; [|reflexivity].
  destruct H as [_ [_ [_ [H _]]]]. vm_compute in H. discriminate H.
Qed.

(* (d): two different file systems that agree on the two files named *)
Definition ex_files' : file_system :=
  fun name => if String.eqb name "other.hcl" then Some [1; 2; 3] else ex_files name.

Example ex_files_agree :
  let args := ["count.hcl"; "-t"; "p.yo"] in
  (forall name, nth_error (free_of args) 0 = Some name \/ nth_error (free_of args) 1 = Some name ->
     ex_files name = ex_files' name) /\
  ex_files "other.hcl" <> ex_files' "other.hcl".
Proof.
  cbv zeta. split; [|vm_compute; discriminate].
  intros name [H|H]; vm_compute in H; injection H as <-; reflexivity.
Qed.

(* (e) *)
Example ex_output_option_sets :
  let args := ["count.hcl"; "p.yo"] in
  let args' := ["-dq"; "count.hcl"; "-t"; "p.yo"; "--trace-assignments"; "-i"; "--ungroup-debug-wires"] in
  parse_argv args = Some ([], ["count.hcl"; "p.yo"]) /\
  parse_argv args' = Some ([FDebug; FQuiet; FTesting; FTrace; FInteractive; FUngroup], ["count.hcl"; "p.yo"]) /\
  (forall f, ~ is_output_flag f ->
     (In f [] <-> In f [FDebug; FQuiet; FTesting; FTrace; FInteractive; FUngroup])) /\
  snd (tool_main ex_files args) <> snd (tool_main ex_files args').
Proof.
  cbv zeta. split; [reflexivity|]. split; [reflexivity|]. split.
  - intros f Hf. unfold is_output_flag in Hf. cbn [In]. split; [intros []|].
    intros Hi. exfalso. apply Hf.
    destruct Hi as [<-|[<-|[<-|[<-|[<-|[<-|[]]]]]]]; tauto.
  - intros H. apply (f_equal String.length) in H. vm_compute in H. discriminate H.
Qed.

(* option order: an instance of the hypotheses *)
Example ex_tool_order_free :
  let pre := ["-q"; "count.hcl"; "p.yo"] in let pre' := (["count.hcl"; "p.yo"] ++ ["-q"])%list in
  ~ In "--" pre /\ Permutation pre pre' /\ positional_part pre = positional_part pre'.
Proof.
  cbv zeta. split; [intros [E|[E|[E|[]]]]; discriminate|].
  split; [apply Permutation_cons_append | reflexivity].
Qed.

Print Assumptions run_result_option_free_holds.
Print Assumptions run_result_option_free_any_state_draft_refuted.
Print Assumptions tool_refines_decision_holds.
Print Assumptions tool_never_panics_holds.
Print Assumptions tool_exit_zero_iff_holds.
Print Assumptions tool_each_failure_cause_exits_one_holds.
Print Assumptions tool_option_order_free_holds.
Print Assumptions tool_final_state_holds.
Print Assumptions tool_quiet_only_dump_draft_refuted.
Print Assumptions tool_check_prints_only_syntax_ok_holds.
Print Assumptions tool_deterministic_in_files_holds.
Print Assumptions tool_output_options_holds.

(* ====================================================================================== *)
(* Part 9: (f) a simulation of grammar-well-formed statements aborts by division by zero only *)
(* ====================================================================================== *)
Theorem tool_abort_is_division_by_zero_holds : stmt_tool_abort_is_division_by_zero.
Proof.
  intros files f y stmts p start o es Hst Hwf Hstart Hrun.
  unfold statements_of in Hst. unfold start_of in Hstart.
  destruct (read_y86_hcl files f) as [text|]; [|discriminate Hst].
  unfold parse_y86_hcl in Hstart.
  destruct gen_tiers as [tiers|]; [|discriminate Hst]. rewrite Hst in Hstart.
  destruct (build_program gen_features gen_fixed ascii_lower ascii_upper stmts) as [q|bes] eqn:Hb; [|discriminate Hstart].
  destruct (accept_program_ok_gen gen_features ascii_lower ascii_upper gen_fixed_ok gen_fixed_widths_ok stmts q Hwf Hb)
    as [G POK].
  destruct (initial_state_safe_ok gen_features G q POK) as [s0 [Hs0 SOK]]. rewrite Hs0 in Hstart.
  destruct (files y) as [image|]; [|discriminate Hstart].
  destruct (initial_state_shape q s0 Hs0) as [Hmem Hcyc]. rewrite Hmem in Hstart.
  destruct (load_from_y86 [] image) as [m|les] eqn:Hl; [|discriminate Hstart].
  injection Hstart as <- <-.
  destruct (load_is_a_function_of_bytes_holds [] image m wf_mem_nil Hl) as [Hwm _].
  pose proof (load_image_ok G q s0 m SOK Hwm) as SOK'.
  change (load_image s0 m) with (with_mem s0 m) in SOK'.
  pose proof (run_safe_ok (N.to_nat (o_timeout o)) gen_features o G q (with_mem s0 m) POK SOK') as Hsafe.
  rewrite Hrun in Hsafe. apply Hsafe. cbn [with_mem cycle]. lia.
Qed.
Print Assumptions tool_abort_is_division_by_zero_holds.

(* a boolean check of grammar-well-formedness, for the example *)
Definition wf_widthb (w : width) : bool := match w with Bits n => n <=? 128 | Unl => true end.
Definition fitsb (v : wval) : bool := (bits v <? 2 ^ bits_or_128 (wd v)) && wf_widthb (wd v).
Fixpoint wf_exprb (e : expr) : bool :=
  match e with
  | EConst v => fitsb v
  | EBin _ l r => wf_exprb l && wf_exprb r
  | EUn _ e1 => wf_exprb e1
  | EMux a => wf_armsb a
  | EWire _ => true
  | ESlice e1 lo hi => wf_exprb e1 && (lo <=? 128) && (hi <=? 128)
  | ECat l r => wf_exprb l && wf_exprb r
  | EIn e1 items => wf_exprb e1 && wf_itemsb items
  end
with wf_armsb (a : arms) : bool :=
  match a with
  | ANil => true
  | ACons c v rest => wf_exprb c && wf_exprb v && wf_armsb rest
  end
with wf_itemsb (items : exprs) : bool :=
  match items with
  | XNil => true
  | XCons e1 rest => wf_exprb e1 && wf_itemsb rest
  end.
Definition wf_stmtb (s : stmt) : bool :=
  match s with
  | SConst d => forallb (fun ne => wf_exprb (snd ne)) d
  | SWire d => forallb (fun nw => wf_widthb (snd nw)) d
  | SAssign a => forallb (fun ne => wf_exprb (snd ne)) a
  | SBank _ regs => forallb (fun r => wf_widthb (snd (fst r)) && wf_exprb (snd r)) regs
  end.

Lemma wf_widthb_ok w : wf_widthb w = true -> wf_width w.
Proof. destruct w as [n|]; cbn [wf_widthb wf_width]; [lia | intros _; exact I]. Qed.

Lemma wf_exprb_ok :
  (forall e, wf_exprb e = true -> wf_expr e) /\
  (forall a, wf_armsb a = true -> wf_arms a) /\
  (forall x, wf_itemsb x = true -> wf_items x).
Proof.
  apply expr_arms_exprs_ind; cbn [wf_exprb wf_armsb wf_itemsb wf_expr wf_arms wf_items]; intros;
    repeat match goal with H : (_ && _)%bool = true |- _ => apply andb_true_iff in H; destruct H end;
    try exact I; auto.
  - unfold fitsb in H. apply andb_true_iff in H. destruct H as [H1 H2]. split; [lia | apply wf_widthb_ok; exact H2].
  - split; [auto|]. split; lia.
Qed.

Lemma wf_stmtb_ok s : wf_stmtb s = true -> wf_stmt s.
Proof.
  destruct s as [d|d|a|n regs]; cbn [wf_stmtb wf_stmt]; intros H; apply Forall_forall; intros x Hx;
    pose proof (proj1 (forallb_forall _ _) H x Hx) as Hb; cbn beta in Hb.
  - apply (proj1 wf_exprb_ok). exact Hb.
  - apply wf_widthb_ok. exact Hb.
  - apply (proj1 wf_exprb_ok). exact Hb.
  - apply andb_true_iff in Hb. destruct Hb as [H1 H2]. split; [apply wf_widthb_ok; exact H1 | apply (proj1 wf_exprb_ok); exact H2].
Qed.

Lemma wf_stmts_by_computation stmts : forallb wf_stmtb stmts = true -> Forall wf_stmt stmts.
Proof. intros H. apply Forall_forall. intros s Hs. apply wf_stmtb_ok. exact (proj1 (forallb_forall _ _) H s Hs). Qed.

Example ex_abort_division_by_zero :
  exists stmts p start,
    statements_of ex_files "div.hcl" = Some stmts /\ Forall wf_stmt stmts /\
    start_of ex_files "div.hcl" "p.yo" = Some (p, start) /\
    run (N.to_nat 9999) gen_features (set_timeout default_options 9999) p start = Err [mkErr DivisionByZero []].
Proof.
  destruct (statements_of ex_files "div.hcl") as [stmts|] eqn:Es; [|vm_compute in Es; discriminate Es].
  destruct (start_of ex_files "div.hcl" "p.yo") as [[p start]|] eqn:Est; [|vm_compute in Est; discriminate Est].
  exists stmts, p, start. split; [reflexivity|].
  split.
  { apply wf_stmts_by_computation. vm_compute in Es. injection Es as <-. vm_compute. reflexivity. }
  split; [reflexivity|].
  vm_compute in Est. injection Est as <- <-. vm_compute. reflexivity.
Qed.
