(* C14, "every diagnostic that shows a source location ... underlines exactly the offending span;
   faults in user code are never attributed to the built-in preamble": WHICH SPANS the parser
   records.  Statements about SpanParser.parse_sp / parse_text_sp - the model parser that attaches
   to every AST node the byte span the grammar actions of src/parser.lalrpop attach - in the
   vocabulary of Lexer.v (tokens with byte offsets), TriviaSpec.v / LexLocSpec.v (texts, utf8) and
   RegionSpec.v (what the renderer shows for a span).  Definitions only.

     (a) erasing the spans gives the plain parser Parser.parse: same texts accepted, same statements;
     (b) every recorded span runs from the start of a token to the end of a (not earlier) token;
     (c) spans are nested like the syntax tree, lie inside their statement, and the statements of a
         file occupy disjoint stretches of the token sequence, in text order;
     (d) the statements that follow those of the preamble have all their spans in the user's text,
         hence (RegionSpec / Props.C14) any diagnostic underlining such a span is headed by the
         user's file name and shows the user's line;
     (e) the text of an expression's span, lexed and parsed on its own, is that expression: the span
         is exactly the extent of the construct. *)
From HclV Require Import Base Expr Build Lexer Parser LexParseSpec TriviaSpec Yo Region RegionSpec
                         LexLocSpec Generated SpanParser.
Open Scope list_scope.
Open Scope N_scope.

(* ====================================================================================== *)
(* vocabulary                                                                             *)
(* ====================================================================================== *)

(* ---- the nodes and the spans of a spanned syntax tree ------------------------------------ *)
Fixpoint arm_exprs (a : sarms) : list sexpr :=
  match a with SANil => [] | SACons c v rest => c :: v :: arm_exprs rest end.
Fixpoint item_exprs (xs : sexprs) : list sexpr :=
  match xs with SXNil => [] | SXCons e rest => e :: item_exprs rest end.

(* the direct sub-expressions of a node: operands, the conditions and values of the arms of a case
   expression, the tested value and the items of a set membership *)
Definition children (e : sexpr) : list sexpr :=
  match e with
  | SEConst _ _ | SEWire _ _ => []
  | SEBin _ _ l r | SECat _ l r => [l; r]
  | SEUn _ _ e1 | SESlice _ e1 _ _ => [e1]
  | SEMux _ a => arm_exprs a
  | SEIn _ e1 xs => e1 :: item_exprs xs
  end.

(* all the nodes of a tree: the node itself and the nodes of its children *)
Fixpoint enodes (e : sexpr) : list sexpr :=
  e :: match e with
       | SEConst _ _ | SEWire _ _ => []
       | SEBin _ _ l r | SECat _ l r => enodes l ++ enodes r
       | SEUn _ _ e1 | SESlice _ e1 _ _ => enodes e1
       | SEMux _ a => anodes a
       | SEIn _ e1 xs => enodes e1 ++ xnodes xs
       end
with anodes (a : sarms) : list sexpr :=
  match a with SANil => [] | SACons c v rest => enodes c ++ enodes v ++ anodes rest end
with xnodes (xs : sexprs) : list sexpr :=
  match xs with SXNil => [] | SXCons e rest => enodes e ++ xnodes rest end.

(* the expressions a statement contains: constant values, assigned values, register defaults *)
Definition stmt_exprs (s : sstmt) : list sexpr :=
  match s with
  | SSConst d => map (fun x : sconst_decl => snd x) d
  | SSWire _ => []
  | SSAssign a => map (fun x : sassign => snd (fst x)) a
  | SSBank _ _ regs _ => map (fun r : sreg_decl => snd (fst r)) regs
  end.
Definition stmt_nodes (s : sstmt) : list sexpr := flat_map enodes (stmt_exprs s).

(* the spans a statement records beside those of its expressions: ConstDecl.name_span,
   WireDecl.span, Assignment.span and the span of each assigned name, RegisterBankDecl.span and
   .name_span, RegisterDecl.span *)
Definition stmt_own_spans (s : sstmt) : list srcspan :=
  match s with
  | SSConst d => map (fun x : sconst_decl => snd (fst x)) d
  | SSWire d => map (fun x : swire_decl => snd x) d
  | SSAssign a => flat_map (fun x : sassign => snd x :: map snd (fst (fst x))) a
  | SSBank _ nsp regs bsp => bsp :: nsp :: map (fun r : sreg_decl => snd r) regs
  end.

(* EVERY span recorded anywhere in a statement *)
Definition stmt_spans (s : sstmt) : list srcspan := stmt_own_spans s ++ map espan (stmt_nodes s).

(* ---- token sequences --------------------------------------------------------------------- *)
(* the tokens follow each other in the text: none is empty, none begins before the previous ends *)
Fixpoint tokens_from (pos : nat) (toks : list tok) : Prop :=
  match toks with
  | [] => True
  | t :: r => (pos <= tstart t)%nat /\ (tstart t < tend t)%nat /\ tokens_from (tend t) r
  end.
Definition tokens_ordered (toks : list tok) : Prop := tokens_from 0 toks.

(* a span that begins where the token number i begins and ends where the token number j >= i ends *)
Definition token_aligned (toks : list tok) (s : srcspan) : Prop :=
  exists i j ti tj, (i <= j)%nat /\ nth_error toks i = Some ti /\ nth_error toks j = Some tj /\
                    fst s = tstart ti /\ snd s = tend tj.

(* a inside b *)
Definition inside (a b : srcspan) : Prop := (fst b <= fst a)%nat /\ (snd a <= snd b)%nat.

(* the stretch of text from the first to the last token of a non-empty token sequence *)
Definition first_start (w : list tok) : nat := match w with t :: _ => tstart t | [] => O end.
Fixpoint last_end (w : list tok) : nat :=
  match w with [] => O | [t] => tend t | _ :: r => last_end r end.
Definition extent (w : list tok) : srcspan := (first_start w, last_end w).

(* the token sequence of a file: stray ";" - the tokens of statement 1 - ";"s (also the ";" that
   terminates statement 1) - the tokens of statement 2 - ... *)
Definition is_semi (t : tok) : Prop := tk t = TSemicolon.
Inductive layout : list tok -> list (list tok) -> Prop :=
| layout_end semis : Forall is_semi semis -> layout semis []
| layout_stmt semis seg rest segs :
    Forall is_semi semis -> seg <> [] -> layout rest segs -> layout (semis ++ seg ++ rest) (seg :: segs).

(* ====================================================================================== *)
(* (a) the spanned parser is the plain parser with spans added                            *)
(* ====================================================================================== *)
Definition stmt_erase_parse_sp : Prop :=
  forall tiers toks, option_map (map erase_stmt) (parse_sp tiers toks) = parse tiers toks.

Definition stmt_erase_parse_text_sp : Prop :=
  forall uc tiers bytes,
    option_map (map erase_stmt) (parse_text_sp uc tiers bytes) = parse_text uc tiers bytes.

(* ====================================================================================== *)
(* (b) spans begin and end at token boundaries                                            *)
(* ====================================================================================== *)
(* whatever the table and the tokens *)
Definition stmt_spans_token_aligned : Prop :=
  forall tiers toks stmts, parse_sp tiers toks = Some stmts ->
    forall s spn, In s stmts -> In spn (stmt_spans s) -> token_aligned toks spn.

(* what the lexer provides: the tokens of a text (those produced before the first lexical error,
   if there is one) follow each other, none is empty, all lie in the text *)
Definition stmt_lex_tokens_ordered : Prop :=
  forall uc text toks err, Forall scalar text -> lex uc (utf8 text) = (toks, err) ->
    tokens_ordered toks /\ forall t, In t toks -> (tend t <= List.length (utf8 text))%nat.

(* hence: a recorded span is a non-empty range of the text that begins with the first byte of a
   token and ends with the last byte of a token - it contains no blank space or comment before or
   after the construct *)
Definition stmt_spans_in_text : Prop :=
  forall uc tiers text stmts, Forall scalar text ->
    parse_text_sp uc tiers (utf8 text) = Some stmts ->
    exists toks, lex uc (utf8 text) = (toks, None) /\ tokens_ordered toks /\
      forall s spn, In s stmts -> In spn (stmt_spans s) ->
        token_aligned toks spn /\ (fst spn < snd spn)%nat /\ (snd spn <= List.length (utf8 text))%nat.

(* ====================================================================================== *)
(* (c) nesting                                                                            *)
(* ====================================================================================== *)
(* the parts of a statement:
   - an assignment: the value and every assigned name lie inside the assignment's span, the names
     before the value;
   - a register bank: its name and its register declarations lie inside the bank's span, the default
     value of a register inside that register's span;
   - a constant declaration: the name ends before the value begins *)
Definition stmt_parts_nested (s : sstmt) : Prop :=
  match s with
  | SSConst d => Forall (fun x : sconst_decl => (snd (snd (fst x)) <= fst (espan (snd x)))%nat) d
  | SSWire _ => True
  | SSAssign a =>
      Forall (fun x : sassign =>
                inside (espan (snd (fst x))) (snd x) /\
                Forall (fun nm : string * srcspan =>
                          inside (snd nm) (snd x) /\ (snd (snd nm) <= fst (espan (snd (fst x))))%nat)
                       (fst (fst x))) a
  | SSBank _ nsp regs bsp =>
      inside nsp bsp /\
      Forall (fun r : sreg_decl => inside (snd r) bsp /\ inside (espan (snd (fst r))) (snd r)) regs
  end.

(* for tokens that follow each other in the text (stmt_lex_tokens_ordered):
   1. the span of every child node lies inside the span of its parent;
   2. the parts of a statement are nested as described above;
   3. the token sequence is laid out as  ;* statement_1 ;* statement_2 ... ;*  (the terminating ";"
      is NOT part of a statement's stretch; the keyword "wire" / "const" / "register" is), and every
      span recorded in statement k runs between token boundaries of its own stretch - so it lies
      inside the extent (first token start, last token end) of that stretch *)
Definition stmt_spans_nested : Prop :=
  forall tiers toks stmts, tokens_ordered toks -> parse_sp tiers toks = Some stmts ->
    (forall s n ch, In s stmts -> In n (stmt_nodes s) -> In ch (children n) ->
        inside (espan ch) (espan n)) /\
    (forall s, In s stmts -> stmt_parts_nested s) /\
    exists segs, layout toks segs /\
      Forall2 (fun seg s => forall spn, In spn (stmt_spans s) ->
                              token_aligned seg spn /\ inside spn (extent seg)) segs stmts.

(* in particular the spans of different statements are disjoint and in text order: whatever is
   recorded in an earlier statement ends before anything recorded in a later statement begins *)
Definition stmt_statement_spans_disjoint : Prop :=
  forall tiers toks stmts, tokens_ordered toks -> parse_sp tiers toks = Some stmts ->
    forall i j si sj spi spj, (i < j)%nat ->
      nth_error stmts i = Some si -> nth_error stmts j = Some sj ->
      In spi (stmt_spans si) -> In spj (stmt_spans sj) -> (snd spi <= fst spj)%nat.

(* ====================================================================================== *)
(* (d) the user's statements have their spans in the user's text                          *)
(* ====================================================================================== *)
(* hclrs parses  preamble ++ user text.  If the preamble - a text that ends with a line feed - is
   lexed and parsed without error on its own, to k statements, then in the parse of the whole
   every statement after the first k has all its spans at or after the end of the preamble
   (and inside the text) *)
Definition stmt_user_spans_after_preamble : Prop :=
  forall uc tiers ptext utext pstmts stmts,
    Forall scalar (ptext ++ [10] ++ utext) ->
    parse_text_sp uc tiers (utf8 (ptext ++ [10])) = Some pstmts ->
    parse_text_sp uc tiers (utf8 ((ptext ++ [10]) ++ utext)) = Some stmts ->
    forall s spn, In s (skipn (List.length pstmts) stmts) -> In spn (stmt_spans s) ->
      (List.length (utf8 (ptext ++ [10%N])) <= fst spn)%nat /\ (fst spn < snd spn)%nat /\
      (snd spn <= List.length (utf8 (ptext ++ [10%N])) + List.length (utf8 utext))%nat.

(* ... and the first k statements are those of the preamble, with the same spans *)
Definition stmt_preamble_statements_unchanged : Prop :=
  forall uc tiers ptext utext pstmts stmts,
    Forall scalar (ptext ++ [10] ++ utext) ->
    parse_text_sp uc tiers (utf8 (ptext ++ [10])) = Some pstmts ->
    parse_text_sp uc tiers (utf8 ((ptext ++ [10]) ++ utext)) = Some stmts ->
    firstn (List.length pstmts - 1) stmts = firstn (List.length pstmts - 1) pstmts.

(* a refuted draft: "ALL k statements of the preamble are unchanged".  The last statement of a text
   may lack its ";" (y = 0; x = 1) and then continues into the user's text (+ 2;): only the first
   k - 1 statements are certainly unchanged (the compiled preamble ends with ";", so there all are) *)
Definition stmt_preamble_statements_unchanged_all : Prop :=
  forall uc tiers ptext utext pstmts stmts,
    Forall scalar (ptext ++ [10] ++ utext) ->
    parse_text_sp uc tiers (utf8 (ptext ++ [10])) = Some pstmts ->
    parse_text_sp uc tiers (utf8 ((ptext ++ [10]) ++ utext)) = Some stmts ->
    firstn (List.length pstmts) stmts = pstmts.

(* Composition with the renderer (RegionSpec.stmt_never_preamble in its proved form
   Props.C14.C14_never_preamble, and Props.C14.C14_locate_one_line): a diagnostic that underlines
   a span recorded in one of the user's statements
   - is headed "     -> <the user's file name>:", never "<builtin>", and
   - when the span lies on one line, is exactly the one-line region of RegionSpec: the user's file
     name, the 1-based number of that line counted in the user's text, the text of that line, and
     carets under exactly the span (column = bytes since the line start, count = length). *)
Definition stmt_user_span_rendered_in_user_file : Prop :=
  forall uc tiers ptext utext fname pstmts stmts,
    Forall scalar (ptext ++ [10] ++ utext) ->
    parse_text_sp uc tiers (utf8 (ptext ++ [10])) = Some pstmts ->
    parse_text_sp uc tiers (utf8 ((ptext ++ [10]) ++ utext)) = Some stmts ->
    let pre := utf8 (ptext ++ [10]) in
    let user := utf8 utext in
    let fc := new_from_data pre user fname in
    forall s spn, In s (skipn (List.length pstmts) stmts) -> In spn (stmt_spans s) ->
      (* the span, relative to the user's text *)
      exists us ue, fst spn = (List.length pre + us)%nat /\ snd spn = (List.length pre + ue)%nat /\
                    (us < ue)%nat /\ (ue <= List.length user)%nat /\
        (* the rendering exists and names the user's file *)
        (exists out, show_region fc (fst spn) (snd spn) = Some out /\
                     exists rest, out = RegionSpec.sp 5 ++ [45; 62; 32] ++ fname ++ [58] ++ rest) /\
        (* a span on one line: file, line number, line text, carets *)
        (count_lf (firstn (ue - us) (skipn us user)) = O ->
           show_region fc (fst spn) (snd spn) =
           Some (one_line_region fname (line_no user us) (line_text user us) (col_of user us) (ue - us))).

(* the same for the text hclrs really parses: the compiled preamble (LexLocSpec.preamble_bytes)
   followed by the user's file; the compiled preamble has [preamble_statement_count] statements *)
Definition preamble_statement_count : nat :=
  match parse_text_sp test_uclass doc_tiers preamble_bytes with Some l => List.length l | None => O end.

Definition stmt_user_span_rendered_in_user_file_gen : Prop :=
  forall uc utext fname stmts,
    Forall scalar utext ->
    parse_text_sp uc doc_tiers (preamble_bytes ++ utf8 utext) = Some stmts ->
    let user := utf8 utext in
    let fc := new_from_data preamble_bytes user fname in
    forall s spn, In s (skipn preamble_statement_count stmts) -> In spn (stmt_spans s) ->
      exists us ue, fst spn = (List.length preamble_bytes + us)%nat /\
                    snd spn = (List.length preamble_bytes + ue)%nat /\
                    (us < ue)%nat /\ (ue <= List.length user)%nat /\
        (exists out, show_region fc (fst spn) (snd spn) = Some out /\
                     exists rest, out = RegionSpec.sp 5 ++ [45; 62; 32] ++ fname ++ [58] ++ rest) /\
        (count_lf (firstn (ue - us) (skipn us user)) = O ->
           show_region fc (fst spn) (snd spn) =
           Some (one_line_region fname (line_no user us) (line_text user us) (col_of user us) (ue - us))).

(* ====================================================================================== *)
(* (e) a span is exactly the extent of its construct                                      *)
(* ====================================================================================== *)
(* (used in the proofs only) the table has no tier of unknown kind; with such a tier no expression
   is ever parsed, so the statements below need no hypothesis on the table *)
Definition tiers_ok (tiers : list tier) : Prop :=
  forall k ops, In (k, ops) tiers -> k <> KBad.

(* the tokens lying in the byte range [s, e) *)
Definition tokens_within (s e : nat) (toks : list tok) : list tok :=
  filter (fun t => Nat.leb s (tstart t) && Nat.leb (tend t) e) toks.

(* token level: the tokens inside the span of an expression node, alone, are parsed - as an
   expression, to the end - to that very node (same spans, hence same expression) *)
Definition stmt_span_is_extent_tokens : Prop :=
  forall tiers toks stmts, tokens_ordered toks -> parse_sp tiers toks = Some stmts ->
    forall s n, In s stmts -> In n (stmt_nodes s) ->
      exists fuel0, forall fuel, (fuel0 <= fuel)%nat ->
        exists ext,
          parse_expr_sp tiers fuel (tokens_within (fst (espan n)) (snd (espan n)) toks) = Some (n, ext, []).

(* text level: the bytes [s, e) of the span of an expression node are themselves a text (they begin
   and end on character boundaries); lexed on their own they give tokens - the first beginning at
   offset 0, the last ending at e - s: no blank or comment around - which are parsed, as an
   expression and to the end, to the node's expression *)
Definition stmt_span_is_extent : Prop :=
  forall uc tiers text stmts, Forall scalar text ->
    parse_text_sp uc tiers (utf8 text) = Some stmts ->
    forall s n, In s stmts -> In n (stmt_nodes s) ->
      let bytes := slice (utf8 text) (fst (espan n)) (snd (espan n)) in
      exists sub toks',
        bytes = utf8 sub /\ Forall scalar sub /\
        lex uc bytes = (toks', None) /\
        extent toks' = (O, (snd (espan n) - fst (espan n))%nat) /\
        exists fuel0, forall fuel, (fuel0 <= fuel)%nat ->
          parse_expr tiers fuel toks' = Some (erase_expr n, []).
