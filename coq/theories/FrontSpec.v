(* End-to-end statements across the model's front end: text -> tokens -> statements -> program,
   closing the hypotheses of C07 (grammar-well-formed statements) and stating C11's trivia claim. *)
From HclV Require Import Base Expr ExprSpec Machine Build Lexer Parser LexParseSpec
                         MachineSpec SchedSpec BuildSpec Generated.
Open Scope list_scope.
Open Scope N_scope.

(* ---- what lexer and grammar guarantee ------------------------------------------------------- *)
Definition token_wf (t : token) : Prop := match t with TLit v => fits v | _ => True end.

(* every literal token fits its width (unsized: below 2^128; binary: below 2^digits, <= 128 digits) *)
Definition stmt_lex_tokens_wf : Prop :=
  forall uc bytes toks err, lex uc bytes = (toks, err) -> Forall (fun t => token_wf (tk t)) toks.

(* every statement the parser produces is grammar-well-formed: literal, declared and slice widths
   are at most 128 *)
Definition stmt_parse_wf : Prop :=
  forall tiers toks stmts,
    Forall (fun t => token_wf (tk t)) toks -> parse tiers toks = Some stmts -> Forall wf_stmt stmts.

(* hence: ANY text the model front end accepts compiles to a well-typed program (C07's program_ok),
   whatever the features, the Unicode classification and the hash order *)
Definition stmt_text_to_program_ok : Prop :=
  forall uc tiers f is_lower is_upper text stmts p,
    parse_text uc tiers text = Some stmts ->
    build_program f gen_fixed is_lower is_upper stmts = Ok p ->
    exists G, program_ok f G p.

(* ---- trivia: comments, white space and line endings between tokens ------------------------- *)
(* a trivia item: one white-space character (ASCII blank, TAB, LF, VT, FF, CR), a '#' or '//'
   comment up to and including its line end (LF), or a '/*' ... '*/' comment whose body contains
   no '*/' *)
Definition ws_byte (b : N) : bool := ((9 <=? b) && (b <=? 13)) || (b =? 32).

Fixpoint no_star_slash (l : list N) : bool :=
  match l with
  | 42 :: ((47 :: _) as r) => false
  | _ :: r => no_star_slash r
  | [] => true
  end.

Inductive trivia_item : list N -> Prop :=
| TI_ws b : ws_byte b = true -> trivia_item [b]
| TI_hash body : forallb (fun b => negb (b =? 10) && negb (b =? 13) && (b <? 128)) body = true ->
                 trivia_item ([35] ++ body ++ [10])
| TI_slashes body : forallb (fun b => negb (b =? 10) && negb (b =? 13) && (b <? 128)) body = true ->
                    trivia_item ([47; 47] ++ body ++ [10])
| TI_block body : no_star_slash body = true -> forallb (fun b => b <? 128) body = true ->
                  (* the body must not end in '*' right before the closing star *)
                  trivia_item ([47; 42] ++ body ++ [42; 47]).

(* a trivia block: a white-space character followed by any trivia items *)
Inductive trivia_block : list N -> Prop :=
| TB_one b : ws_byte b = true -> trivia_block [b]
| TB_more t item : trivia_block t -> trivia_item item -> trivia_block (t ++ item).

Definition kinds_of (r : list tok * option lex_error) : list token * bool :=
  (map tk (fst r), match snd r with None => true | Some _ => false end).

(* replacing the single blank between two parts of an ASCII text by any trivia block leaves the
   token sequence (and whether lexing succeeds) unchanged *)
Definition stmt_trivia_irrelevant : Prop :=
  forall uc a b t,
    forallb (fun x => x <? 128) a = true -> forallb (fun x => x <? 128) b = true ->
    trivia_block t ->
    snd (lex uc (a ++ [32] ++ b)) = None ->
    kinds_of (lex uc (a ++ t ++ b)) = kinds_of (lex uc (a ++ [32] ++ b)).
