(* Model of the decision structure of main_real (src/main.rs): which of the things the user
   asked for happens, and with which exit status.  getopts, the file system, the front end, the
   loader and the simulator are abstracted to their outcomes. *)
From HclV Require Import Base.
Open Scope string_scope.
Open Scope N_scope.

Inductive hcl_kind := HclUnreadable | HclRejected | HclAccepted.
Inductive yo_kind := YoMissing | YoUnloadable | YoLoadable.
Inductive sim_kind := SimCompletes | SimAborts.      (* halt / error status / timeout  vs  run-time error *)

Record invocation := mkInv {
  i_opts_ok : bool;              (* getopts accepted the option syntax *)
  i_help : bool;
  i_version : bool;
  i_check : bool;
  i_free : list string;          (* positional arguments *)
  i_hcl : hcl_kind;              (* what free[0] turns out to be *)
  i_yo : yo_kind;                (* what free[1] turns out to be *)
  i_sim : sim_kind
}.

Inductive what :=
| PrintedUsage
| PrintedVersion
| SyntaxOK
| FinalState (timeout : N)       (* simulated with this cycle budget and printed the final state *)
| Message (why : string).        (* a message on standard error, nothing else *)

Definition digit_val (c : ascii) : option N :=
  let n := N_of_ascii c in if (48 <=? n) && (n <=? 57) then Some (n - 48) else None.

Fixpoint parse_digits (s : string) (acc : N) : option N :=
  match s with
  | EmptyString => Some acc
  | String c r => match digit_val c with Some d => parse_digits r (10 * acc + d) | None => None end
  end.

(* u32::from_str_radix(s, 10): an optional '+', at least one digit, value below 2^32 *)
Definition parse_u32 (s : string) : option N :=
  let body := match s with String "+"%char r => r | _ => s end in
  match body with
  | EmptyString => None
  | _ => match parse_digits body 0 with
         | Some v => if v <? 2 ^ 32 then Some v else None
         | None => None
         end
  end.

Fixpoint ends_with (suffix s : string) : bool :=
  if String.eqb suffix s then true
  else match s with EmptyString => false | String _ r => ends_with suffix r end.

Definition default_timeout : N := 9999.

(* (exit status, what happened) *)
Definition main_model (i : invocation) : N * what :=
  if negb (i_opts_ok i) then (1, Message "getopts")
  else if i_help i then (0, PrintedUsage)
  else if i_version i then (0, PrintedVersion)
  else match i_free i with
  | [] => (1, PrintedUsage)
  | hcl :: rest =>
      match i_hcl i with
      | HclUnreadable => (1, Message "Error reading")
      | _ =>
          if (3 <? N.of_nat (List.length (i_free i))) then (1, PrintedUsage)
          else match i_hcl i with
          | HclRejected => (1, Message "diagnostics")
          | _ =>
              if i_check i then (0, SyntaxOK)
              else match rest with
              | [] => (1, PrintedUsage)
              | yo :: rest2 =>
                  if negb (ends_with ".yo" yo) then (1, Message "extension")
                  else
                    match (match rest2 with
                           | [] => Some default_timeout
                           | t :: _ => parse_u32 t
                           end) with
                    | None => (1, Message "timeout")
                    | Some timeout =>
                        match i_yo i with
                        | YoMissing => (1, Message "open")
                        | YoUnloadable => (1, Message "load")
                        | YoLoadable =>
                            match i_sim i with
                            | SimAborts => (1, Message "simulation")
                            | SimCompletes => (0, FinalState timeout)
                            end
                        end
                    end
              end
          end
      end
  end.
