(* C18 / C12: the per-cycle debug table (-d) and the state dump's register banks, and their
   independence from the iteration order of the hash map that holds the wire values.

   In the Rust code the wire values of the running program are a `HashMap<String, WireValue>`
   whose iteration order changes from run to run.  The model presents it as an association
   list `vals : list (string * wval)` in ARBITRARY order with pairwise distinct keys
   (`NoDup (map fst vals)`); "another run of the same program" = a `Permutation` of that list.

   Statements only; proofs are in TableProofs.v. *)
From Coq Require Import Permutation Sorted.
From HclV Require Import Base Expr Machine MachineSpec Build.
Open Scope string_scope.
Open Scope N_scope.

(* ---- the order of the rows ------------------------------------------------------------------ *)
(* key_ltb is the comparator handed to sort_unstable_by: upper-cased names byte-wise, ties broken
   by the names themselves byte-wise *)
Definition key_before (a b : string) : Prop := key_ltb a b = true.
Definition upper (s : string) : string := map_string to_upper_ascii s.

Definition stmt_key_order_characterised : Prop :=
  forall a b, key_before a b <->
    string_ltb (upper a) (upper b) = true \/ (upper a = upper b /\ string_ltb a b = true).

(* it is a strict total order on names: in particular two DISTINCT names never compare equal
   (names differing only in case, "foo" / "FOO", are ordered by their bytes), so the sorted
   sequence does not depend on the order the keys came out of the hash map - and an unstable
   sort is as good as a stable one *)
Definition stmt_key_order_strict_total : Prop :=
  (forall a, ~ key_before a a) /\
  (forall a b c, key_before a b -> key_before b c -> key_before a c) /\
  (forall a b, a <> b -> key_before a b \/ key_before b a).

(* ---- what a (sub-)table looks like ------------------------------------------------------------ *)
(* the value a wire holds in this cycle *)
Definition val_of (vals : list (string * wval)) (k : string) : wval :=
  match lookup vals k with Some v => v | None => mkV 0 Unl end.

(* column widths: at least 15 / 22, else the longest listed name / widest listed value field *)
Definition name_col (ks : list string) : N := fold_right N.max 15 (map slen ks).
Definition value_col (vals : list (string * wval)) (ks : list string) : N :=
  fold_right N.max 22 (map (fun k => value_width_len (val_of vals k)) ks).

(* one row per listed key, in the order listed: Machine.table_row = name, padding, "0x" and the
   value in hexadecimal zero-padded to the digits its width needs (DumpSpec.stmt_table_value_field) *)
Definition rows_text (vals : list (string * wval)) (ks : list string) (mn mv : N) : string :=
  concat_strings (map (fun k => table_row k (val_of vals k) mn mv) ks).

Definition subtable_text (vals : list (string * wval)) (ks : list string) (label : string)
           (header : bool) : string :=
  match ks with
  | [] => ""
  | _ =>
      let mn := name_col ks in
      let mv := value_col vals ks in
      label ++ nl ++
      (if header then pad_right " "%char mn "Wire" ++ "  " ++ pad_left " "%char mv "Value" ++ nl else "") ++
      rows_text vals ks mn mv ++ nl
  end.

(* ks lists exactly the names satisfying P, each once, in table order *)
Definition rows_exactly (P : string -> Prop) (ks : list string) : Prop :=
  NoDup ks /\ (forall k, In k ks <-> P k) /\ StronglySorted key_before ks.

(* ... which determines ks *)
Definition stmt_rows_exactly_unique : Prop :=
  forall P ks ks', rows_exactly P ks -> rows_exactly P ks' -> ks = ks'.

(* ---- which wires get a row --------------------------------------------------------------------- *)
(* A wire is a candidate when it holds a value in this cycle (it is a key of the value map: the
   constants, every register-bank signal, every wire the program assigns and the output of every
   built-in component that is active, i.e. scheduled) and it is not one of the bank control
   signals stall_X / bubble_X the program left at their default (`defaulted_wires`). *)
Definition candidate (p : program) (vals : list (string * wval)) (k : string) : Prop :=
  lookup vals k <> None /\ ~ In k (p_defaulted p).

(* the four sub-tables of the grouped form; constants have no kind: they are never listed *)
Inductive wire_kind := KBuiltinIn | KBuiltinOut | KBank | KOther.
Definition kind_of (p : program) (k : string) : option wire_kind :=
  match type_of p k with
  | TConstant => None
  | TBuiltinInput => Some KBuiltinIn
  | TBuiltinOutput => Some KBuiltinOut
  | TRegisterBankInput | TRegisterBankOutput | TRegisterBankSpecial => Some KBank
  | TNormal => Some KOther
  end.

Definition grouped_table (p : program) (vals : list (string * wval)) (text : string) : Prop :=
  exists k1 k2 k3 k4,
    rows_exactly (fun k => candidate p vals k /\ kind_of p k = Some KBuiltinIn) k1 /\
    rows_exactly (fun k => candidate p vals k /\ kind_of p k = Some KBuiltinOut) k2 /\
    rows_exactly (fun k => candidate p vals k /\ kind_of p k = Some KBank) k3 /\
    rows_exactly (fun k => candidate p vals k /\ kind_of p k = Some KOther) k4 /\
    text = nl ++ subtable_text vals k1 "Values of inputs to built-in components:" false ++
                 subtable_text vals k2 "Values of outputs of built-in components:" false ++
                 subtable_text vals k3 "Values of register bank signals:" false ++
                 subtable_text vals k4 "Values of other wires:" false.

(* the ungrouped form (--no-group... option): one table; "constant" is decided by membership in
   the program's constant table instead of by the recorded wire type *)
Definition ungrouped_table (p : program) (vals : list (string * wval)) (text : string) : Prop :=
  exists ks,
    rows_exactly (fun k => candidate p vals k /\ has (p_consts p) k = false) ks /\
    text = subtable_text vals ks "Values of wires:" true.

(* C18: the table lists every candidate wire that is not a constant exactly once, with the value
   it holds, and nothing else *)
Definition stmt_table_lists_each_once : Prop :=
  forall o p vals text,
    NoDup (map fst vals) -> dump_values o p vals = Ok text ->
    if o_group_wire_values o then grouped_table p vals text else ungrouped_table p vals text.

(* printing the table cannot fail (no `unwrap` on a missing wire), whatever the map holds *)
Definition stmt_table_total : Prop :=
  forall o p vals, exists text, dump_values o p vals = Ok text.

(* the two notions of "constant" agree when the recorded wire types mark exactly the constants;
   then both forms list the same wires *)
Definition types_mark_consts (p : program) : Prop :=
  forall k, has (p_consts p) k = true <-> type_of p k = TConstant.

(* ... which is the case for every program Program::new accepts *)
Definition stmt_built_types_mark_consts : Prop :=
  forall f fixed is_lower is_upper stmts p,
    build_program f fixed is_lower is_upper stmts = Ok p -> types_mark_consts p.

Definition stmt_table_same_wires_both_forms : Prop :=
  forall p vals ks k1 k2 k3 k4,
    types_mark_consts p ->
    rows_exactly (fun k => candidate p vals k /\ has (p_consts p) k = false) ks ->
    rows_exactly (fun k => candidate p vals k /\ kind_of p k = Some KBuiltinIn) k1 ->
    rows_exactly (fun k => candidate p vals k /\ kind_of p k = Some KBuiltinOut) k2 ->
    rows_exactly (fun k => candidate p vals k /\ kind_of p k = Some KBank) k3 ->
    rows_exactly (fun k => candidate p vals k /\ kind_of p k = Some KOther) k4 ->
    Permutation ks (k1 ++ k2 ++ k3 ++ k4).

(* ---- C12: independence from the hash map's iteration order ------------------------------------ *)
(* the same map enumerated in another order: the same text (or the same failure) *)
Definition stmt_table_order_free : Prop :=
  forall o p vals vals',
    NoDup (map fst vals) -> Permutation vals vals' ->
    dump_values o p vals = dump_values o p vals'.

(* sorting erases the order of its input: the fact behind it *)
Definition stmt_sort_order_free : Prop :=
  forall l l', Permutation l l' -> sort_strings key_ltb l = sort_strings key_ltb l'.

(* the register-bank part of the state dump reads the map by key only *)
Definition stmt_bank_dump_order_free : Prop :=
  forall vals vals' banks,
    (forall k, lookup vals k = lookup vals' k) ->
    dump_custom_registers vals banks = dump_custom_registers vals' banks.

Definition stmt_lookup_perm : Prop :=
  forall (vals vals' : list (string * wval)),
    NoDup (map fst vals) -> Permutation vals vals' -> forall k, lookup vals k = lookup vals' k.

(* ---- C16: the register-bank section lists every declared bank ------------------------------- *)
(* the banks with output letter l, in declaration order *)
Definition banks_of_letter (banks : list bank) (l : string) : list bank :=
  filter (fun b => String.eqb (bank_letter b) l) banks.

(* the letters other than P F D E M W that occur, each once, in strict byte order *)
Definition other_letters (banks : list bank) (ls : list string) : Prop :=
  NoDup ls /\ StronglySorted (fun a b => string_ltb a b = true) ls /\
  forall l, In l ls <-> In l (map bank_letter banks) /\ ~ In l fixed_letters.

(* the order in which the banks are dumped: the banks of letter P, then F, D, E, M, W, then the
   banks of the remaining letters, letters in strict byte order; declaration order is kept among
   the banks of one letter *)
Definition canonical_bank_order (banks order : list bank) : Prop :=
  exists others, other_letters banks others /\
                 order = flat_map (banks_of_letter banks) (fixed_letters ++ others)%list.

(* this determines the order, and it exists *)
Definition stmt_canonical_bank_order_unique : Prop :=
  forall banks, exists order, canonical_bank_order banks order /\
                              forall order', canonical_bank_order banks order' -> order' = order.

(* it lists every declared bank exactly once and invents none *)
Definition stmt_canonical_bank_order_perm : Prop :=
  forall banks order, canonical_bank_order banks order -> Permutation order banks.

(* dumping a list of banks = concatenating their dumps; it fails iff one of them fails *)
Definition stmt_dump_bank_list_concat : Prop :=
  forall vals bs text,
    dump_bank_list vals bs = Ok text <->
    exists texts, Forall2 (fun b t => dump_bank vals b = Ok t) bs texts /\ text = concat_strings texts.

(* the register-bank section is the dump of the banks in canonical order - the same text, or
   the same failure *)
Definition stmt_bank_dump_lists_every_bank : Prop :=
  forall vals banks order,
    canonical_bank_order banks order ->
    dump_custom_registers vals banks = dump_bank_list vals order.

(* the form asked for: a successful dump is the dump of a permutation of the declared banks,
   namely the canonical one *)
Definition stmt_bank_dump_lists_every_bank_ok : Prop :=
  forall vals banks text,
    dump_custom_registers vals banks = Ok text ->
    exists order, canonical_bank_order banks order /\ Permutation order banks /\
                  dump_bank_list vals order = Ok text.

(* the section can only fail when some declared bank cannot be dumped (its stall, bubble or an
   output wire has no value) *)
Definition stmt_bank_dump_fails_iff : Prop :=
  forall vals banks,
    (exists es, dump_custom_registers vals banks = Err es) <->
    (exists b es, In b banks /\ dump_bank vals b = Err es).

(* the order of the bank declarations matters only among banks that share a letter ... *)
Definition stmt_bank_dump_decl_order_free : Prop :=
  forall vals banks banks',
    (forall l, banks_of_letter banks l = banks_of_letter banks' l) ->
    dump_custom_registers vals banks = dump_custom_registers vals banks'.

(* ... in particular not at all when the letters are distinct *)
Definition stmt_bank_dump_distinct_letters_order_free : Prop :=
  forall vals banks banks',
    NoDup (map bank_letter banks) -> Permutation banks banks' ->
    dump_custom_registers vals banks = dump_custom_registers vals banks'.

(* ---- C12, whole cycle / whole run ------------------------------------------------------------- *)
(* two machine states that differ only in the enumeration order of the value map *)
Definition same_state (s s' : mstate) : Prop :=
  Permutation (values s) (values s') /\ mem s = mem s' /\ regs s = regs s' /\
  last_status s = last_status s' /\ cycle s = cycle s'.

Definition same_outcome (r r' : result (mstate * string)) : Prop :=
  match r, r' with
  | Ok (s1, t1), Ok (s2, t2) => same_state s1 s2 /\ NoDup (map fst (values s1)) /\ t1 = t2
  | Err e1, Err e2 => e1 = e2
  | _, _ => False
  end.

(* one cycle under any options: the same text, and again states differing only in order *)
Definition stmt_step_order_free : Prop :=
  forall f o p s s',
    NoDup (map fst (values s)) -> same_state s s' ->
    same_outcome (step f o p s) (step f o p s').

(* a whole run: byte-identical output *)
Definition stmt_run_order_free : Prop :=
  forall fuel f o p s s',
    NoDup (map fst (values s)) -> same_state s s' ->
    same_outcome (run fuel f o p s) (run fuel f o p s').

(* the initial map has distinct keys when the constant table has *)
Definition stmt_initial_keys_distinct : Prop :=
  forall p s, NoDup (map fst (p_consts p)) -> initial_state p = Ok s -> NoDup (map fst (values s)).

(* ---- C18: the candidates, in the program's own terms ------------------------------------------- *)
(* every signal of every register bank: the inputs x_r, the outputs X_r, bubble_X and stall_X *)
Definition bank_signal_names (banks : list bank) : list string :=
  flat_map (fun b => (flat_map (fun sg => [fst (fst sg); snd (fst sg)]) (b_signals b) ++
                      [b_bubble b; b_stall b])%list) banks.
(* every wire some scheduled action sets: the wires the program assigns (AAssign) and the output
   of every built-in component that is active (AReadReg, AReadMemory) *)
Definition written_names (acts : list action) : list string :=
  flat_map (fun a => match written a with Some w => [w] | None => [] end) acts.

(* what holds of the value map at the start of every cycle: it has the constants and the bank
   signals, and nothing but those and wires set in an earlier cycle *)
Definition keys_inv (p : program) (s : mstate) : Prop :=
  (forall k, In k (map fst (p_consts p)) \/ In k (bank_signal_names (p_banks p)) ->
             In k (map fst (values s))) /\
  (forall k, In k (map fst (values s)) ->
             In k (map fst (p_consts p)) \/ In k (bank_signal_names (p_banks p)) \/
             In k (written_names (p_actions p))).

Definition stmt_keys_inv_initial : Prop :=
  forall p s, initial_state p = Ok s -> keys_inv p s.
Definition stmt_keys_inv_step : Prop :=
  forall f o p s s' t, keys_inv p s -> step f o p s = Ok (s', t) -> keys_inv p s'.

(* when the table of a cycle is printed (after the cycle's actions) the candidates are: every
   assigned wire, every active built-in output, every bank signal - and the constants, which the
   table then leaves out - except the defaulted bank control signals *)
Definition stmt_cycle_candidates : Prop :=
  forall f o p s s1 t,
    keys_inv p s -> exec_actions f o (p_actions p) s = Ok (s1, t) ->
    forall k, candidate p (values s1) k <->
              (In k (written_names (p_actions p)) \/ In k (bank_signal_names (p_banks p)) \/
               In k (map fst (p_consts p))) /\ ~ In k (p_defaulted p).

(* the text of a cycle = the trace lines of its actions followed by that table *)
Definition stmt_step_prints_table : Prop :=
  forall f o p s s' text,
    step f o p s = Ok (s', text) ->
    exists s1 t tbl,
      exec_actions f o (p_actions p) s = Ok (s1, t) /\
      (if o_show_wire_values o then dump_values o p (values s1) = Ok tbl else tbl = "") /\
      text = t ++ tbl.

(* distinct keys are kept by a cycle *)
Definition stmt_step_keys_distinct : Prop :=
  forall f o p s s' t,
    NoDup (map fst (values s)) -> step f o p s = Ok (s', t) -> NoDup (map fst (values s')).
