(* Standard error of the composed tool (ToolErr.v): proofs of the statements of ToolErrSpec.v. *)
From Coq Require Import Permutation ZifyBool ZifyNat ZifyN.
From HclV Require Import Base Expr ExprSpec Machine MachineSpec MachineProofs TableSpec TableProofs
                         Build BuildSpec BuildProofs Yo YoSpec Region RegionSpec RegionProofs Lexer Parser LexParseSpec TriviaSpec
                         LexLocSpec Generated Cli CliArgs CliArgsSpec CliArgsProofs
                         Diag DiagSpec DiagProofs FullDiag FullDiagSpec FullDiagProofs FrontWfSpec FrontWfProofs
                         Tool ToolSpec ToolProofs ToolErr ToolErrSpec.
Open Scope string_scope.
Open Scope N_scope.

(* ====================================================================================== *)
(* Part 1: getopts                                                                          *)
(* ====================================================================================== *)
Lemma cluster_fail_iff s : cluster s = None <-> exists f, cluster_fail s = Some f.
Proof.
  induction s as [|c r IH]; cbn [cluster cluster_fail].
  - split; [discriminate | intros [f H]; discriminate H].
  - destruct (short_flag c) as [g|]; [|split; [intros _; eexists; reflexivity | reflexivity]].
    destruct (cluster r) as [fs|].
    + split; [discriminate|]. intros H. apply IH in H. discriminate H.
    + split; [intros _; apply IH; reflexivity | reflexivity].
Qed.

Lemma arg_fail_iff a : classify a = Bad <-> exists f, arg_fail a = Some f.
Proof.
  unfold classify, arg_fail. destruct a as [|c0 [|c r]].
  - split; [discriminate | intros [f H]; discriminate H].
  - split; [discriminate | intros [f H]; discriminate H].
  - destruct (Ascii.eqb c0 "-"%char); cbn [negb]; [|split; [discriminate | intros [f H]; discriminate H]].
    destruct (Ascii.eqb c "-"%char).
    + destruct r as [|c2 r2]; [split; [discriminate | intros [f H]; discriminate H]|].
      destruct (split_at_eq (String c2 r2)) as [name value].
      destruct (long_flag name) as [g|]; [|split; [intros _; eexists; reflexivity | reflexivity]].
      destruct value; [split; [intros _; eexists; reflexivity | reflexivity]|].
      split; [discriminate | intros [f H]; discriminate H].
    + pose proof (cluster_fail_iff (String c r)) as CF.
      destruct (cluster (String c r)) as [fs|].
      * split; [discriminate|]. intros H. apply CF in H. discriminate H.
      * split; [intros _; apply CF; reflexivity | reflexivity].
Qed.

Lemma scan_fail_iff args : collect args = None <-> exists f, scan_fail args = Some f.
Proof.
  induction args as [|a rest IH]; cbn [collect scan_fail].
  - split; [discriminate | intros [f H]; discriminate H].
  - destruct (classify a) eqn:Ec.
    + destruct (collect rest) as [[fs free]|].
      * split; [discriminate|]. intros H. apply IH in H. discriminate H.
      * split; [intros _; apply IH; reflexivity | reflexivity].
    + split; [discriminate | intros [f H]; discriminate H].
    + destruct (collect rest) as [[fs' free]|].
      * split; [discriminate|]. intros H. apply IH in H. discriminate H.
      * split; [intros _; apply IH; reflexivity | reflexivity].
    + split; [intros _; apply arg_fail_iff; exact Ec | reflexivity].
Qed.

Lemma in_all_flags f : In f all_flags.
Proof. destruct f; cbn; tauto. Qed.

Lemma occurs_twice_iff fs : no_repeat fs = false <-> exists f, occurs_twice f fs = true.
Proof.
  induction fs as [|g r IH]; cbn [no_repeat occurs_twice].
  - split; [discriminate | intros [f H]; discriminate H].
  - split.
    + intros H. apply andb_false_iff in H. destruct H as [H|H].
      * exists g. apply negb_false_iff in H. rewrite H.
        assert (E : flag_eqb g g = true) by (apply flag_eqb_eq; reflexivity). rewrite E. reflexivity.
      * apply IH in H. destruct H as [f H]. exists f. rewrite H. apply orb_true_r.
    + intros [f H]. apply orb_true_iff in H. apply andb_false_iff. destruct H as [H|H].
      * apply andb_true_iff in H. destruct H as [H1 H2]. apply flag_eqb_eq in H1. subst g.
        left. rewrite H2. reflexivity.
      * right. apply IH. exists f. exact H.
Qed.

Lemma duplicate_fail_iff fs : no_repeat fs = false <-> exists f, duplicate_fail fs = Some f.
Proof.
  unfold duplicate_fail. rewrite occurs_twice_iff. split.
  - intros [f H]. destruct (find (fun f0 => occurs_twice f0 fs) all_flags) as [g|] eqn:E; [eexists; reflexivity|].
    exfalso. pose proof (find_none _ _ E f (in_all_flags f)) as N. cbn beta in N. congruence.
  - intros [x H]. destruct (find (fun f0 => occurs_twice f0 fs) all_flags) as [g|] eqn:E; [|discriminate H].
    apply find_some in E. exists g. exact (proj2 E).
Qed.

Theorem getopts_fail_iff_holds : stmt_getopts_fail_iff.
Proof.
  intros args. unfold parse_argv, getopts_fail.
  pose proof (scan_fail_iff args) as S.
  destruct (collect args) as [[fs free]|].
  - destruct (scan_fail args) as [f|].
    + discriminate (proj2 S (ex_intro _ f eq_refl)).
    + pose proof (duplicate_fail_iff fs) as D. destruct (no_repeat fs).
      * split; [discriminate|]. intros H. apply D in H. discriminate H.
      * split; [intros _; apply D; reflexivity | reflexivity].
  - destruct (proj1 S eq_refl) as [f ->]. split; [intros _; eexists; reflexivity | reflexivity].
Qed.

Lemma passes_classify a : passes a -> classify a = Positional \/ exists fs, classify a = Flags fs.
Proof.
  intros [H|[fs H]].
  - left. apply classify_positional, looks_like_option_positional. exact H.
  - right. exists fs. apply classify_flags. exact H.
Qed.

Lemma scan_fail_app pre rest : Forall passes pre -> scan_fail (pre ++ rest) = scan_fail rest.
Proof.
  induction 1 as [|a pre Ha _ IH]; [reflexivity|]. cbn [app scan_fail].
  destruct (passes_classify a Ha) as [->|[fs ->]]; exact IH.
Qed.

Lemma collect_app_passes pre rest : Forall passes pre -> collect (pre ++ rest) = None <-> collect rest = None.
Proof.
  intros H. rewrite !scan_fail_iff, (scan_fail_app pre rest H). reflexivity.
Qed.

Lemma getopts_fail_at pre a post f :
  Forall passes pre -> classify a = Bad -> arg_fail a = Some f -> getopts_fail (pre ++ a :: post) = Some f.
Proof.
  intros Hp Hc Hf. unfold getopts_fail. rewrite (scan_fail_app pre _ Hp). cbn [scan_fail]. rewrite Hc, Hf. reflexivity.
Qed.

Lemma split_at_eq_plain name : no_equals name -> split_at_eq name = (name, None).
Proof.
  unfold no_equals. induction name as [|c r IH]; cbn [split_at_eq list_ascii_of_string]; intros H; [reflexivity|].
  destruct (Ascii.eqb c "="%char) eqn:E.
  - exfalso. apply H. apply Ascii.eqb_eq in E. cbn [In]. left. exact E.
  - rewrite IH; [reflexivity|]. intros Hin. apply H. right. exact Hin.
Qed.

Lemma split_at_eq_valued name v : no_equals name -> split_at_eq (name ++ "=" ++ v) = (name, Some v).
Proof.
  unfold no_equals. induction name as [|c r IH]; cbn [split_at_eq list_ascii_of_string append]; intros H.
  - reflexivity.
  - destruct (Ascii.eqb c "="%char) eqn:E.
    + exfalso. apply H. apply Ascii.eqb_eq in E. cbn [In]. left. exact E.
    + change (r ++ String "=" v) with (r ++ "=" ++ v). rewrite IH; [reflexivity|]. intros Hin. apply H. right. exact Hin.
Qed.

Lemma unknown_long_flag name : unknown_name name -> long_flag name = None.
Proof.
  intros U. destruct (long_flag name) as [f|] eqn:E; [|reflexivity]. exfalso.
  apply long_flag_iff in E. destruct (U f) as [U1 U2]. destruct E as [E|[c [Hc E]]]; [exact (U1 E) | exact (U2 c Hc E)].
Qed.

Lemma known_long_flag name : known_name name -> exists f, long_flag name = Some f.
Proof. intros [f H]. exists f. apply long_flag_iff. exact H. Qed.

Lemma known_no_equals name : known_name name -> no_equals name.
Proof.
  intros [f [->|[c [Hc ->]]]]; unfold no_equals.
  - destruct f; cbn; intros H; repeat (destruct H as [H|H]; [discriminate H|]); exact H.
  - destruct f; cbn [short_name] in Hc; inversion Hc; subst c; cbn; intros [H|[]]; discriminate H.
Qed.

(* classify and arg_fail on "--" ++ r for a non-empty r *)
Lemma long_form r name value :
  r <> "" -> split_at_eq r = (name, value) ->
  classify ("--" ++ r) = match long_flag name with
                         | None => Bad
                         | Some f => match value with Some _ => Bad | None => Flags [f] end
                         end /\
  arg_fail ("--" ++ r) = match long_flag name with
                         | None => Some (UnrecognizedOption name)
                         | Some _ => match value with Some _ => Some (UnexpectedArgument name) | None => None end
                         end.
Proof.
  intros Hr Hs. destruct r as [|c r']; [contradiction|].
  cbn [append classify arg_fail Ascii.eqb Bool.eqb negb]. rewrite Hs. split; reflexivity.
Qed.

Lemma cluster_fail_letters letters c rest :
  Forall (fun l => exists f, short_name f = Some l) letters -> (forall f, short_name f <> Some c) ->
  cluster_fail (string_of_list_ascii letters ++ String c rest) = Some (UnrecognizedOption (head_char (String c rest))).
Proof.
  intros HL Hc. induction HL as [|l letters [f Hf] _ IH]; cbn [string_of_list_ascii append cluster_fail].
  - destruct (short_flag c) as [g|] eqn:E; [|reflexivity].
    apply short_flag_iff in E. exfalso. exact (Hc g E).
  - apply short_flag_iff in Hf. rewrite Hf. exact IH.
Qed.

Lemma cluster_form tail c0 :
  (exists c r, tail = String c r /\ Ascii.eqb c "-"%char = false) -> c0 = "-"%char ->
  classify (String c0 tail) = match cluster tail with Some fs => Flags fs | None => Bad end /\
  arg_fail (String c0 tail) = cluster_fail tail.
Proof.
  intros [c [r [-> Hd]]] ->. cbn [classify arg_fail Ascii.eqb Bool.eqb negb]. rewrite Hd. split; reflexivity.
Qed.

Lemma occurs_twice_count f fs :
  has_flag f fs = (1 <=? occurrences f fs)%nat /\ occurs_twice f fs = (2 <=? occurrences f fs)%nat.
Proof.
  unfold occurrences, has_flag. induction fs as [|g r [IH1 IH2]]; cbn [existsb occurs_twice filter List.length]; [split; reflexivity|].
  fold (has_flag f r). unfold has_flag. rewrite IH1, IH2.
  destruct (flag_eqb f g); cbn [List.length andb orb]; split; lia.
Qed.

Lemma find_first {A} (p : A -> bool) before x after :
  (forall g, In g before -> p g = false) -> p x = true -> find p (before ++ x :: after) = Some x.
Proof.
  intros Hb Hx. induction before as [|b before IH]; cbn [app find].
  - rewrite Hx. reflexivity.
  - rewrite (Hb b (or_introl eq_refl)). apply IH. intros g Hg. apply Hb. right. exact Hg.
Qed.

Theorem getopts_fail_kinds_holds : stmt_getopts_fail_kinds.
Proof.
  split; [|split; [|split; [|split]]].
  - intros pre name post Hp Hne Heq Hu.
    destruct (long_form name name None Hne (split_at_eq_plain name Heq)) as [C A].
    rewrite (unknown_long_flag name Hu) in C, A. apply (getopts_fail_at pre _ post _ Hp C A).
  - intros pre name v post Hp Heq Hu.
    assert (Hne : name ++ "=" ++ v <> "") by (destruct name; discriminate).
    destruct (long_form _ name (Some v) Hne (split_at_eq_valued name v Heq)) as [C A].
    rewrite (unknown_long_flag name Hu) in C, A. apply (getopts_fail_at pre _ post _ Hp C A).
  - intros pre name v post Hp Hk.
    assert (Hne : name ++ "=" ++ v <> "") by (destruct name; discriminate).
    destruct (long_form _ name (Some v) Hne (split_at_eq_valued name v (known_no_equals name Hk))) as [C A].
    destruct (known_long_flag name Hk) as [f Hf]. rewrite Hf in C, A. apply (getopts_fail_at pre _ post _ Hp C A).
  - intros pre letters c rest post Hp HL Hc Hd.
    set (tail := string_of_list_ascii letters ++ String c rest).
    assert (Ht : exists c1 r1, tail = String c1 r1 /\ Ascii.eqb c1 "-"%char = false).
    { unfold tail. destruct letters as [|l letters'].
      - exists c, rest. split; [reflexivity|]. apply Ascii.eqb_neq. apply Hd. reflexivity.
      - inversion HL as [|? ? [f Hf] _]; subst. eexists l, _. split; [reflexivity|].
        apply (short_name_not_dash f l Hf). }
    destruct (cluster_form tail "-"%char Ht eq_refl) as [C A].
    pose proof (cluster_fail_letters letters c rest HL Hc) as CF. fold tail in CF. rewrite CF in A.
    assert (Cn : cluster tail = None) by (apply cluster_fail_iff; eexists; exact CF).
    rewrite Cn in C. apply (getopts_fail_at pre _ post _ Hp C A).
  - intros args fs ps f Hr [before [after [Hall [H2 Hb]]]].
    apply collect_reads in Hr. unfold getopts_fail.
    destruct (scan_fail args) as [x|] eqn:Es.
    { assert (Hn : collect args = None) by (apply scan_fail_iff; eexists; exact Es). congruence. }
    rewrite Hr. unfold duplicate_fail. rewrite Hall.
    rewrite (find_first (fun g => occurs_twice g fs) before f after); [reflexivity| |].
    + intros g Hg. rewrite (proj2 (occurs_twice_count g fs)). specialize (Hb g Hg). lia.
    + rewrite (proj2 (occurs_twice_count f fs)). lia.
Qed.

(* instances *)
Example ex_getopts_fail :
  getopts_fail ["-x"] = Some (UnrecognizedOption "x") /\
  getopts_fail ["-dxq"; "f.hcl"] = Some (UnrecognizedOption "x") /\
  getopts_fail ["f.hcl"; "--bogus=1"; "-x"] = Some (UnrecognizedOption "bogus") /\
  getopts_fail ["--debug=1"] = Some (UnexpectedArgument "debug") /\
  getopts_fail ["--d="] = Some (UnexpectedArgument "d") /\
  getopts_fail ["--="] = Some (UnrecognizedOption "") /\
  getopts_fail ["---"] = Some (UnrecognizedOption "-") /\
  getopts_fail ["-d=1"] = Some (UnrecognizedOption "=") /\
  getopts_fail ["-q"; "-c"; "--quiet"; "--c"] = Some (OptionDuplicated "check") /\
  getopts_fail ["-dd"] = Some (OptionDuplicated "debug") /\
  getopts_fail ["-q"; "-q"; "--bogus"] = Some (UnrecognizedOption "bogus") /\
  getopts_fail ["--"; "-x"] = None /\ getopts_fail ["-x"; "--"] = Some (UnrecognizedOption "x") /\
  getopts_fail ["-dqti"; "--check"; "f"; "--version"; "-h"] = None.
Proof. vm_compute. repeat split; reflexivity. Qed.

(* a letter that is not ASCII: the whole character is named (here U+00E9, two bytes) *)
Example ex_getopts_fail_utf8 :
  getopts_fail [String "-" (String "d" (String (ascii_of_N 195) (String (ascii_of_N 169) "q")))]
  = Some (UnrecognizedOption (String (ascii_of_N 195) (String (ascii_of_N 169) ""))).
Proof. vm_compute. reflexivity. Qed.

Example ex_first_repeated : first_repeated FCheck [FQuiet; FCheck; FQuiet; FCheck].
Proof. exists [], [FDebug; FQuiet; FTesting; FHelp; FInteractive; FUngroup; FTrace; FVersion].
  split; [reflexivity|]. split; [cbn; lia | intros g []]. Qed.

(* ====================================================================================== *)
(* Part 2: the errors of run_y86                                                            *)
(* ====================================================================================== *)
Definition load_fold (om : option memory) (l : list N) : option memory :=
  match om with Some m0 => load_line m0 l | None => None end.

Lemma first_unparseable_some m : forall lines l,
  first_unparseable m lines = Some l ->
  exists before after m', lines = (before ++ l :: after)%list /\ fold_left load_fold before (Some m) = Some m' /\
                          load_line m' l = None.
Proof.
  intros lines. revert m. induction lines as [|x r IH]; intros m l H; cbn [first_unparseable] in H; [discriminate H|].
  destruct (load_line m x) as [m1|] eqn:E.
  - destruct (IH m1 l H) as [before [after [m' [-> [Hf Hl]]]]].
    exists (x :: before), after, m'. split; [reflexivity|]. split; [|exact Hl].
    cbn [fold_left load_fold]. rewrite E. exact Hf.
  - injection H as <-. exists [], r, m. repeat split. exact E.
Qed.

Lemma load_lines_first m : forall lines,
  match load_lines m lines with
  | Ok _ => first_unparseable m lines = None
  | Err es => es = [mkErr UnparseableLine []] /\ exists l, first_unparseable m lines = Some l
  end.
Proof.
  intros lines. revert m. induction lines as [|x r IH]; intros m; cbn [load_lines first_unparseable]; [reflexivity|].
  destruct (load_line m x) as [m1|]; [apply IH|]. split; [reflexivity | eexists; reflexivity].
Qed.

Lemma load_error_spec m data :
  match load_from_y86 m data with
  | Ok _ => load_error m data = None
  | Err _ =>
      (split_lines data [] = [] /\ load_error m data = Some REmptyFile) \/
      (exists l before after m',
         load_error m data = Some (RUnparseableLine (string_of_bytes l)) /\
         split_lines data [] = (before ++ l :: after)%list /\
         fold_left load_fold before (Some m) = Some m' /\ load_line m' l = None)
  end.
Proof.
  unfold load_from_y86, load_error. destruct (split_lines data []) as [|x r] eqn:E.
  - left. split; reflexivity.
  - pose proof (load_lines_first m (x :: r)) as L.
    destruct (load_lines m (x :: r)) as [m1|es].
    + rewrite L. reflexivity.
    + destruct L as [_ [l Hl]]. right. rewrite Hl.
      destruct (first_unparseable_some m _ l Hl) as [before [after [m' [Hs [Hf Hn]]]]].
      exists l, before, after, m'. repeat split; assumption.
Qed.

(* ---- the fixed texts -------------------------------------------------------------------------- *)
Lemma format_text fc (e : rerror) (m : string) :
  render_parts test_uclass fc e = Some [Msg m] -> format_for_contents fc e = Some m.
Proof.
  intros H. unfold format_for_contents. cbn [render_all]. unfold render_one. rewrite H.
  cbn [parts_text]. rewrite !sapp_nil_r. reflexivity.
Qed.

Lemma format_io fc : format_for_contents fc RIoError = Some io_error_text.
Proof. apply format_text. reflexivity. Qed.
Lemma format_empty fc : format_for_contents fc REmptyFile = Some empty_file_text.
Proof. apply format_text. reflexivity. Qed.
Lemma format_division fc : format_for_contents fc RDivisionByZero = Some division_text.
Proof. apply format_text. reflexivity. Qed.
Lemma format_unparseable fc line :
  format_for_contents fc (RUnparseableLine line) = Some (error_text ("Could not parse '" ++ line ++ "' in .yo file.")).
Proof. apply format_text. reflexivity. Qed.

(* a message without line feed is one line *)
Lemma split_lines_no_lf : forall data cur, ~ In 10 data ->
  split_lines data cur = match (rev cur ++ data)%list with [] => [] | l => [l] end.
Proof.
  induction data as [|b r IH]; intros cur H.
  - rewrite app_nil_r. cbn [split_lines]. destruct cur as [|c cur]; [reflexivity|].
    destruct (rev (c :: cur)) eqn:E; [|reflexivity].
    apply (f_equal (@List.length N)) in E. rewrite rev_length in E. discriminate E.
  - rewrite split_lines_cons. destruct (N.eqb_spec b 10) as [->|Hb]; [exfalso; apply H; left; reflexivity|].
    rewrite IH by (intros Hin; apply H; right; exact Hin). cbn [rev]. rewrite <- app_assoc. reflexivity.
Qed.

Lemma error_text_one_line (c : ascii) (m : string) :
  ~ In 10 (str_bytes (String c m)) -> error_text (String c m) = "error: " ++ String c m ++ nl.
Proof.
  intros H. unfold error_text, lines_of, str_lines. rewrite (split_lines_no_lf _ [] H). cbn [rev app].
  cbn [str_bytes map continue_lines]. change (N_of_ascii c :: str_bytes m) with (str_bytes (String c m)).
  rewrite string_of_str_bytes, sapp_nil_r. reflexivity.
Qed.

Lemma str_bytes_of_bytes l : Forall lt256 l -> str_bytes (string_of_bytes l) = l.
Proof.
  induction 1 as [|b l Hb _ IH]; cbn [string_of_bytes str_bytes]; [reflexivity|].
  rewrite N_ascii_embedding by exact Hb. rewrite IH. reflexivity.
Qed.

Lemma unparseable_text_ok line :
  Forall lt256 line -> ~ In 10 line ->
  error_text ("Could not parse '" ++ string_of_bytes line ++ "' in .yo file.") = unparseable_text (string_of_bytes line).
Proof.
  intros Hb Hl. unfold unparseable_text.
  change ("Could not parse '" ++ string_of_bytes line ++ "' in .yo file.")
    with (String "C" ("ould not parse '" ++ string_of_bytes line ++ "' in .yo file.")).
  rewrite error_text_one_line; [cbn [append]; rewrite !sapp_assoc; reflexivity|].
  change (String "C" ("ould not parse '" ++ string_of_bytes line ++ "' in .yo file."))
    with ("Could not parse '" ++ (string_of_bytes line ++ "' in .yo file.")).
  rewrite !str_bytes_app, (str_bytes_of_bytes line Hb). intros Hin.
  apply in_app_or in Hin. destruct Hin as [Hin|Hin].
  - vm_compute in Hin. repeat (destruct Hin as [Hin|Hin]; [discriminate Hin|]). exact Hin.
  - apply in_app_or in Hin. destruct Hin as [Hin|Hin]; [exact (Hl Hin)|].
    vm_compute in Hin. repeat (destruct Hin as [Hin|Hin]; [discriminate Hin|]). exact Hin.
Qed.

(* ---- run_y86: outcome and text side by side ------------------------------------------------------ *)
Inductive run_y86_case (files : file_system) (fc : file_contents) (pr : string) (p : program) (s0 : mstate)
          (yo : string) (o : options) : outcome -> option string -> Prop :=
| RC_open : files yo = None -> run_y86_case files fc pr p s0 yo o (OMessage "open") (Some io_error_text)
| RC_load image e es : files yo = Some image -> load_from_y86 (mem s0) image = Err es ->
    load_error (mem s0) image = Some e ->
    run_y86_case files fc pr p s0 yo o (OMessage "load") (format_for_contents fc e)
| RC_sim image m es : files yo = Some image -> load_from_y86 (mem s0) image = Ok m ->
    run_prompting pr (N.to_nat (o_timeout o)) gen_features o p (with_mem s0 m) = Err es ->
    run_y86_case files fc pr p s0 yo o (OMessage "simulation")
                 (match run_error es with Some e => format_for_contents fc e | None => None end)
| RC_final image m final text dump : files yo = Some image -> load_from_y86 (mem s0) image = Ok m ->
    run_y86_case files fc pr p s0 yo o (OFinal (o_timeout o) o p (with_mem s0 m) final text dump) (Some "").

Lemma run_y86_cases files fc pr p s0 yo o :
  keys_inv p s0 ->
  run_y86_case files fc pr p s0 yo o (run_y86 files pr p s0 yo o) (run_y86_stderr files fc pr p s0 yo o).
Proof.
  intros K. pose proof (run_y86_spec files pr p s0 yo o K) as R.
  unfold run_y86, run_y86_stderr in *.
  destruct (files yo) as [image|] eqn:EY.
  2:{ rewrite format_io. apply RC_open. exact EY. }
  pose proof (load_error_spec (mem s0) image) as L.
  destruct (load_from_y86 (mem s0) image) as [m|les] eqn:EL.
  - cbv zeta in *.
    destruct (run_prompting pr (N.to_nat (o_timeout o)) gen_features o p (with_mem s0 m)) as [[final text]|es] eqn:ER.
    + destruct (sim_result o p (with_mem s0 m)) as [[f2 t2]|es2]; [|destruct (dump_y86 o p final); discriminate R].
      destruct R as [text' [dump [Hr [Hd _]]]]. injection Hr as <- <-. rewrite Hd.
      apply (RC_final _ _ _ _ _ _ _ image m); assumption.
    + apply (RC_sim _ _ _ _ _ _ _ image m es); assumption.
  - destruct L as [[_ L]|[l [b [a [m' [L _]]]]]]; rewrite L.
    + apply (RC_load _ _ _ _ _ _ _ image _ les); assumption.
    + apply (RC_load _ _ _ _ _ _ _ image _ les); assumption.
Qed.

(* ====================================================================================== *)
(* Part 3: main_real - outcome and standard error side by side                              *)
(* ====================================================================================== *)
Definition rejected (text : list N) : Prop := forall p, parse_y86_hcl text <> FrontAccepted p.

Inductive tool_case (korder : list string -> list string) (files : file_system) (args : list string)
  : outcome -> option string -> Prop :=
| TC_getopts f : parse_argv args = None -> getopts_fail args = Some f ->
    tool_case korder files args (OMessage "getopts") (Some (fail_text f ++ nl))
| TC_help fs free : parse_argv args = Some (fs, free) -> has_flag FHelp fs = true ->
    tool_case korder files args (OUsage 0) (Some "")
| TC_version fs free : parse_argv args = Some (fs, free) -> has_flag FHelp fs = false -> has_flag FVersion fs = true ->
    tool_case korder files args OVersion (Some "")
| TC_usage fs free : parse_argv args = Some (fs, free) -> has_flag FHelp fs = false -> has_flag FVersion fs = false ->
    tool_case korder files args (OUsage 1) (Some "")
| TC_read fs path rest : parse_argv args = Some (fs, path :: rest) ->
    has_flag FHelp fs = false -> has_flag FVersion fs = false -> files path = None ->
    tool_case korder files args (OMessage "Error reading")
              (Some ("Error reading '" ++ path ++ "': " ++ io_error_placeholder ++ nl))
| TC_diag fs path rest user : parse_argv args = Some (fs, path :: rest) ->
    has_flag FHelp fs = false -> has_flag FVersion fs = false -> files path = Some user ->
    (List.length (path :: rest) <= 3)%nat -> rejected (bytes_of gen_preamble ++ user) ->
    tool_case korder files args (OMessage "diagnostics") (front_stderr_of korder path user)
| TC_check fs free : parse_argv args = Some (fs, free) -> has_flag FHelp fs = false -> has_flag FVersion fs = false ->
    has_flag FCheck fs = true ->
    tool_case korder files args OSyntaxOK (Some "")
| TC_extension fs path y rest2 : parse_argv args = Some (fs, path :: y :: rest2) ->
    has_flag FHelp fs = false -> has_flag FVersion fs = false -> has_flag FCheck fs = false ->
    Cli.ends_with ".yo" y = false ->
    tool_case korder files args (OMessage "extension") (Some ("'" ++ y ++ "' does not have the extension .yo" ++ nl))
| TC_timeout fs path y ts rest3 : parse_argv args = Some (fs, path :: y :: ts :: rest3) ->
    has_flag FHelp fs = false -> has_flag FVersion fs = false -> has_flag FCheck fs = false ->
    parse_u32 ts = None ->
    tool_case korder files args (OMessage "timeout") (Some ("timeout " ++ ts ++ " is not a valid number" ++ nl))
| TC_run fs path y rest2 user p s0 t out err : parse_argv args = Some (fs, path :: y :: rest2) ->
    has_flag FHelp fs = false -> has_flag FVersion fs = false -> has_flag FCheck fs = false ->
    files path = Some user -> parse_y86_hcl (bytes_of gen_preamble ++ user) = FrontAccepted p ->
    initial_state p = Ok s0 -> keys_inv p s0 -> mem s0 = [] -> cycle s0 = 0 ->
    timeout_arg rest2 = Some t -> (List.length rest2 <= 1)%nat ->
    run_y86_case files (contents_of path user) (prompt_of fs) p s0 y (set_timeout (run_options_of fs) t) out err ->
    tool_case korder files args out err.

Lemma tool_cases korder prog files args :
  tool_case korder files args (tool_outcome files args) (tool_stderr korder prog files args).
Proof.
  unfold tool_outcome, tool_stderr.
  destruct (parse_argv args) as [[fs free]|] eqn:EP.
  2:{ destruct (proj1 (getopts_fail_iff_holds args) EP) as [f Hf]. rewrite Hf. apply TC_getopts; assumption. }
  destruct (has_flag FHelp fs) eqn:EH; [apply (TC_help _ _ _ fs free); assumption|].
  destruct (has_flag FVersion fs) eqn:EV; [apply (TC_version _ _ _ fs free); assumption|].
  destruct free as [|path rest]; [apply (TC_usage _ _ _ fs []); assumption|].
  unfold read_y86_hcl. destruct (files path) as [user|] eqn:EF; [|apply (TC_read _ _ _ fs path rest); assumption].
  destruct (3 <? N.of_nat (List.length (path :: rest))) eqn:E3; [apply (TC_usage _ _ _ fs (path :: rest)); assumption|].
  apply too_many_false in E3.
  destruct (parse_y86_hcl (bytes_of gen_preamble ++ user)) as [|es|p] eqn:EA.
  - apply (TC_diag _ _ _ fs path rest user); try assumption. intros q Hq. rewrite EA in Hq. discriminate Hq.
  - apply (TC_diag _ _ _ fs path rest user); try assumption. intros q Hq. rewrite EA in Hq. discriminate Hq.
  - destruct (accepted_initial _ p EA) as [s0 [Hs0 [K [Hmem Hcyc]]]]. rewrite Hs0.
    destruct (has_flag FCheck fs) eqn:EC; [apply (TC_check _ _ _ fs (path :: rest)); assumption|].
    destruct rest as [|y rest2]; [apply (TC_usage _ _ _ fs [path]); assumption|].
    destruct (Cli.ends_with ".yo" y) eqn:EY; cbn [negb]; [|apply (TC_extension _ _ _ fs path y rest2); assumption].
    destruct rest2 as [|ts rest3].
    + apply (TC_run _ _ _ fs path y [] user p s0 default_timeout); try assumption; [reflexivity | cbn; lia |].
      apply run_y86_cases. exact K.
    + destruct (parse_u32 ts) as [t|] eqn:ET; [|apply (TC_timeout _ _ _ fs path y ts rest3); assumption].
      apply (TC_run _ _ _ fs path y (ts :: rest3) user p s0 t); try assumption.
      * cbn [List.length] in *. lia.
      * apply run_y86_cases. exact K.
Qed.

(* ====================================================================================== *)
(* Part 4: the diagnostics of a rejected file                                               *)
(* ====================================================================================== *)
Lemma bytes_of_str_bytes s : bytes_of s = str_bytes s.
Proof. unfold bytes_of. induction s as [|c r IH]; cbn [list_ascii_of_string map str_bytes]; [reflexivity | rewrite IH; reflexivity]. Qed.

Lemma gen_tiers_doc : gen_tiers = Some doc_tiers.
Proof. vm_compute. reflexivity. Qed.

Lemma preamble_bytes_eq : str_bytes gen_preamble = preamble_bytes.
Proof. unfold preamble_bytes. apply str_bytes_bytes_of_string. Qed.

Notation tool_front_errors korder bytes :=
  (front_errors korder test_uclass doc_tiers gen_features gen_fixed ascii_lower ascii_upper bytes).

Lemma front_stderr_of_eq korder path user :
  front_stderr_of korder path user
  = front_stderr korder test_uclass doc_tiers gen_features gen_fixed ascii_lower ascii_upper gen_preamble
                 (str_bytes (contents_name path)) user.
Proof. unfold front_stderr_of. rewrite gen_tiers_doc. reflexivity. Qed.

Lemma parse_y86_hcl_accepts text :
  (exists p, parse_y86_hcl text = FrontAccepted p) <->
  exists stmts p, parse_text test_uclass doc_tiers text = Some stmts /\
                  build_program gen_features gen_fixed ascii_lower ascii_upper stmts = Ok p.
Proof.
  unfold parse_y86_hcl. rewrite gen_tiers_doc. split.
  - intros [p H]. destruct (parse_text test_uclass doc_tiers text) as [stmts|]; [|discriminate H].
    destruct (build_program gen_features gen_fixed ascii_lower ascii_upper stmts) as [q|es] eqn:B; [|discriminate H].
    exists stmts, q. split; [reflexivity | exact B].
  - intros [stmts [p [-> ->]]]. exists p. reflexivity.
Qed.

Lemma rejected_front_errors korder user :
  rejected (bytes_of gen_preamble ++ user) -> tool_front_errors korder (preamble_bytes ++ user) <> Some [].
Proof.
  intros R H. apply front_errors_accepts_holds in H. rewrite <- preamble_bytes_eq, <- bytes_of_str_bytes in H.
  apply parse_y86_hcl_accepts in H. destruct H as [p H]. exact (R p H).
Qed.

Lemma front_stderr_of_unfold korder path user :
  front_stderr_of korder path user
  = match tool_front_errors korder (preamble_bytes ++ user) with
    | None => None
    | Some es => render_all test_uclass (new_from_data preamble_bytes user (str_bytes (contents_name path))) es
    end.
Proof. rewrite front_stderr_of_eq. unfold front_stderr, front_stderr_with. rewrite preamble_bytes_eq. reflexivity. Qed.

Lemma snonempty_starts p t : DiagSpec.starts_with p t -> p <> "" -> t <> "".
Proof. intros [r ->] Hp H. destruct p; [contradiction | discriminate H]. Qed.

Lemma diag_text_nonempty korder path user text :
  rejected (bytes_of gen_preamble ++ user) -> front_stderr_of korder path user = Some text -> text <> "".
Proof.
  intros R H. rewrite front_stderr_of_unfold in H. pose proof (rejected_front_errors korder user R) as Hne.
  destruct (tool_front_errors korder (preamble_bytes ++ user)) as [es|]; [|discriminate H].
  destruct (render_all_blocks_holds _ _ es text H) as [_ [_ [_ Hs]]].
  - apply (snonempty_starts "error: " text); [|discriminate]. apply Hs. intros ->. apply Hne. reflexivity.
Qed.

Lemma format_nonempty fc e text : format_for_contents fc e = Some text -> text <> "".
Proof.
  intros H. destruct (render_all_blocks_holds _ _ [e] text H) as [_ [_ [_ Hs]]].
  apply (snonempty_starts "error: " text); [|discriminate]. apply Hs. discriminate.
Qed.

Lemma sapp_nl_nonempty s : s ++ nl <> "".
Proof. destruct s; discriminate. Qed.

(* ====================================================================================== *)
(* Part 5: (a), (b)                                                                         *)
(* ====================================================================================== *)
Lemma run_error_format fc es :
  match run_error es with
  | Some e => exists text, format_for_contents fc e = Some text /\ text <> ""
  | None => True
  end.
Proof.
  unfold run_error. destruct es as [|e [|e2 r]]; try exact I.
  destruct (ek e); try exact I.
  - eexists. split; [apply format_text; reflexivity | discriminate].
  - exists division_text. split; [apply format_division | discriminate].
Qed.

Lemma load_error_format fc m image es :
  load_from_y86 m image = Err es -> forall e, load_error m image = Some e ->
  exists text, format_for_contents fc e = Some text /\ text <> "".
Proof.
  intros HL e He. pose proof (load_error_spec m image) as L. rewrite HL in L.
  destruct L as [[_ L]|[l [b [a [m' [L _]]]]]]; rewrite L in He; injection He as <-.
  - exists empty_file_text. split; [apply format_empty | discriminate].
  - eexists. split; [apply format_unparseable|]. apply (format_nonempty fc _ _ (format_unparseable fc _)).
Qed.

Definition prop_a (r : outcome) (e : option string) : Prop :=
  (e = Some "" <-> status_of r = 0 \/ what_of r = PrintedUsage) /\
  (status_of r = 0 -> e = Some "") /\
  (status_of r = 1 -> what_of r <> PrintedUsage ->
     exists why, r = OMessage why /\
       match e with Some text => text <> "" | None => why = "diagnostics" \/ why = "simulation" end).

Lemma prop_a_message why e :
  match e with Some text => text <> "" | None => why = "diagnostics" \/ why = "simulation" end ->
  prop_a (OMessage why) e.
Proof.
  intros H. unfold prop_a. cbn [status_of what_of]. split; [|split].
  - split.
    + intros ->. exfalso. apply H. reflexivity.
    + intros [H0|H0]; discriminate H0.
  - intros H0. discriminate H0.
  - intros _ _. exists why. split; [reflexivity | exact H].
Qed.

Lemma prop_a_quiet r : (status_of r = 0 \/ what_of r = PrintedUsage) -> (forall why, r <> OMessage why) ->
  (status_of r = 1 -> what_of r = PrintedUsage) -> prop_a r (Some "").
Proof.
  intros H Hm Hu. unfold prop_a. split; [|split].
  - split; [intros _; exact H | intros _; reflexivity].
  - intros _. reflexivity.
  - intros H1 Hn. exfalso. exact (Hn (Hu H1)).
Qed.

Lemma tool_case_prop_a korder files args r e : tool_case korder files args r e -> prop_a r e.
Proof.
  intros C. destruct C as [f _ _|fs free _ _|fs free _ _ _|fs free _ _ _|fs path rest _ _ _ _
                           |fs path rest user _ _ _ _ _ R|fs free _ _ _ _|fs path y rest2 _ _ _ _ _
                           |fs path y ts rest3 _ _ _ _ _|fs path y rest2 user p s0 t out err _ _ _ _ _ _ _ _ _ _ _ _ RC].
  - apply prop_a_message. apply sapp_nl_nonempty.
  - apply prop_a_quiet; [left; reflexivity | discriminate | discriminate].
  - apply prop_a_quiet; [left; reflexivity | discriminate | discriminate].
  - apply prop_a_quiet; [right; reflexivity | discriminate | reflexivity].
  - apply prop_a_message. discriminate.
  - apply prop_a_message. destruct (front_stderr_of korder path user) as [text|] eqn:E; [|left; reflexivity].
    apply (diag_text_nonempty korder path user text R E).
  - apply prop_a_quiet; [left; reflexivity | discriminate | discriminate].
  - apply prop_a_message. discriminate.
  - apply prop_a_message. discriminate.
  - destruct RC as [_|image e0 es _ HL He|image m es _ _ _|image m final text dump _ _].
    + apply prop_a_message. discriminate.
    + apply prop_a_message. destruct (load_error_format (contents_of path user) _ _ _ HL e0 He) as [text [-> Hne]]. exact Hne.
    + apply prop_a_message. pose proof (run_error_format (contents_of path user) es) as F.
      destruct (run_error es) as [e0|]; [|right; reflexivity]. destruct F as [text [-> Hne]]. exact Hne.
    + apply prop_a_quiet; [left; reflexivity | discriminate | discriminate].
Qed.

Theorem stderr_empty_iff_status_zero_or_usage_holds : stmt_stderr_empty_iff_status_zero_or_usage.
Proof.
  intros korder prog files args. cbv zeta.
  exact (tool_case_prop_a korder files args _ _ (tool_cases korder prog files args)).
Qed.

Theorem stderr_never_with_final_state_holds : stmt_stderr_never_with_final_state.
Proof.
  intros korder prog files args. cbv zeta.
  destruct (stderr_empty_iff_status_zero_or_usage_holds korder prog files args) as [Hiff [H0 H1]].
  split.
  - intros [final Hf]. apply H0. destruct (tool_outcome files args); try discriminate Hf. reflexivity.
  - intros Hne.
    assert (Hs : status_of (tool_outcome files args) = 1 /\ what_of (tool_outcome files args) <> PrintedUsage).
    { destruct (tool_status_01 files args) as [E|E].
      - exfalso. apply Hne. apply H0. exact E.
      - split; [exact E|]. intros Hu. apply Hne. apply Hiff. right. exact Hu. }
    destruct Hs as [Hs Hu]. destruct (H1 Hs Hu) as [why [Hr _]].
    unfold tool_main_as. rewrite Hr. repeat split.
Qed.

(* ====================================================================================== *)
(* Part 6: (c) which message for which cause                                                *)
(* ====================================================================================== *)
Lemma budget_of_timeout_arg path y rest2 t : timeout_arg rest2 = Some t -> budget_of (path :: y :: rest2) = t.
Proof.
  destruct rest2 as [|ts r]; cbn [timeout_arg budget_of]; [intros H; injection H as <-; reflexivity | intros ->; reflexivity].
Qed.

(* the simulation case of run_y86, in terms of Machine.run under the default options *)
Lemma sim_case files fs path y rest2 user p s0 t image m es :
  files path = Some user -> parse_y86_hcl (bytes_of gen_preamble ++ user) = FrontAccepted p ->
  initial_state p = Ok s0 -> keys_inv p s0 ->
  files y = Some image -> load_from_y86 (mem s0) image = Ok m ->
  timeout_arg rest2 = Some t ->
  run_prompting (prompt_of fs) (N.to_nat (o_timeout (set_timeout (run_options_of fs) t))) gen_features
                (set_timeout (run_options_of fs) t) p (with_mem s0 m) = Err es ->
  start_of files path y = Some (p, with_mem s0 m) /\
  run (N.to_nat (budget_of (path :: y :: rest2))) gen_features
      (set_timeout default_options (budget_of (path :: y :: rest2))) p (with_mem s0 m) = Err es /\
  (forall utext, files path = Some (utf8 utext) -> Forall scalar utext -> es = [mkErr DivisionByZero []]).
Proof.
  intros EF EA Hs0 K EY EL ET ER. rewrite (budget_of_timeout_arg path y rest2 t ET).
  assert (Hst : start_of files path y = Some (p, with_mem s0 m)).
  { unfold start_of, read_y86_hcl. rewrite EF, EA, Hs0, EY, EL. reflexivity. }
  rewrite timeout_set_timeout in ER.
  pose proof (run_prompting_same (prompt_of fs) (N.to_nat t) gen_features (set_timeout (run_options_of fs) t) p (with_mem s0 m)) as S1.
  pose proof (run_option_free (N.to_nat t) gen_features (set_timeout (run_options_of fs) t) (set_timeout default_options t)
                p (with_mem s0 m) K eq_refl) as S2.
  rewrite ER in S1. unfold same_outcome in S1, S2.
  destruct (run (N.to_nat t) gen_features (set_timeout (run_options_of fs) t) p (with_mem s0 m)) as [[f2 t2]|e2]; [contradiction|].
  subst e2.
  destruct (run (N.to_nat t) gen_features (set_timeout default_options t) p (with_mem s0 m)) as [[f3 t3]|e3] eqn:E3; [contradiction|].
  subst e3. split; [exact Hst|]. split; [reflexivity|].
  intros utext Hu Hsc.
  apply (tool_abort_is_division_by_zero_unconditional_holds files path y utext p (with_mem s0 m)
           (set_timeout default_options t) es Hu Hsc Hst). exact E3.
Qed.

Lemma lines_are_bytes image l : Forall lt256 image -> In l (split_lines image []) -> Forall lt256 l /\ ~ In 10 l.
Proof.
  intros Hb Hl. split.
  - destruct (lines_sub image [] l Hl) as [p [q E]]. cbn [rev app] in E. exact (sub_lt256 _ _ _ _ Hb E).
  - apply (lines_nolf image [] l Hl). intros [].
Qed.

Definition prop_c (korder : list string -> list string) (files : file_system) (args : list string)
           (r : outcome) (err : option string) : Prop :=
  let what := what_of r in
  let free := free_of args in
  (what = Message "getopts" -> exists f, getopts_fail args = Some f /\ err = Some (fail_text f ++ nl)) /\
  (what = PrintedUsage \/ what = PrintedVersion \/ what = SyntaxOK \/ (exists t, what = FinalState t) -> err = Some "") /\
  (what = Message "Error reading" ->
     exists path, nth_error free 0 = Some path /\ files path = None /\
       err = Some ("Error reading '" ++ path ++ "': " ++ io_error_placeholder ++ nl)) /\
  (what = Message "diagnostics" ->
     exists path user, nth_error free 0 = Some path /\ files path = Some user /\
       err = front_stderr korder test_uclass doc_tiers gen_features gen_fixed ascii_lower ascii_upper
                          gen_preamble (str_bytes (contents_name path)) user) /\
  (what = Message "extension" ->
     exists y, nth_error free 1 = Some y /\ ~ ends_in_dot_yo y /\
       err = Some ("'" ++ y ++ "' does not have the extension .yo" ++ nl)) /\
  (what = Message "timeout" ->
     exists ts, nth_error free 2 = Some ts /\ (~ exists t, denotes_u32 ts t) /\
       err = Some ("timeout " ++ ts ++ " is not a valid number" ++ nl)) /\
  (what = Message "open" -> exists y, nth_error free 1 = Some y /\ files y = None /\ err = Some io_error_text) /\
  (what = Message "load" ->
     exists y image, nth_error free 1 = Some y /\ files y = Some image /\
       ((file_lines image = [] /\ err = Some empty_file_text) \/
        (exists line, first_rejected_line image line /\
           err = Some (error_text ("Could not parse '" ++ string_of_bytes line ++ "' in .yo file.")) /\
           (Forall (fun b => b < 256) image -> err = Some (unparseable_text (string_of_bytes line)))))) /\
  (what = Message "simulation" ->
     exists f y p start es,
       nth_error free 0 = Some f /\ nth_error free 1 = Some y /\ start_of files f y = Some (p, start) /\
       run (N.to_nat (budget_of free)) gen_features (set_timeout default_options (budget_of free)) p start = Err es /\
       (es = [mkErr DivisionByZero []] -> err = Some division_text) /\
       (forall utext, files f = Some (utf8 utext) -> Forall scalar utext -> err = Some division_text)).

Ltac split9 := refine (conj _ (conj _ (conj _ (conj _ (conj _ (conj _ (conj _ (conj _ _)))))))).
Ltac other_cause := solve [let H := fresh in intros H; first [discriminate H | injection H as H; discriminate H]].
Ltac not_quiet :=
  solve [let H := fresh in let t := fresh in intros [H|[H|[H|[t H]]]]; discriminate H].

Lemma tool_case_prop_c korder files args r e : tool_case korder files args r e -> prop_c korder files args r e.
Proof.
  intros C. unfold prop_c. cbv zeta.
  destruct C as [f EP Hf|fs free EP _|fs free EP _ _|fs free EP _ _|fs path rest EP _ _ EF
                 |fs path rest user EP _ _ EF _ R|fs free EP _ _ _|fs path y rest2 EP _ _ _ EY
                 |fs path y ts rest3 EP _ _ _ ET|fs path y rest2 user p s0 t out err EP _ _ _ EF EA Hs0 K Hmem Hcyc ET Hlen RC];
    cbn [what_of].
  - split9; try other_cause; try not_quiet. intros _. exists f. split; [exact Hf | reflexivity].
  - split9; try other_cause. intros _. reflexivity.
  - split9; try other_cause. intros _. reflexivity.
  - split9; try other_cause. intros _. reflexivity.
  - rewrite (free_of_some _ _ _ EP). split9; try other_cause; try not_quiet.
    intros _. exists path. repeat split. exact EF.
  - rewrite (free_of_some _ _ _ EP). split9; try other_cause; try not_quiet.
    intros _. exists path, user. split; [reflexivity|]. split; [exact EF | apply front_stderr_of_eq].
  - split9; try other_cause. intros _. reflexivity.
  - rewrite (free_of_some _ _ _ EP). split9; try other_cause; try not_quiet.
    intros _. exists y. split; [reflexivity|]. split; [|reflexivity].
    intros H. apply ends_in_dot_yo_iff in H. congruence.
  - rewrite (free_of_some _ _ _ EP). split9; try other_cause; try not_quiet.
    intros _. exists ts. split; [reflexivity|]. split; [|reflexivity].
    intros [t0 H]. apply parse_u32_iff in H. congruence.
  - rewrite (free_of_some _ _ _ EP).
    destruct RC as [EYo|image e0 es EYo HL He|image m es EYo HL ER|image m final text dump EYo HL]; cbn [what_of].
    + split9; try other_cause; try not_quiet. intros _. exists y. repeat split. exact EYo.
    + split9; try other_cause; try not_quiet. intros _. exists y, image. split; [reflexivity|]. split; [exact EYo|].
      pose proof (load_error_spec (mem s0) image) as L. rewrite HL in L. rewrite Hmem in L, He.
      destruct L as [[Hnil L]|[l [b [a [m' [L [Hsplit [Hfold Hline]]]]]]]]; rewrite L in He; injection He as <-.
      * left. split; [exact Hnil | apply format_empty].
      * right. exists l. split; [exists b, a, m'; repeat split; assumption|].
        split; [apply format_unparseable|]. intros Hb. rewrite format_unparseable. f_equal.
        assert (Hin : In l (split_lines image [])) by (rewrite Hsplit; apply in_or_app; right; left; reflexivity).
        destruct (lines_are_bytes image l Hb Hin) as [H1 H2]. apply unparseable_text_ok; assumption.
    + destruct (sim_case files fs path y rest2 user p s0 t image m es EF EA Hs0 K EYo HL ET ER) as [Hst [Hrun Htext]].
      split9; try other_cause; try not_quiet. intros _.
      exists path, y, p, (with_mem s0 m), es. repeat split; try assumption.
      * intros ->. cbn [run_error ek]. apply format_division.
      * intros utext Hu Hsc. rewrite (Htext utext Hu Hsc). cbn [run_error ek]. apply format_division.
    + split9; try other_cause. intros _. reflexivity.
Qed.

Theorem stderr_message_kinds_holds : stmt_stderr_message_kinds.
Proof.
  intros korder prog files args. cbv zeta.
  exact (tool_case_prop_c korder files args _ _ (tool_cases korder prog files args)).
Qed.

(* ====================================================================================== *)
(* Part 7: where the model declines; (d) the files read; the program name                   *)
(* ====================================================================================== *)
Lemma none_case korder files args r e :
  tool_case korder files args r e -> e = None ->
  exists path user, nth_error (free_of args) 0 = Some path /\ files path = Some user /\
    ((what_of r = Message "diagnostics" /\ front_stderr_of korder path user = None) \/
     (what_of r = Message "simulation" /\ forall utext, user = utf8 utext -> ~ Forall scalar utext)).
Proof.
  intros C.
  destruct C as [f EP Hf|fs free EP _|fs free EP _ _|fs free EP _ _|fs path rest EP _ _ EF
                 |fs path rest user EP _ _ EF _ R|fs free EP _ _ _|fs path y rest2 EP _ _ _ EY
                 |fs path y ts rest3 EP _ _ _ ET|fs path y rest2 user p s0 t out err EP _ _ _ EF EA Hs0 K Hmem Hcyc ET Hlen RC];
    intros Ee; try (match type of Ee with Some _ = _ => discriminate Ee end).
  - exists path, user. rewrite (free_of_some _ _ _ EP). split; [reflexivity|]. split; [exact EF|].
    left. split; [reflexivity | exact Ee].
  - exists path, user. rewrite (free_of_some _ _ _ EP). split; [reflexivity|]. split; [exact EF|].
    destruct RC as [EYo|image e0 es EYo HL He|image m es EYo HL ER|image m final text dump EYo HL];
      try (match type of Ee with Some _ = _ => discriminate Ee end).
    + exfalso. destruct (load_error_format (contents_of path user) _ _ _ HL e0 He) as [text [Ht _]]. congruence.
    + right. split; [reflexivity|]. intros utext -> Hsc.
      destruct (sim_case files fs path y rest2 _ p s0 t image m es EF EA Hs0 K EYo HL ET ER) as [_ [_ Htext]].
      rewrite (Htext utext EF Hsc) in Ee. cbn [run_error ek] in Ee. rewrite format_division in Ee. discriminate Ee.
Qed.

Theorem stderr_modelled_holds : stmt_stderr_modelled.
Proof.
  intros korder prog files args HN.
  exact (none_case korder files args _ _ (tool_cases korder prog files args) HN).
Qed.

(* ---- (d) ---------------------------------------------------------------------------------------- *)
Lemma run_y86_stderr_files_ext files files' fc pr p s0 yo o :
  files yo = files' yo -> run_y86_stderr files fc pr p s0 yo o = run_y86_stderr files' fc pr p s0 yo o.
Proof. intros H. unfold run_y86_stderr. rewrite H. reflexivity. Qed.

Theorem stderr_depends_on_files_read_holds : stmt_stderr_depends_on_files_read.
Proof.
  intros korder prog files files' args H.
  assert (HE : tool_stderr korder prog files args = tool_stderr korder prog files' args).
  { unfold tool_stderr. destruct (parse_argv args) as [[fs free]|] eqn:EP; [|reflexivity].
    rewrite (free_of_some _ _ _ EP) in H.
    destruct (has_flag FHelp fs); [reflexivity|]. destruct (has_flag FVersion fs); [reflexivity|].
    destruct free as [|path rest]; [reflexivity|].
    rewrite <- (H path (or_introl eq_refl)).
    destruct (files path) as [user|]; [|reflexivity].
    destruct (3 <? N.of_nat (List.length (path :: rest))); [reflexivity|].
    destruct (parse_y86_hcl (bytes_of gen_preamble ++ user)) as [|es|p]; [reflexivity|reflexivity|].
    destruct (initial_state p) as [s0|]; [|reflexivity].
    destruct (has_flag FCheck fs); [reflexivity|].
    destruct rest as [|y rest2]; [reflexivity|].
    destruct (negb (Cli.ends_with ".yo" y)); [reflexivity|].
    assert (HY : files y = files' y) by (apply H; right; reflexivity).
    destruct rest2 as [|ts rest3]; [apply run_y86_stderr_files_ext; exact HY|].
    destruct (parse_u32 ts); [apply run_y86_stderr_files_ext; exact HY | reflexivity]. }
  split; [exact HE|]. unfold tool_full_with. rewrite HE.
  rewrite (proj2 (tool_deterministic_in_files_holds prog files files' args H)). reflexivity.
Qed.

Theorem stderr_program_name_free_holds : stmt_stderr_program_name_free.
Proof. intros korder prog prog' files args. reflexivity. Qed.

(* ====================================================================================== *)
(* Part 8: (e) the name of the file and the text for a rejected file                        *)
(* ====================================================================================== *)
Theorem contents_name_examples_holds : stmt_contents_name_examples.
Proof. vm_compute. repeat split; reflexivity. Qed.

Lemma split_slash_no_slash path : ~ In "/"%char (list_ascii_of_string path) -> split_slash path = [path].
Proof.
  induction path as [|c r IH]; cbn [split_slash list_ascii_of_string]; intros H; [reflexivity|].
  destruct (Ascii.eqb c "/"%char) eqn:E.
  - exfalso. apply H. left. apply Ascii.eqb_eq in E. exact E.
  - rewrite IH; [reflexivity|]. intros Hin. apply H. right. exact Hin.
Qed.

Theorem contents_name_simple_holds : stmt_contents_name_simple.
Proof.
  intros path Hs H0 H1 H2. unfold contents_name, path_file_name. rewrite (split_slash_no_slash path Hs).
  cbn [rev app last_normal].
  destruct (String.eqb_spec path ""); [contradiction|].
  destruct (String.eqb_spec path "."); [contradiction|].
  destruct (String.eqb_spec path ".."); [contradiction|]. reflexivity.
Qed.

Lemma diag_case korder files args r e :
  tool_case korder files args r e -> what_of r = Message "diagnostics" ->
  exists fs path rest user, parse_argv args = Some (fs, path :: rest) /\ files path = Some user /\
    rejected (bytes_of gen_preamble ++ user) /\ e = front_stderr_of korder path user.
Proof.
  intros C. 
  destruct C as [f EP Hf|fs free EP _|fs free EP _ _|fs free EP _ _|fs path rest EP _ _ EF
                 |fs path rest user EP _ _ EF _ R|fs free EP _ _ _|fs path y rest2 EP _ _ _ EY
                 |fs path y ts rest3 EP _ _ _ ET|fs path y rest2 user p s0 t out err EP _ _ _ EF EA Hs0 K Hmem Hcyc ET Hlen RC];
    cbn [what_of]; intros H; try discriminate H; try (injection H as H; discriminate H).
  - exists fs, path, rest, user. repeat split; assumption.
  - exfalso. destruct RC; cbn [what_of] in H; try discriminate H; injection H as H; discriminate H.
Qed.

Lemma diag_facts korder prog files args path utext :
  what_of (tool_outcome files args) = Message "diagnostics" ->
  nth_error (free_of args) 0 = Some path -> files path = Some (utf8 utext) ->
  rejected (bytes_of gen_preamble ++ utf8 utext) /\
  tool_stderr korder prog files args = front_stderr_of korder path (utf8 utext).
Proof.
  intros Hw Hp Hf.
  destruct (diag_case korder files args _ _ (tool_cases korder prog files args) Hw)
    as [fs [path' [rest [user [EP [EF [R E]]]]]]].
  rewrite (free_of_some _ _ _ EP) in Hp. injection Hp as ->. rewrite Hf in EF. injection EF as <-.
  split; [exact R | exact E].
Qed.

Theorem stderr_rejected_file_holds : stmt_stderr_rejected_file.
Proof.
  intros korder prog files args path utext text Hw Hp Hf Hsc Ht. cbv zeta.
  destruct (diag_facts korder prog files args path utext Hw Hp Hf) as [R E].
  rewrite E, front_stderr_of_unfold in Ht.
  pose proof (rejected_front_errors korder (utf8 utext) R) as Hne.
  destruct (tool_front_errors korder (preamble_bytes ++ utf8 utext)) as [es|] eqn:EE; [|discriminate Ht].
  assert (Hes : es <> []) by (intros ->; apply Hne; reflexivity).
  set (fname := str_bytes (contents_name path)) in *.
  assert (Hw' : front_stderr_with korder test_uclass doc_tiers gen_features gen_fixed ascii_lower ascii_upper
                                  preamble_bytes fname (utf8 utext) = Some text).
  { unfold front_stderr_with. rewrite EE. exact Ht. }
  destruct (front_stderr_blocks_holds korder test_uclass doc_tiers gen_features gen_fixed ascii_lower ascii_upper
              preamble_bytes fname (utf8 utext) es text EE Hw') as [_ [Hshape Hblocks]].
  destruct (Hshape Hes) as [Hn [Hs He]].
  exists es. split; [reflexivity|]. split; [exact Hes|]. split; [exact Hn|]. split; [exact Hs|]. split; [exact He|].
  split; [exact Hblocks|].
  destruct (front_stderr_shape_holds korder test_uclass gen_features utext fname es Hsc EE) as [text' [_ [_ [_ Hall]]]].
  intros e Hin. destruct (Hall e Hin) as [block [ps [H1 [H2 [_ [H4 [H5 H6]]]]]]].
  exists block, ps. repeat split; assumption.
Qed.

Lemma front_stderr_of_with korder path user :
  front_stderr_of korder path user
  = front_stderr_with korder test_uclass doc_tiers gen_features gen_fixed ascii_lower ascii_upper
                      preamble_bytes (str_bytes (contents_name path)) user.
Proof. rewrite front_stderr_of_eq. unfold front_stderr. rewrite preamble_bytes_eq. reflexivity. Qed.

Theorem stderr_rejected_file_total_holds : stmt_stderr_rejected_file_total.
Proof.
  intros korder prog files args path utext es Hw Hp Hf Hsc EE.
  destruct (diag_facts korder prog files args path utext Hw Hp Hf) as [_ E]. rewrite E, front_stderr_of_with.
  destruct (front_stderr_shape_holds korder test_uclass gen_features utext (str_bytes (contents_name path)) es Hsc EE)
    as [text [Ht _]].
  exists text. exact Ht.
Qed.

(* ====================================================================================== *)
(* Part 9: computed examples and non-vacuity                                                *)
(* ====================================================================================== *)
(* The expected exit status and standard error below were OBSERVED: they are those of the compiled
   program (clean build of /repo HEAD) run on files with the contents of ex_files2 and the same
   arguments - except that the operating system's text of an i/o error ("No such file or directory
   (os error 2)") is replaced by the placeholder. *)
Definition ex_files2 : file_system :=
  fun name => if String.eqb name "d/../d//bad.hcl" then ex_files "bad.hcl" else ex_files name.

(* an unknown option *)
Example ex_err_unknown_long :
  fst (tool_main ex_files2 ["--bogus"; "count.hcl"; "p.yo"]) = 1 /\
  tool_stderr (fun l => l) "hclrs" ex_files2 ["--bogus"; "count.hcl"; "p.yo"] =
  Some "Unrecognized option: 'bogus'
".
Proof. vm_compute. split; reflexivity. Qed.

(* an unknown letter in a group *)
Example ex_err_unknown_letter :
  fst (tool_main ex_files2 ["-dxq"; "count.hcl"; "p.yo"]) = 1 /\
  tool_stderr (fun l => l) "hclrs" ex_files2 ["-dxq"; "count.hcl"; "p.yo"] =
  Some "Unrecognized option: 'x'
".
Proof. vm_compute. split; reflexivity. Qed.

(* a flag with a value (the first failure of the scan is reported) *)
Example ex_err_valued :
  fst (tool_main ex_files2 ["count.hcl"; "--debug=1"; "-x"]) = 1 /\
  tool_stderr (fun l => l) "hclrs" ex_files2 ["count.hcl"; "--debug=1"; "-x"] =
  Some "Option 'debug' does not take an argument
".
Proof. vm_compute. split; reflexivity. Qed.

(* two options repeated: the first of the TABLE (check) is named, by its long name *)
Example ex_err_repeated :
  fst (tool_main ex_files2 ["-q"; "-c"; "--quiet"; "--c"; "count.hcl"]) = 1 /\
  tool_stderr (fun l => l) "hclrs" ex_files2 ["-q"; "-c"; "--quiet"; "--c"; "count.hcl"] =
  Some "Option 'check' given more than once
".
Proof. vm_compute. split; reflexivity. Qed.

(* the HCL file cannot be read; the text of the OS error is the placeholder *)
Example ex_err_reading :
  fst (tool_main ex_files2 ["nofile.hcl"; "p.yo"]) = 1 /\
  tool_stderr (fun l => l) "hclrs" ex_files2 ["nofile.hcl"; "p.yo"] =
  Some "Error reading 'nofile.hcl': <text of the I/O error>
".
Proof. vm_compute. split; reflexivity. Qed.

(* a rejected program: the diagnostic with its region *)
Example ex_err_rejected :
  fst (tool_main ex_files2 ["bad.hcl"; "p.yo"]) = 1 /\
  tool_stderr (fun l => l) "hclrs" ex_files2 ["bad.hcl"; "p.yo"] =
  Some "error: Wire 'x' never assigned but defined here:
     -> bad.hcl:1
     |
   1 | wire x : 8;
     |      ^^^^^
".
Proof. vm_compute. split; reflexivity. Qed.

(* the file is named by the last component of its path *)
Example ex_err_rejected_path :
  fst (tool_main ex_files2 ["d/../d//bad.hcl"; "-c"]) = 1 /\
  tool_stderr (fun l => l) "hclrs" ex_files2 ["d/../d//bad.hcl"; "-c"] =
  Some "error: Wire 'x' never assigned but defined here:
     -> bad.hcl:1
     |
   1 | wire x : 8;
     |      ^^^^^
".
Proof. vm_compute. split; reflexivity. Qed.

(* the extension is checked before the timeout *)
Example ex_err_extension :
  fst (tool_main ex_files2 ["count.hcl"; "p.txt"; "12x"]) = 1 /\
  tool_stderr (fun l => l) "hclrs" ex_files2 ["count.hcl"; "p.txt"; "12x"] =
  Some "'p.txt' does not have the extension .yo
".
Proof. vm_compute. split; reflexivity. Qed.

(* the timeout is checked before the image is opened *)
Example ex_err_timeout :
  fst (tool_main ex_files2 ["count.hcl"; "nofile.yo"; "12x"]) = 1 /\
  tool_stderr (fun l => l) "hclrs" ex_files2 ["count.hcl"; "nofile.yo"; "12x"] =
  Some "timeout 12x is not a valid number
".
Proof. vm_compute. split; reflexivity. Qed.

(* the image cannot be opened *)
Example ex_err_open :
  fst (tool_main ex_files2 ["count.hcl"; "nofile.yo"]) = 1 /\
  tool_stderr (fun l => l) "hclrs" ex_files2 ["count.hcl"; "nofile.yo"] =
  Some "error: <text of the I/O error>
".
Proof. vm_compute. split; reflexivity. Qed.

(* a line of the image cannot be parsed *)
Example ex_err_load :
  fst (tool_main ex_files2 ["count.hcl"; "bad.yo"]) = 1 /\
  tool_stderr (fun l => l) "hclrs" ex_files2 ["count.hcl"; "bad.yo"] =
  Some "error: Could not parse '0x000: zz | garbage' in .yo file.
".
Proof. vm_compute. split; reflexivity. Qed.

(* the simulation aborts *)
Example ex_err_division :
  fst (tool_main ex_files2 ["-q"; "div.hcl"; "p.yo"]) = 1 /\
  tool_stderr (fun l => l) "hclrs" ex_files2 ["-q"; "div.hcl"; "p.yo"] =
  Some "error: Division by zero.
".
Proof. vm_compute. split; reflexivity. Qed.

(* a final state: nothing on standard error *)
Example ex_err_none_final :
  fst (tool_main ex_files2 ["-q"; "count.hcl"; "p.yo"; "1"]) = 0 /\
  tool_stderr (fun l => l) "hclrs" ex_files2 ["-q"; "count.hcl"; "p.yo"; "1"] =
  Some "".
Proof. vm_compute. split; reflexivity. Qed.

(* --check: nothing on standard error *)
Example ex_err_none_check :
  fst (tool_main ex_files2 ["-c"; "count.hcl"; "nofile.yo"; "zz"]) = 0 /\
  tool_stderr (fun l => l) "hclrs" ex_files2 ["-c"; "count.hcl"; "nofile.yo"; "zz"] =
  Some "".
Proof. vm_compute. split; reflexivity. Qed.

(* the usage text is on standard output: nothing on standard error, exit status 1 *)
Example ex_err_none_usage :
  fst (tool_main ex_files2 ["count.hcl"]) = 1 /\
  tool_stderr (fun l => l) "hclrs" ex_files2 ["count.hcl"] =
  Some "".
Proof. vm_compute. split; reflexivity. Qed.

(* the whole triple *)
Example ex_tool_full :
  tool_full "hclrs" ex_files2 ["count.hcl"; "p.yo"; "12x"; "-q"] = (1, "", Some "timeout 12x is not a valid number
") /\
  tool_full "hclrs" ex_files2 ["--check"; "count.hcl"] = (0, syntax_ok_text, Some "").
Proof. vm_compute. split; reflexivity. Qed.

(* (a): one instance of each side *)
Example ex_stderr_empty_iff :
  let q := tool_outcome ex_files2 in
  (status_of (q ["-q"; "count.hcl"; "p.yo"]) = 0 /\ what_of (q ["count.hcl"]) = PrintedUsage /\ status_of (q ["count.hcl"]) = 1) /\
  (status_of (q ["div.hcl"; "p.yo"]) = 1 /\ what_of (q ["div.hcl"; "p.yo"]) = Message "simulation").
Proof. vm_compute. repeat split; reflexivity. Qed.

(* the model declines: a syntax error that needs the parser's error recovery *)
Definition ex_files3 : file_system := files_of [("semi.hcl", bytes_of "pc = 0
Stat = 1;
"); ("p.yo", bytes_of halt_yo)].
Example ex_stderr_not_modelled :
  tool_full "hclrs" ex_files3 ["semi.hcl"; "p.yo"] = (1, "", None) /\
  what_of (tool_outcome ex_files3 ["semi.hcl"; "p.yo"]) = Message "diagnostics".
Proof. vm_compute. split; reflexivity. Qed.

(* (c): every cause, computed (the outcome class of each of the examples above) *)
Example ex_causes :
  let w args := what_of (tool_outcome ex_files2 args) in
  w ["--bogus"] = Message "getopts" /\ w ["nofile.hcl"; "p.yo"] = Message "Error reading" /\
  w ["bad.hcl"; "p.yo"] = Message "diagnostics" /\ w ["count.hcl"; "p.txt"; "12x"] = Message "extension" /\
  w ["count.hcl"; "nofile.yo"; "12x"] = Message "timeout" /\ w ["count.hcl"; "nofile.yo"] = Message "open" /\
  w ["count.hcl"; "bad.yo"] = Message "load" /\ w ["div.hcl"; "p.yo"] = Message "simulation".
Proof. vm_compute. repeat split; reflexivity. Qed.

(* (d): see ToolProofs.ex_files_agree;  (e): the hypotheses of stderr_rejected_file_holds *)
Example ex_rejected_file_hypotheses :
  let args := ["bad.hcl"; "p.yo"] in
  what_of (tool_outcome ex_files2 args) = Message "diagnostics" /\
  nth_error (free_of args) 0 = Some "bad.hcl" /\
  (exists utext, ex_files2 "bad.hcl" = Some (utf8 utext) /\ Forall scalar utext) /\
  exists text, tool_stderr (fun l => l) "hclrs" ex_files2 args = Some text.
Proof.
  cbv zeta. split; [vm_compute; reflexivity|]. split; [reflexivity|]. split.
  - exists [119; 105; 114; 101; 32; 120; 32; 58; 32; 56; 59; 10]. split; [vm_compute; reflexivity|].
    repeat constructor.
  - eexists. vm_compute. reflexivity.
Qed.

Example ex_first_rejected_line : first_rejected_line (bytes_of "0x000: 00                   | halt
foo | bar
") (bytes_of "foo | bar").
Proof.
  exists [bytes_of "0x000: 00                   | halt"], [], [(0, 0)].
  split; [vm_compute; reflexivity|]. split; vm_compute; reflexivity.
Qed.

Print Assumptions getopts_fail_iff_holds.
Print Assumptions getopts_fail_kinds_holds.
Print Assumptions stderr_empty_iff_status_zero_or_usage_holds.
Print Assumptions stderr_modelled_holds.
Print Assumptions stderr_never_with_final_state_holds.
Print Assumptions stderr_message_kinds_holds.
Print Assumptions stderr_depends_on_files_read_holds.
Print Assumptions stderr_program_name_free_holds.
Print Assumptions contents_name_examples_holds.
Print Assumptions contents_name_simple_holds.
Print Assumptions stderr_rejected_file_holds.
Print Assumptions stderr_rejected_file_total_holds.
