(* Model of Program::new (src/program.rs): declaration bookkeeping, constant resolution,
   register banks, missing-wire checks, preprocess_fixed and assignments_to_actions.

   Hash iteration order is irrelevant to WHICH diagnostics are produced (only to their order):
   the model iterates in insertion order and diagnostics are compared as multisets.  The graph
   handed to the sorter is presented in insertion order as well (Graph.v quantifies over all
   presentations). *)
From HclV Require Import Base Expr Machine Graph.
Open Scope string_scope.
Open Scope list_scope.
Open Scope N_scope.

Inductive stmt :=
| SConst (decls : list (string * expr))
| SWire (decls : list (string * width))
| SAssign (assigns : list (list string * expr))
| SBank (name : string) (regs : list (string * width * expr)).

(* ---- small helpers ---------------------------------------------------------------------- *)
Fixpoint nodup_str (l : list string) : list string :=
  match l with
  | [] => []
  | x :: r => if mem_str x r then nodup_str r else x :: nodup_str r
  end.

Fixpoint count_str (x : string) (l : list string) : nat :=
  match l with [] => O | y :: r => ((if String.eqb x y then 1 else 0) + count_str x r)%nat end.

Definition add_set (x : string) (l : list string) : list string := if mem_str x l then l else l ++ [x].

Definition errs_for (k : ekind) (name : string) (n : nat) : list err := repeat (mkErr k [name]) n.

(* chars of a UTF-8 string: split before every non-continuation byte *)
Fixpoint utf8_chars (s : string) (cur : string) : list string :=
  match s with
  | EmptyString => match cur with EmptyString => [] | _ => [cur] end
  | String c r =>
      let n := N_of_ascii c in
      if (128 <=? n) && (n <? 192) then utf8_chars r (cur ++ String c EmptyString)%string
      else match cur with
           | EmptyString => utf8_chars r (String c EmptyString)
           | _ => cur :: utf8_chars r (String c EmptyString)
           end
  end.

Definition all_out_names (banks : list bank) : list string :=
  flat_map (fun b => map (fun sg => snd (fst sg)) (b_signals b)) banks.
Definition all_in_names (banks : list bank) : list string :=
  flat_map (fun b => map (fun sg => fst (fst sg)) (b_signals b)) banks.

Section Build.
  Variable f : features.
  Variable fixed : list fixed_fn.
  (* char::is_lowercase / is_uppercase on one character (its UTF-8 bytes) *)
  Variable is_lower : string -> bool.
  Variable is_upper : string -> bool.

  Definition fixed_in_names (ff : fixed_fn) : list string := map fst (ff_ins ff).
  Definition fixed_wires : list (string * width) :=
    flat_map (fun ff => map (fun nw => (fst nw, Bits (snd nw))) (ff_ins ff) ++
                        match ff_out ff with Some (n, w) => [(n, Bits w)] | None => [] end) fixed.
  Definition fixed_out_names : list string :=
    flat_map (fun ff => match ff_out ff with Some (n, _) => [n] | None => [] end) fixed.
  Definition fixed_names : list string := map fst fixed_wires.
  Definition fixed_types : list (string * wtype) :=
    flat_map (fun ff => map (fun nw => (fst nw, TBuiltinInput)) (ff_ins ff) ++
                        match ff_out ff with Some (n, _) => [(n, TBuiltinOutput)] | None => [] end) fixed.

  (* ---- step 1: split the statements ----------------------------------------------------- *)
  Record st1 := mkSt1 {
    s_wires : list (string * width);        (* `wires` *)
    s_decls : list string;                  (* keys of wire_decl_spans *)
    s_assigns : list (string * expr);       (* `assignments` *)
    s_assigned : list string;               (* keys of assign_spans *)
    s_needed : list string;                 (* `needed_wires` *)
    s_consts : list (string * expr);        (* `constants_raw` *)
    s_banks : list (string * list (string * width * expr));
    s_types : list (string * wtype);
    s_errs : list err
  }.

  Definition check_double_declare (s : st1) (name : string) : list err :=
    if mem_str name (s_decls s) then [mkErr RedeclaredWire [name]]
    else if mem_str name fixed_names then [mkErr RedeclaredBuiltinWire [name]]
    else [].

  Definition step1_const (s : st1) (d : string * expr) : st1 :=
    let '(name, e) := d in
    mkSt1 (s_wires s) (add_set name (s_decls s)) (s_assigns s) (s_assigned s) (s_needed s)
          (upd (s_consts s) name e) (s_banks s) (upd (s_types s) name TConstant)
          (s_errs s ++ check_double_declare s name).

  Definition step1_wire (s : st1) (d : string * width) : st1 :=
    let '(name, w) := d in
    mkSt1 (upd (s_wires s) name w) (add_set name (s_decls s)) (s_assigns s) (s_assigned s)
          (add_set name (s_needed s)) (s_consts s) (s_banks s) (upd (s_types s) name TNormal)
          (s_errs s ++ check_double_declare s name).

  Definition step1_assign_name (e : expr) (s : st1) (name : string) : st1 :=
    let errs := if mem_str name (s_assigned s) then [mkErr DoubleAssignedWire [name]]
                else if mem_str name fixed_out_names then [mkErr DoubleAssignedFixedOutWire [name]]
                else [] in
    mkSt1 (s_wires s) (s_decls s) (upd (s_assigns s) name e) (add_set name (s_assigned s))
          (s_needed s) (s_consts s) (s_banks s) (s_types s) (s_errs s ++ errs).

  Definition step1 (s : st1) (x : stmt) : st1 :=
    match x with
    | SConst decls => fold_left step1_const decls s
    | SWire decls => fold_left step1_wire decls s
    | SAssign assigns =>
        fold_left (fun s1 a => fold_left (step1_assign_name (snd a)) (fst a) s1) assigns s
    | SBank name regs =>
        mkSt1 (s_wires s) (s_decls s) (s_assigns s) (s_assigned s) (s_needed s) (s_consts s)
              (s_banks s ++ [(name, regs)]) (s_types s) (s_errs s)
    end.

  Definition init1 : st1 :=
    mkSt1 (fold_left (fun m nw => upd m (fst nw) (snd nw)) fixed_wires []) [] [] [] [] [] []
          (fold_left (fun m nt => upd m (fst nt) (snd nt)) fixed_types []) [].

  (* constants may only read constants *)
  Definition const_ref_errors (s : st1) : list err :=
    flat_map (fun ne =>
      let e := snd ne in
      flat_map (fun r =>
        let is_const := has (s_consts s) r in
        if has (s_wires s) r && negb is_const then errs_for NonConstantWireRead r (count_str r (refs e))
        else if negb is_const then errs_for UndeclaredWireRead r (count_str r (refs e))
        else []) (nodup_str (refs e))) (s_consts s).

  Definition const_assigned_errors (s : st1) : list err :=
    flat_map (fun n => if has (s_consts s) n then [mkErr ConstantAssigned [n]] else []) (s_assigned s).

  (* ---- step 2: resolve_constants -------------------------------------------------------- *)
  Definition graph_insert (g : graph string) (a b : string) : graph string :=
    let nodes := add_set b (add_set a (g_nodes g)) in
    let succ := match lookup (g_succ g) a with
                | Some l => upd (g_succ g) a (add_set b l)
                | None => g_succ g ++ [(a, [b])]
                end in
    mkGraph nodes succ (g_num_edges g + 1).

  Definition graph_add_node (g : graph string) (a : string) : graph string :=
    mkGraph (add_set a (g_nodes g)) (g_succ g) (g_num_edges g).

  Definition empty_graph : graph string := mkGraph [] [] 0.

  Definition const_graph (consts : list (string * expr)) : graph string :=
    fold_left (fun g ne =>
                 graph_add_node (fold_left (fun g1 r => graph_insert g1 r (fst ne)) (nodup_str (refs (snd ne))) g)
                                (fst ne))
              consts empty_graph.

  Fixpoint eval_consts (consts : list (string * expr)) (order : list string)
           (vals : list (string * wval)) (errs : list err) : list (string * wval) * list err :=
    match order with
    | [] => (vals, errs)
    | n :: r =>
        match lookup consts n with
        | None => (vals, errs ++ [mkErr Panicked [n]])
        | Some e =>
            (* constants obey the width rules too: checked against the constants resolved so far *)
            match check f (fun k => match lookup vals k with Some v => Some (wd v) | None => None end)
                        (lookup vals) e with
            | Err es => eval_consts consts r vals (errs ++ es)
            | Ok _ =>
                match eval f (lookup vals) e with
                | Ok v => eval_consts consts r (upd vals n v) errs
                | Err es => eval_consts consts r vals (errs ++ es)
                end
            end
        end
    end.

  Definition resolve_constants (consts : list (string * expr)) : result (list (string * wval)) :=
    do r <- toposort string String.eqb (const_graph consts);
    match r with
    | inl order =>
        let '(vals, errs) := eval_consts consts order [] [] in
        match errs with [] => Ok vals | _ => Err errs end
    | inr cyc => err1 WireLoop cyc
    end.

  (* ---- step 3: register banks ------------------------------------------------------------ *)
  Record st3 := mkSt3 {
    t_banks : list bank;
    t_defaulted : list string;
    t_types : list (string * wtype);
    t_seen : list string;                         (* seen_registers *)
    t_in_spans : list string;                     (* register_in_spans keys *)
    t_errs : list err
  }.

  Definition step3_register (s : st1) (consts : list (string * wval)) (bank_name inp outp : string)
             (acc : st3 * list (string * string * width) * list (string * wval))
             (r : string * width * expr) : st3 * list (string * string * width) * list (string * wval) :=
    let '(t, sigs, defaults) := acc in
    let '(rname, w, dflt) := r in
    let in_name := (inp ++ "_" ++ rname)%string in
    let out_name := (outp ++ "_" ++ rname)%string in
    let types := upd (upd (t_types t) in_name TRegisterBankInput) out_name TRegisterBankOutput in
    let e_redecl := flat_map (fun n => if mem_str n (s_decls s) then [mkErr RedeclaredWire [n]] else [])
                             [in_name; out_name] in
    let e_nonconst := flat_map (fun rf =>
                        if has (s_wires s) rf && negb (has consts rf)
                        then errs_for NonConstantWireRead rf (count_str rf (refs dflt)) else [])
                        (nodup_str (refs dflt)) in
    let e_dup := if has defaults out_name then [mkErr DuplicateRegister [bank_name; rname]] else [] in
    let e_assigned := if has (s_assigns s) out_name then [mkErr DoubleAssignedRegisterWire [out_name]] else [] in
    let e_out := if mem_str out_name (t_seen t) then [mkErr DoubleDeclaredRegisterOutWire [out_name]] else [] in
    let seen1 := add_set out_name (t_seen t) in
    let e_in := if mem_str in_name seen1 then [mkErr DoubleDeclaredRegisterOutWire [in_name]] else [] in
    let seen2 := add_set in_name seen1 in
    let pre := e_redecl ++ e_nonconst ++ e_dup ++ e_assigned ++ e_out ++ e_in in
    match pre with
    | _ :: _ =>
        (mkSt3 (t_banks t) (t_defaulted t) types seen2 (t_in_spans t) (t_errs t ++ pre), sigs, defaults)
    | [] =>
        (* initial values obey the width rules too: checked against the resolved constants *)
        match check f (fun k => match lookup consts k with Some v => Some (wd v) | None => None end)
                    (lookup consts) dflt with
        | Err es =>
            (mkSt3 (t_banks t) (t_defaulted t) types seen2 (t_in_spans t) (t_errs t ++ es), sigs, defaults)
        | Ok _ =>
        match eval f (lookup consts) dflt with
        | Ok v =>
            let e_w := match wcombine (wd v) w with
                       | None => [mkErr MismatchedRegisterDefaultWidths [bank_name; rname]]
                       | Some _ => []
                       end in
            (mkSt3 (t_banks t) (t_defaulted t) types seen2 (add_set in_name (t_in_spans t)) (t_errs t ++ e_w),
             sigs ++ [(in_name, out_name, w)], upd defaults out_name (as_width w v))
        | Err es =>
            (mkSt3 (t_banks t) (t_defaulted t) types seen2 (t_in_spans t) (t_errs t ++ es), sigs, defaults)
        end
        end
    end.

  Definition step3_bank (s : st1) (consts : list (string * wval)) (t : st3)
             (b : string * list (string * width * expr)) : st3 :=
    let '(name, regs) := b in
    match utf8_chars name "" with
    | [inp; outp] =>
        if negb (is_lower inp) || negb (is_upper outp)
        then mkSt3 (t_banks t) (t_defaulted t) (t_types t) (t_seen t) (t_in_spans t)
                   (t_errs t ++ [mkErr InvalidRegisterBankName [name]])
        else
          let stall := ("stall_" ++ outp)%string in
          let bubble := ("bubble_" ++ outp)%string in
          let dfl := (if has (s_assigns s) stall then [] else [stall]) ++
                     (if has (s_assigns s) bubble then [] else [bubble]) in
          let e_special := flat_map (fun n => if mem_str n (s_decls s) then [mkErr RedeclaredWire [n]] else [])
                                    [stall; bubble] in
          let t1 := mkSt3 (t_banks t) (fold_left (fun l x => add_set x l) dfl (t_defaulted t))
                          (upd (upd (t_types t) stall TRegisterBankSpecial) bubble TRegisterBankSpecial)
                          (t_seen t) (t_in_spans t) (t_errs t ++ e_special) in
          let '(t2, sigs, defaults) := fold_left (step3_register s consts name inp outp) regs (t1, [], []) in
          mkSt3 (t_banks t2 ++ [mkBank name sigs defaults stall bubble]) (t_defaulted t2) (t_types t2)
                (t_seen t2) (t_in_spans t2) (t_errs t2)
    | _ => mkSt3 (t_banks t) (t_defaulted t) (t_types t) (t_seen t) (t_in_spans t)
                 (t_errs t ++ [mkErr InvalidRegisterBankName [name]])
    end.

  (* ---- step 4/5 and assignments_to_actions ---------------------------------------------- *)
  Definition bank_wires (banks : list bank) : list (string * width) :=
    flat_map (fun b => flat_map (fun sg => let '(i, o, w) := sg in [(o, w); (i, w)]) (b_signals b) ++
                       [(b_stall b, Bits 1); (b_bubble b, Bits 1)]) banks.

  Definition unset_errors (s : st1) (t : st3) (needed : list string) : list err :=
    flat_map (fun n =>
      if has (s_assigns s) n then []
      else if mem_str n (s_decls s) then [mkErr UnsetWire [n]]
      else if mem_str n (t_in_spans t) then [mkErr UnsetRegisterInputWire [n]]
      else [mkErr UnsetBuiltinWire [n]]) needed.

  Definition assign_graph (assigns : list (string * expr)) (known : list string) : graph string :=
    fold_left (fun g ne =>
                 fold_left (fun g1 r => if mem_str r known then g1 else graph_insert g1 r (fst ne))
                           (nodup_str (refs (snd ne))) (graph_add_node g (fst ne)))
              assigns empty_graph.

  Definition graph_has_node (g : graph string) (n : string) : bool := mem_str n (g_nodes g).

  (* preprocess_fixed: (graph, fixed_by_output, fixed_no_output, errors) *)
  Definition preprocess_one (consts : list (string * wval)) (assigns : list (string * expr))
             (acc : graph string * list (string * fixed_fn) * list fixed_fn * list err) (ff : fixed_fn)
    : graph string * list (string * fixed_fn) * list fixed_fn * list err :=
    let '(g, by_out, no_out, errs) := acc in
    let missing := filter (fun n => negb (has assigns n)) (fixed_in_names ff) in
    let included := filter (fun n => has assigns n) (fixed_in_names ff) in
    let e_missing := map (fun n => mkErr UnsetBuiltinWire [n]) missing in
    let install (errs1 : list err) :=
        match ff_out ff with
        | None => (g, by_out, no_out ++ [ff], errs1)
        | Some (o, _) =>
            (fold_left (fun g1 n => graph_insert g1 n o) (fixed_in_names ff) g, upd by_out o ff, no_out, errs1)
        end in
    match missing with
    | [] => install errs
    | _ :: _ =>
        if ff_mandatory ff then install (errs ++ e_missing)
        else
          let e1 := match ff_out ff with
                    | Some (o, _) => if graph_has_node g o then e_missing else []
                    | None => []
                    end in
          let e2 :=
            if (List.length missing =? List.length (ff_ins ff))%nat then []
            else
              let disabled :=
                match ff_enable ff with
                | Some en =>
                    match lookup assigns en with
                    | Some ee => match eval f (lookup consts) ee with
                                 | Ok v => negb (is_true v)
                                 | Err _ => false
                                 end
                    | None => false
                    end
                | None => false
                end in
              if disabled then [] else [mkErr PartialFixedInput (included ++ ["/"] ++ missing)] in
          (g, by_out, no_out, errs ++ e1 ++ e2)
    end.

  Fixpoint schedule (widths : list (string * width)) (consts : list (string * wval))
           (assigns : list (string * expr)) (by_out : list (string * fixed_fn)) (decls : list string)
           (order : list string) (acts : list action) (errs : list err) (undeclared : list string)
    : list action * list err * list string :=
    match order with
    | [] => (acts, errs, undeclared)
    | n :: r =>
        match lookup assigns n with
        | Some e =>
            match lookup widths n with
            | Some w =>
                match check f (lookup widths) (lookup consts) e with
                | Ok we =>
                    let e1 := match wcombine w we with
                              | None => [mkErr MismatchedWireWidths [n]]
                              | Some _ => []
                              end in
                    schedule widths consts assigns by_out decls r (acts ++ [AAssign n e w]) (errs ++ e1) undeclared
                | Err es => schedule widths consts assigns by_out decls r acts (errs ++ es) undeclared
                end
            | None =>
                schedule widths consts assigns by_out decls r acts (errs ++ [mkErr UndeclaredWireAssigned [n]]) undeclared
            end
        | None =>
            match lookup by_out n with
            | Some ff => schedule widths consts assigns by_out decls r (acts ++ [ff_action ff]) errs undeclared
            | None =>
                if mem_str n decls
                then schedule widths consts assigns by_out decls r acts (errs ++ [mkErr UnsetWire [n]]) undeclared
                else schedule widths consts assigns by_out decls r acts errs (add_set n undeclared)
            end
        end
    end.

  Definition assignments_to_actions (widths : list (string * width)) (consts : list (string * wval))
             (assigns : list (string * expr)) (known : list string) (decls : list string)
    : result (list action) :=
    let g0 := assign_graph assigns known in
    let '(g, by_out, no_out, errs0) := fold_left (preprocess_one consts assigns) fixed (g0, [], [], []) in
    match errs0 with
    | _ :: _ => Err errs0
    | [] =>
        do r <- toposort string String.eqb g;
        match r with
        | inr cyc => err1 WireLoop cyc
        | inl order =>
            let '(acts, errs, undeclared) := schedule widths consts assigns by_out decls order [] [] [] in
            let errs1 := errs ++ map (fun n => mkErr UnsetUndeclaredWire [n]) undeclared in
            match errs1 with
            | _ :: _ => Err errs1
            | [] => Ok (acts ++ map ff_action no_out)
            end
        end
    end.

  Definition build_program (stmts : list stmt) : result program :=
    let s := fold_left step1 stmts init1 in
    let errs1 := s_errs s ++ const_assigned_errors s ++ const_ref_errors s in
    match errs1 with
    | _ :: _ => Err errs1
    | [] =>
        do consts <- resolve_constants (s_consts s);
        let t := fold_left (step3_bank s consts) (s_banks s) (mkSt3 [] [] (s_types s) [] [] []) in
        let widths1 := fold_left (fun m nw => upd m (fst nw) (snd nw)) (bank_wires (t_banks t)) (s_wires s) in
        let known_banks := all_out_names (t_banks t) in
        let needed := fold_left (fun l x => add_set x l) (all_in_names (t_banks t)) (s_needed s) in
        let errs4 := t_errs t ++ unset_errors s t needed in
        let widths := fold_left (fun m nv => upd m (fst nv) (wd (snd nv))) consts widths1 in
        (* a control signal the program leaves unassigned is 0 throughout: a known value *)
        let known := known_banks ++ t_defaulted t ++ map fst consts in
        match errs4 with
        | _ :: _ => Err errs4
        | [] =>
            do acts <- assignments_to_actions widths consts (s_assigns s) known (s_decls s);
            Ok (mkProgram consts acts (t_banks t) (t_defaulted t) (t_types t))
        end
    end.
End Build.

(* ASCII classification used by the extracted driver (non-ASCII letters are classified by the
   Unicode tables of Rust's std, which are not modelled: such bank names are outside the
   correspondence and exercised at implementation level only) *)
Definition ascii_lower (c : string) : bool :=
  match c with
  | String a EmptyString => let n := N_of_ascii a in (97 <=? n) && (n <=? 122)
  | _ => false
  end.
Definition ascii_upper (c : string) : bool :=
  match c with
  | String a EmptyString => let n := N_of_ascii a in (65 <=? n) && (n <=? 90)
  | _ => false
  end.

(* the classification used by the extracted driver: ASCII plus the few non-ASCII letters the
   generators use (the same as Lexer.test_uclass knows): e-acute, u-umlaut, alpha are lower case,
   E-acute, U-umlaut, Alpha are upper case; everything else non-ASCII is neither *)
Definition test_lower (c : string) : bool :=
  ascii_lower c || existsb (String.eqb c) [string_of_bytes [195; 169]; string_of_bytes [195; 188]; string_of_bytes [206; 177]].
Definition test_upper (c : string) : bool :=
  ascii_upper c || existsb (String.eqb c) [string_of_bytes [195; 137]; string_of_bytes [195; 156]; string_of_bytes [206; 145]].
