(* Proofs of the statements of SpanParserSpec.v. *)
From Coq Require Import Lia.
From HclV Require Import Base Expr Build Lexer Parser LexParseSpec LexParseProofs
                         Yo Region RegionSpec RegionProofs TriviaSpec TriviaProofs LexLocSpec LexLocProofs
                         Generated SpanParser SpanParserLemmas SpanParserSpec.
Open Scope list_scope.
Open Scope N_scope.

(* ====================================================================================== *)
(* 0. token sequences: extents, segments, alignment, order                                *)
(* ====================================================================================== *)
Lemma first_start_app a b : a <> [] -> first_start (a ++ b) = first_start a.
Proof. destruct a; [congruence|reflexivity]. Qed.

Lemma last_end_cons t w : w <> [] -> last_end (t :: w) = last_end w.
Proof. destruct w; [congruence|reflexivity]. Qed.

Lemma last_end_app a b : b <> [] -> last_end (a ++ b) = last_end b.
Proof.
  intros Hb. induction a as [|t a IH]; [reflexivity|].
  cbn [app]. rewrite last_end_cons; [exact IH|]. destruct a; [exact Hb|discriminate].
Qed.

Lemma last_end_snoc a t : last_end (a ++ [t]) = tend t.
Proof. rewrite last_end_app; [reflexivity|discriminate]. Qed.

Lemma app_nonempty_l {A} (a b : list A) : a <> [] -> a ++ b <> [].
Proof. destruct a; [congruence|discriminate]. Qed.
Lemma app_nonempty_r {A} (a b : list A) : b <> [] -> a ++ b <> [].
Proof. destruct a; [trivial|discriminate]. Qed.

(* c is a contiguous part of w *)
Definition seg (c w : list tok) : Prop := exists p q, w = p ++ c ++ q.

Lemma seg_refl w : seg w w.
Proof. exists [], []. cbn. rewrite app_nil_r. reflexivity. Qed.
Lemma seg_trans a b c : seg a b -> seg b c -> seg a c.
Proof.
  intros (p1 & q1 & ->) (p2 & q2 & ->). exists (p2 ++ p1), (q1 ++ q2).
  rewrite <- !app_assoc. reflexivity.
Qed.
Lemma seg_app_r c w q : seg c w -> seg c (w ++ q).
Proof. intros (p & q0 & ->). exists p, (q0 ++ q). rewrite <- !app_assoc. reflexivity. Qed.
Lemma seg_app_l c w p : seg c w -> seg c (p ++ w).
Proof. intros (p0 & q & ->). exists (p ++ p0), q. rewrite <- !app_assoc. reflexivity. Qed.
Lemma seg_cons c w t : seg c w -> seg c (t :: w).
Proof. apply (seg_app_l c w [t]). Qed.
Lemma seg_here c q : seg c (c ++ q).
Proof. apply seg_app_r, seg_refl. Qed.
Lemma seg_there c p : seg c (p ++ c).
Proof. apply seg_app_l, seg_refl. Qed.

Lemma nth_error_last_end w : w <> [] ->
  exists t, nth_error w (List.length w - 1) = Some t /\ last_end w = tend t.
Proof.
  induction w as [|t w IH]; [congruence|]. intros _.
  destruct w as [|t2 w]; [exists t; split; reflexivity|].
  destruct (IH ltac:(discriminate)) as (u & Hu & He). exists u. split; [|exact He].
  cbn [List.length] in Hu |- *. replace (S (S (List.length w)) - 1)%nat with (S (S (List.length w) - 1)) by lia.
  exact Hu.
Qed.

Lemma aligned_extent c : c <> [] -> token_aligned c (extent c).
Proof.
  intros Hc. destruct (nth_error_last_end c Hc) as (u & Hu & He).
  destruct c as [|t c]; [congruence|].
  exists O, (List.length (t :: c) - 1)%nat, t, u. split; [lia|]. split; [reflexivity|]. split; [exact Hu|].
  split; [reflexivity|exact He].
Qed.

Lemma aligned_seg c w s : token_aligned c s -> seg c w -> token_aligned w s.
Proof.
  intros (i & j & ti & tj & Hij & Hi & Hj & Hs & He) (p & q & ->).
  exists (List.length p + i)%nat, (List.length p + j)%nat, ti, tj. split; [lia|].
  assert (Hnth : forall k t, nth_error c k = Some t -> nth_error (p ++ c ++ q) (List.length p + k) = Some t).
  { intros k t Hk. rewrite nth_error_app2 by lia. replace (List.length p + k - List.length p)%nat with k by lia.
    rewrite nth_error_app1; [exact Hk|]. apply nth_error_Some. congruence. }
  split; [apply Hnth; exact Hi|]. split; [apply Hnth; exact Hj|]. split; assumption.
Qed.

Lemma aligned_sub c w : c <> [] -> seg c w -> token_aligned w (extent c).
Proof. intros Hc Hs. exact (aligned_seg c w _ (aligned_extent c Hc) Hs). Qed.

Lemma aligned_tok t w : In t w -> token_aligned w (tspan t).
Proof.
  intros Hin. destruct (In_nth_error _ _ Hin) as (i & Hi).
  exists i, i, t, t. split; [lia|]. repeat split; assumption.
Qed.

(* ---- order ---- *)
Lemma tokens_from_weaken pos pos' w : (pos' <= pos)%nat -> tokens_from pos w -> tokens_from pos' w.
Proof. destruct w as [|t w]; [trivial|]. cbn. intros Hle (H1 & H2 & H3). repeat split; [lia|assumption|assumption]. Qed.

Lemma tokens_from_app pos a b : tokens_from pos (a ++ b) ->
  tokens_from pos a /\ tokens_from (match a with [] => pos | _ => last_end a end) b.
Proof.
  revert pos. induction a as [|t a IH]; intros pos H; [split; [exact I|exact H]|].
  cbn [app tokens_from] in H. destruct H as (H1 & H2 & H3). destruct (IH _ H3) as [Ha Hb].
  split; [cbn; repeat split; assumption|].
  destruct a as [|t2 a]; [exact Hb|]. rewrite last_end_cons by discriminate. exact Hb.
Qed.

Lemma tokens_from_bounds pos w : tokens_from pos w -> w <> [] ->
  (pos <= first_start w)%nat /\ (first_start w < last_end w)%nat.
Proof.
  revert pos. induction w as [|t w IH]; [congruence|]. intros pos (H1 & H2 & H3) _.
  split; [exact H1|]. destruct w as [|t2 w]; [exact H2|].
  rewrite last_end_cons by discriminate. destruct (IH _ H3 ltac:(discriminate)) as [Ha Hb].
  cbn [first_start] in *. lia.
Qed.

Lemma tokens_from_nth pos w : tokens_from pos w -> forall i t, nth_error w i = Some t ->
  (pos <= tstart t)%nat /\ (tstart t < tend t)%nat /\ (first_start w <= tstart t)%nat /\
  (tend t <= last_end w)%nat /\ tokens_from (tend t) (skipn (S i) w).
Proof.
  revert pos. induction w as [|u w IH]; intros pos H i t Hi; [destruct i; discriminate|].
  destruct H as (H1 & H2 & H3).
  destruct i as [|i].
  - injection Hi as <-. repeat split; try assumption; [cbn; lia|].
    destruct w as [|u2 w]; [cbn; lia|]. rewrite last_end_cons by discriminate.
    destruct (tokens_from_bounds _ _ H3 ltac:(discriminate)). cbn [first_start] in *. lia.
  - cbn [nth_error] in Hi. destruct (IH _ H3 i t Hi) as (Ha & Hb & Hc & Hd & He).
    assert (Hw : w <> []) by (destruct w; [destruct i; discriminate|discriminate]).
    rewrite last_end_cons by exact Hw. repeat split; try assumption; cbn [first_start]; lia.
Qed.

Lemma nth_error_skipn' {A} (l : list A) : forall n i, nth_error (skipn n l) i = nth_error l (n + i).
Proof.
  induction l as [|x l IH]; intros n i; [destruct n, i; reflexivity|].
  destruct n as [|n]; [reflexivity|]. cbn [skipn]. rewrite IH. reflexivity.
Qed.

(* what alignment means in numbers, for tokens in order *)
Lemma aligned_numbers pos w s : tokens_from pos w -> token_aligned w s ->
  (pos <= fst s)%nat /\ (fst s < snd s)%nat /\ inside s (extent w).
Proof.
  intros Hord (i & j & ti & tj & Hij & Hi & Hj & Hs & He).
  destruct (tokens_from_nth _ _ Hord i ti Hi) as (A1 & A2 & A3 & A4 & A5).
  destruct (tokens_from_nth _ _ Hord j tj Hj) as (B1 & B2 & B3 & B4 & B5).
  assert (Hlt : (tstart ti < tend tj)%nat).
  { destruct (Nat.eq_dec i j) as [->|Hne]; [rewrite Hi in Hj; injection Hj as <-; exact A2|].
    assert (Hj' : nth_error (skipn (S i) w) (j - S i) = Some tj).
    { rewrite nth_error_skipn'. replace (S i + (j - S i))%nat with j by lia. exact Hj. }
    destruct (tokens_from_nth _ _ A5 _ _ Hj') as (C1 & C2 & _). lia. }
  unfold inside, extent. cbn [fst snd]. rewrite Hs, He. lia.
Qed.

Lemma aligned_after pos a b s : tokens_from pos (a ++ b) -> a <> [] -> token_aligned b s ->
  (last_end a <= fst s)%nat.
Proof.
  intros Hord Ha Hal. destruct (tokens_from_app _ _ _ Hord) as [_ Hb].
  destruct a as [|t a]; [congruence|]. exact (proj1 (aligned_numbers _ _ _ Hb Hal)).
Qed.

Lemma tokens_from_seg pos c w : tokens_from pos w -> seg c w -> exists pos', tokens_from pos' c.
Proof.
  intros H (p & q & ->). destruct (tokens_from_app _ _ _ H) as [_ H2].
  destruct (tokens_from_app _ _ _ H2) as [H3 _]. eexists. exact H3.
Qed.

Lemma seg_inside pos c c' : tokens_from pos c -> c' <> [] -> seg c' c -> inside (extent c') (extent c).
Proof.
  intros Hord Hne Hs. exact (proj2 (proj2 (aligned_numbers _ _ _ Hord (aligned_sub c' c Hne Hs)))).
Qed.

Lemma extent_app a b : a <> [] -> b <> [] -> extent (a ++ b) = (first_start a, last_end b).
Proof. intros Ha Hb. unfold extent. rewrite first_start_app, last_end_app by assumption. reflexivity. Qed.
Lemma extent_cons t w : w <> [] -> extent (t :: w) = (tstart t, last_end w).
Proof. intros Hw. exact (extent_app [t] w ltac:(discriminate) Hw). Qed.
Lemma extent_wrap t w t2 : extent (t :: w ++ [t2]) = (tstart t, tend t2).
Proof. rewrite extent_cons by (apply app_nonempty_r; discriminate). rewrite last_end_snoc. reflexivity. Qed.
Lemma extent_one t : extent [t] = tspan t.
Proof. reflexivity. Qed.

(* ====================================================================================== *)
(* 1. expressions: where every node is                                                    *)
(* ====================================================================================== *)
Section Located.
  Variable tiers : list tier.

  (* the tokens c alone are parsed, as an expression and to the end, to the node n *)
  Definition reparses (c : list tok) (n : sexpr) : Prop :=
    exists f ext, parse_expr_sp tiers f c = Some (n, ext, []).

  (* the node n spans exactly the tokens c, which alone are parsed back to it, and every child of n
     is located in the same way at a contiguous part of c *)
  Fixpoint loc (c : list tok) (n : sexpr) {struct n} : Prop :=
    c <> [] /\ espan n = extent c /\ reparses c n /\
    match n with
    | SEConst _ _ | SEWire _ _ => True
    | SEBin _ _ l r | SECat _ l r =>
        (exists c', seg c' c /\ loc c' l) /\ (exists c', seg c' c /\ loc c' r)
    | SEUn _ _ e | SESlice _ e _ _ => exists c', seg c' c /\ loc c' e
    | SEMux _ a => loc_arms c a
    | SEIn _ e xs => (exists c', seg c' c /\ loc c' e) /\ loc_items c xs
    end
  with loc_arms (c : list tok) (a : sarms) {struct a} : Prop :=
    match a with
    | SANil => True
    | SACons cnd v rest =>
        (exists c', seg c' c /\ loc c' cnd) /\ (exists c', seg c' c /\ loc c' v) /\ loc_arms c rest
    end
  with loc_items (c : list tok) (xs : sexprs) {struct xs} : Prop :=
    match xs with
    | SXNil => True
    | SXCons e rest => (exists c', seg c' c /\ loc c' e) /\ loc_items c rest
    end.

  Definition sub (c : list tok) (n : sexpr) : Prop := exists c', seg c' c /\ loc c' n.

  Lemma sub_seg c w n : sub c n -> seg c w -> sub w n.
  Proof. intros (c' & Hs & Hl) Hw. exists c'. split; [exact (seg_trans _ _ _ Hs Hw)|exact Hl]. Qed.

  Lemma loc_arms_iff c a : loc_arms c a <-> forall ch, In ch (arm_exprs a) -> sub c ch.
  Proof.
    induction a as [|cnd v rest IH]; cbn [loc_arms arm_exprs].
    - split; [intros _ ch []|trivial].
    - split.
      + intros (H1 & H2 & H3) ch [<-|[<-|Hin]]; [exact H1|exact H2|exact (proj1 IH H3 ch Hin)].
      + intros H. split; [apply H; left; reflexivity|]. split; [apply H; right; left; reflexivity|].
        apply IH. intros ch Hin. apply H. right. right. exact Hin.
  Qed.

  Lemma loc_items_iff c xs : loc_items c xs <-> forall ch, In ch (item_exprs xs) -> sub c ch.
  Proof.
    induction xs as [|e rest IH]; cbn [loc_items item_exprs].
    - split; [intros _ ch []|trivial].
    - split.
      + intros (H1 & H2) ch [<-|Hin]; [exact H1|exact (proj1 IH H2 ch Hin)].
      + intros H. split; [apply H; left; reflexivity|].
        apply IH. intros ch Hin. apply H. right. exact Hin.
  Qed.

  Lemma loc_facts c n : loc c n ->
    c <> [] /\ espan n = extent c /\ reparses c n /\ forall ch, In ch (children n) -> sub c ch.
  Proof.
    intros H. destruct n; cbn [loc] in H; destruct H as (H1 & H2 & H3 & H4);
      (split; [exact H1|]; split; [exact H2|]; split; [exact H3|]); cbn [children].
    - intros ch [].
    - destruct H4 as [Hl Hr]. intros ch [<-|[<-|[]]]; assumption.
    - intros ch [<-|[]]. exact H4.
    - apply loc_arms_iff. exact H4.
    - intros ch [].
    - intros ch [<-|[]]. exact H4.
    - destruct H4 as [Hl Hr]. intros ch [<-|[<-|[]]]; assumption.
    - destruct H4 as [He Hx]. intros ch [<-|Hin]; [exact He|]. exact (proj1 (loc_items_iff c items) Hx ch Hin).
  Qed.

  Lemma loc_intro c n : c <> [] -> espan n = extent c -> reparses c n ->
    (forall ch, In ch (children n) -> sub c ch) -> loc c n.
  Proof.
    intros H1 H2 H3 H4. destruct n; cbn [loc]; (split; [exact H1|]; split; [exact H2|]; split; [exact H3|]);
      cbn [children] in H4.
    - exact I.
    - split; apply H4; [left|right; left]; reflexivity.
    - apply H4. left. reflexivity.
    - apply loc_arms_iff. exact H4.
    - exact I.
    - apply H4. left. reflexivity.
    - split; apply H4; [left|right; left]; reflexivity.
    - split; [apply H4; left; reflexivity|]. apply loc_items_iff. intros ch Hin. apply H4. right. exact Hin.
  Qed.

  (* every node of a located tree is located at a part of the root's tokens *)
  Lemma loc_all_nodes :
    (forall n c, loc c n -> forall n', In n' (enodes n) -> sub c n') /\
    (forall a c, loc_arms c a -> forall n', In n' (anodes a) -> sub c n') /\
    (forall xs c, loc_items c xs -> forall n', In n' (xnodes xs) -> sub c n').
  Proof.
    apply sexpr_sarms_sexprs_ind.
    - intros sp v c H n' [<-|[]]. exists c. split; [apply seg_refl|exact H].
    - intros sp op l IHl r IHr c H n' Hin. cbn [enodes] in Hin. destruct Hin as [<-|Hin].
      { exists c. split; [apply seg_refl|exact H]. }
      cbn [loc] in H. destruct H as (_ & _ & _ & (cl & Hsl & Hl) & (cr & Hsr & Hr)).
      apply in_app_or in Hin. destruct Hin as [Hin|Hin].
      + exact (sub_seg _ _ _ (IHl _ Hl _ Hin) Hsl).
      + exact (sub_seg _ _ _ (IHr _ Hr _ Hin) Hsr).
    - intros sp op e IHe c H n' Hin. cbn [enodes] in Hin. destruct Hin as [<-|Hin].
      { exists c. split; [apply seg_refl|exact H]. }
      cbn [loc] in H. destruct H as (_ & _ & _ & (ce & Hse & He)).
      exact (sub_seg _ _ _ (IHe _ He _ Hin) Hse).
    - intros sp a IHa c H n' Hin. cbn [enodes] in Hin. destruct Hin as [<-|Hin].
      { exists c. split; [apply seg_refl|exact H]. }
      cbn [loc] in H. destruct H as (_ & _ & _ & Ha). exact (IHa _ Ha _ Hin).
    - intros sp nm c H n' [<-|[]]. exists c. split; [apply seg_refl|exact H].
    - intros sp e IHe lo hi c H n' Hin. cbn [enodes] in Hin. destruct Hin as [<-|Hin].
      { exists c. split; [apply seg_refl|exact H]. }
      cbn [loc] in H. destruct H as (_ & _ & _ & (ce & Hse & He)).
      exact (sub_seg _ _ _ (IHe _ He _ Hin) Hse).
    - intros sp l IHl r IHr c H n' Hin. cbn [enodes] in Hin. destruct Hin as [<-|Hin].
      { exists c. split; [apply seg_refl|exact H]. }
      cbn [loc] in H. destruct H as (_ & _ & _ & (cl & Hsl & Hl) & (cr & Hsr & Hr)).
      apply in_app_or in Hin. destruct Hin as [Hin|Hin].
      + exact (sub_seg _ _ _ (IHl _ Hl _ Hin) Hsl).
      + exact (sub_seg _ _ _ (IHr _ Hr _ Hin) Hsr).
    - intros sp e IHe xs IHx c H n' Hin. cbn [enodes] in Hin. destruct Hin as [<-|Hin].
      { exists c. split; [apply seg_refl|exact H]. }
      cbn [loc] in H. destruct H as (_ & _ & _ & (ce & Hse & He) & Hx).
      apply in_app_or in Hin. destruct Hin as [Hin|Hin].
      + exact (sub_seg _ _ _ (IHe _ He _ Hin) Hse).
      + exact (IHx _ Hx _ Hin).
    - intros c _ n' [].
    - intros cnd IHc v IHv rest IHr c H n' Hin. cbn [loc_arms] in H.
      destruct H as ((cc & Hsc & Hc) & (cv & Hsv & Hv) & Hrest). cbn [anodes] in Hin.
      apply in_app_or in Hin. destruct Hin as [Hin|Hin]; [exact (sub_seg _ _ _ (IHc _ Hc _ Hin) Hsc)|].
      apply in_app_or in Hin. destruct Hin as [Hin|Hin]; [exact (sub_seg _ _ _ (IHv _ Hv _ Hin) Hsv)|].
      exact (IHr _ Hrest _ Hin).
    - intros c _ n' [].
    - intros e IHe rest IHr c H n' Hin. cbn [loc_items] in H. destruct H as ((ce & Hse & He) & Hrest).
      cbn [xnodes] in Hin. apply in_app_or in Hin.
      destruct Hin as [Hin|Hin]; [exact (sub_seg _ _ _ (IHe _ He _ Hin) Hse)|exact (IHr _ Hrest _ Hin)].
  Qed.

  Lemma sub_all_nodes c n : sub c n -> forall n', In n' (enodes n) -> sub c n'.
  Proof. intros (c' & Hs & Hl) n' Hin. exact (sub_seg _ _ _ (proj1 loc_all_nodes n c' Hl n' Hin) Hs). Qed.
End Located.

(* ---- more fuel changes nothing; parsing again what was consumed ---- *)
Lemma Stab1_mono {A} (P : nat -> list tok -> option (A * list tok)) f toks r rest f' :
  Stab1 P f -> P f toks = Some (r, rest) -> (f <= f')%nat -> P f' toks = Some (r, rest).
Proof.
  intros HS H Hf. destruct (HS _ _ _ H) as (w & -> & _ & St). apply St; [exact Hf|apply compat_refl].
Qed.
Lemma Stab_mono {A} (P : nat -> list tok -> option (A * list tok)) f toks r rest f' :
  Stab P f -> P f toks = Some (r, rest) -> (f <= f')%nat -> P f' toks = Some (r, rest).
Proof.
  intros HS H Hf. destruct (HS _ _ _ H) as (w & -> & St). apply St; [exact Hf|apply compat_refl].
Qed.
(* the consumed tokens alone give the same result and nothing remains *)
Lemma Stab1_alone {A} (P : nat -> list tok -> option (A * list tok)) f w r rest :
  Stab1 P f -> P f (w ++ rest) = Some (r, rest) -> forall f', (f <= f')%nat -> P f' w = Some (r, []).
Proof.
  intros HS H f' Hf. destruct (HS _ _ _ H) as (w' & Heq & _ & St). apply app_inv_tail in Heq. subst w'.
  rewrite <- (app_nil_r w) at 1. apply St; [exact Hf|exact I].
Qed.
Lemma Stab1_swap {A} (P : nat -> list tok -> option (A * list tok)) f w r rest :
  Stab1 P f -> P f (w ++ rest) = Some (r, rest) ->
  forall f' rest', (f <= f')%nat -> compat rest rest' -> P f' (w ++ rest') = Some (r, rest').
Proof.
  intros HS H f' rest' Hf Hc. destruct (HS _ _ _ H) as (w' & Heq & _ & St). apply app_inv_tail in Heq. subst w'.
  apply St; assumption.
Qed.

Section Master.
  Variable tiers : list tier.
  Hypothesis Hok : tiers_ok tiers.

  Notation reparses := (reparses tiers).
  Notation loc := (loc tiers).
  Notation sub := (sub tiers).

  Let stab := stable_all tiers.

  Lemma mono_tiers f f' ts toks r : parse_tiers_sp tiers f ts toks = Some r -> (f <= f')%nat ->
    parse_tiers_sp tiers f' ts toks = Some r.
  Proof.
    destruct r as [r rest]. intros H Hf.
    exact (Stab1_mono (fun f toks => parse_tiers_sp tiers f ts toks) f toks r rest f' (proj1 (stab f) ts) H Hf).
  Qed.
  Lemma mono_loop f f' rest_t ops l ext toks r : left_loop_sp tiers f rest_t ops l ext toks = Some r -> (f <= f')%nat ->
    left_loop_sp tiers f' rest_t ops l ext toks = Some r.
  Proof.
    destruct r as [r rest]. intros H Hf.
    exact (Stab_mono (fun f toks => left_loop_sp tiers f rest_t ops l ext toks) f toks r rest f'
                     (proj1 (proj2 (stab f)) rest_t ops l ext) H Hf).
  Qed.

  (* a complete parse by the tighter tiers is a complete parse by all *)
  Lemma climb pre : (forall k ops, In (k, ops) pre -> k <> KBad) ->
    forall ts f w n ext, parse_tiers_sp tiers f ts w = Some (n, ext, []) ->
      parse_tiers_sp tiers (f + List.length pre) (pre ++ ts) w = Some (n, ext, []).
  Proof.
    induction pre as [|[k ops] pre IH]; intros Hpre ts f w n ext H.
    - rewrite Nat.add_0_r. exact H.
    - assert (Hf : (1 <= f)%nat) by (destruct f; [discriminate H|lia]).
      cbn [List.length app]. replace (f + S (List.length pre))%nat with (S (f + List.length pre)) by lia.
      rewrite parse_tiers_sp_S.
      rewrite (IH (fun k' o' Hin => Hpre k' o' (or_intror Hin)) ts f w n ext H).
      destruct k; try reflexivity.
      + destruct (f + List.length pre)%nat eqn:E; [lia|]. reflexivity.
      + exfalso. exact (Hpre KBad ops (or_introl eq_refl) eq_refl).
  Qed.

  Lemma ok_prefix pre ts : tiers = pre ++ ts -> forall k ops, In (k, ops) pre -> k <> KBad.
  Proof. intros -> k ops Hin. apply (Hok k ops). apply in_or_app. left. exact Hin. Qed.

  Lemma fresh_tiers pre ts f w rest n ext : tiers = pre ++ ts ->
    parse_tiers_sp tiers f ts (w ++ rest) = Some (n, ext, rest) -> reparses w n.
  Proof.
    intros Hts H.
    pose proof (Stab1_alone (fun f toks => parse_tiers_sp tiers f ts toks) f w (n, ext) rest
                            (proj1 (stab f) ts) H f (Nat.le_refl _)) as H1.
    exists (f + List.length pre)%nat, ext. unfold parse_expr_sp. rewrite Hts at 2.
    exact (climb pre (ok_prefix pre ts Hts) ts f w n ext H1).
  Qed.

  Lemma fresh_term f w rest n ext :
    parse_term_sp tiers f (w ++ rest) = Some (n, ext, rest) -> reparses w n.
  Proof.
    intros H.
    pose proof (Stab1_alone (parse_term_sp tiers) f w (n, ext) rest
                            (proj1 (proj2 (proj2 (stab f)))) H f (Nat.le_refl _)) as H1.
    apply (fresh_tiers tiers [] (S f) w [] n ext); [symmetry; apply app_nil_r|].
    rewrite app_nil_r, parse_tiers_sp_S. exact H1.
  Qed.

  Lemma fresh_simple f w rest n ext :
    parse_simple_sp tiers f (w ++ rest) = Some (n, ext, rest) -> reparses w n.
  Proof.
    intros H.
    pose proof (Stab1_alone (parse_simple_sp tiers) f w (n, ext) rest
                            (proj1 (proj2 (proj2 (proj2 (stab f))))) H f (Nat.le_refl _)) as H1.
    apply (fresh_term (S f) w [] n ext). rewrite app_nil_r, parse_term_sp_S.
    destruct f as [|f0]; [discriminate H1|]. pose proof H1 as H2. rewrite parse_simple_sp_S in H2.
    destruct w as [|t w1]; [discriminate H2|].
    assert (Hu : unop_of_token (tk t) = None) by (destruct (tk t); try discriminate H2; reflexivity).
    rewrite Hu. rewrite H1. reflexivity.
  Qed.

  (* the loop of a left-associative tier: having read w0 as l, with [cur] still to read, is a state
     the parser of that tier reaches from the beginning of w0 *)
  Definition Reach (rest_t : list tier) (ops : list binop) (w0 : list tok) (l : sexpr) (ext : srcspan)
             (cur : list tok) : Prop :=
    forall tail F res, compat cur tail -> left_loop_sp tiers F rest_t ops l ext tail = Some res ->
      exists F', parse_tiers_sp tiers F' ((KLeft, ops) :: rest_t) (w0 ++ tail) = Some res.

  Definition EI (toks : list tok) (n : sexpr) (ext : srcspan) (rest : list tok) : Prop :=
    exists w, toks = w ++ rest /\ w <> [] /\ ext = extent w /\ sub w n.

  Definition inv_at (f : nat) : Prop :=
    (forall pre ts toks n ext rest, tiers = pre ++ ts ->
        parse_tiers_sp tiers f ts toks = Some (n, ext, rest) -> EI toks n ext rest) /\
    (forall pre rest_t ops l ext toks n ext' rest0 w0, tiers = pre ++ (KLeft, ops) :: rest_t ->
        left_loop_sp tiers f rest_t ops l ext toks = Some (n, ext', rest0) ->
        w0 <> [] -> ext = extent w0 -> sub w0 l -> Reach rest_t ops w0 l ext toks ->
        exists w, toks = w ++ rest0 /\ ext' = extent (w0 ++ w) /\ sub (w0 ++ w) n) /\
    (forall toks n ext rest, parse_term_sp tiers f toks = Some (n, ext, rest) -> EI toks n ext rest) /\
    (forall toks n ext rest, parse_simple_sp tiers f toks = Some (n, ext, rest) -> EI toks n ext rest) /\
    (forall toks a rest, parse_mux_options_sp tiers f toks = Some (a, rest) ->
        exists w, toks = w ++ rest /\ forall ch, In ch (arm_exprs a) -> sub w ch) /\
    (forall toks xs rest, parse_commas_exprs_sp tiers f toks = Some (xs, rest) ->
        exists w, toks = w ++ rest /\ forall ch, In ch (item_exprs xs) -> sub w ch).
  Ltac ei H w Hw Hne Hext Hsub := destruct H as (w & Hw & Hne & Hext & Hsub).

  Lemma inv_all : forall f, inv_at f.
  Proof.
    induction f as [|f IH].
    - unfold inv_at. repeat split; intros; discriminate.
    - destruct IH as (IH1 & IH2 & IH3 & IH4 & IH5 & IH6).
      unfold inv_at. repeat split.
      + (* parse_tiers *)
        intros pre ts toks n ext rest0 Hts H. pose proof H as H0. rewrite parse_tiers_sp_S in H.
        destruct ts as [|[[| | |] ops] rest]; [| | | |discriminate H].
        * exact (IH3 _ _ _ _ H).
        * (* left-associative tier *)
          destruct (parse_tiers_sp tiers f rest toks) as [[[l ext1] toks1]|] eqn:E1; [|discriminate H].
          assert (Hts' : tiers = (pre ++ [(KLeft, ops)]) ++ rest) by (rewrite Hts, <- app_assoc; reflexivity).
          pose proof (IH1 _ _ _ _ _ _ Hts' E1) as S1. ei S1 w1 Hw1 Hne1 Hext1 Hsub1.
          assert (HR : Reach rest ops w1 l ext1 toks1).
          { intros tail F res Hc HL. exists (S (Nat.max F f)). rewrite parse_tiers_sp_S.
            rewrite Hw1 in E1.
            rewrite (Stab1_swap (fun f toks => parse_tiers_sp tiers f rest toks) f w1 (l, ext1) toks1
                       (proj1 (stab f) rest) E1 (Nat.max F f) tail ltac:(lia) Hc).
            apply (mono_loop F (Nat.max F f)); [exact HL|lia]. }
          destruct (IH2 _ _ _ _ _ _ _ _ _ w1 Hts H Hne1 Hext1 Hsub1 HR) as (w2 & Hw2 & Hext2 & Hsub2).
          exists (w1 ++ w2). split; [rewrite Hw1, Hw2, <- app_assoc; reflexivity|].
          split; [apply app_nonempty_l; exact Hne1|]. split; assumption.
        * (* comparisons *)
          destruct (parse_tiers_sp tiers f rest toks) as [[[l ext1] toks1]|] eqn:E1; [|discriminate H].
          assert (Hts' : tiers = (pre ++ [(KNonAssoc, ops)]) ++ rest) by (rewrite Hts, <- app_assoc; reflexivity).
          pose proof (IH1 _ _ _ _ _ _ Hts' E1) as S1.
          destruct toks1 as [|t toks1]; [injection H as <- <- <-; exact S1|].
          destruct (op_of_token ops (tk t)) as [op|] eqn:Eop; [|injection H as <- <- <-; exact S1].
          destruct (parse_tiers_sp tiers f rest toks1) as [[[r ext2] toks2]|] eqn:E2; [|discriminate H].
          pose proof (IH1 _ _ _ _ _ _ Hts' E2) as S2.
          ei S1 w1 Hw1 Hne1 Hext1 Hsub1. ei S2 w2 Hw2 Hne2 Hext2 Hsub2.
          cbv zeta in H. injection H as <- <- <-.
          assert (Htoks : toks = (w1 ++ t :: w2) ++ toks2) by (rewrite Hw1, Hw2, <- app_assoc; reflexivity).
          assert (Hsp : (fst ext1, snd ext2) = extent (w1 ++ t :: w2)).
          { rewrite Hext1, Hext2, extent_app by (try assumption; discriminate).
            cbn [fst snd extent]. rewrite last_end_cons by assumption. reflexivity. }
          exists (w1 ++ t :: w2). split; [exact Htoks|]. split; [apply app_nonempty_l; exact Hne1|].
          split; [exact Hsp|]. exists (w1 ++ t :: w2). split; [apply seg_refl|].
          apply loc_intro; [apply app_nonempty_l; exact Hne1|exact Hsp| |].
          -- rewrite Htoks in H0. exact (fresh_tiers _ _ _ _ _ _ _ Hts H0).
          -- intros ch [<-|[<-|[]]].
             ++ exact (sub_seg _ _ _ _ Hsub1 (seg_here _ _)).
             ++ apply (sub_seg _ _ _ _ Hsub2). exact (seg_app_l _ _ w1 (seg_cons _ _ t (seg_refl _))).
        * (* set membership *)
          destruct (parse_tiers_sp tiers f rest toks) as [[[l ext1] toks1]|] eqn:E1; [|discriminate H].
          assert (Hts' : tiers = (pre ++ [(KIn, ops)]) ++ rest) by (rewrite Hts, <- app_assoc; reflexivity).
          pose proof (IH1 _ _ _ _ _ _ Hts' E1) as S1.
          destruct toks1 as [|t toks1]; [injection H as <- <- <-; exact S1|].
          destruct (token_eqb (tk t) TIn) eqn:Et; [|injection H as <- <- <-; exact S1].
          destruct toks1 as [|t2 toks2]; [discriminate H|].
          destruct (token_eqb (tk t2) TOpenBrace) eqn:Et2; [|discriminate H].
          destruct (parse_commas_exprs_sp tiers f toks2) as [[items toks3]|] eqn:E2; [|discriminate H].
          destruct toks3 as [|t3 toks3]; [discriminate H|].
          destruct (token_eqb (tk t3) TCloseBrace) eqn:Et3; [|discriminate H].
          destruct (IH6 _ _ _ E2) as (w2 & Hw2 & Hsub2).
          ei S1 w1 Hw1 Hne1 Hext1 Hsub1.
          cbv zeta in H. injection H as <- <- <-.
          set (w := w1 ++ t :: t2 :: w2 ++ [t3]).
          assert (Htoks : toks = w ++ toks3).
          { unfold w. rewrite Hw1, Hw2. repeat (rewrite <- app_assoc; cbn [app]). reflexivity. }
          assert (Hsp : (fst ext1, tend t3) = extent w).
          { unfold w. rewrite Hext1, extent_app by (try assumption; discriminate). cbn [fst extent].
            change (t :: t2 :: w2 ++ [t3]) with ((t :: t2 :: w2) ++ [t3]). rewrite last_end_snoc. reflexivity. }
          assert (Hwne : w <> []) by (apply app_nonempty_l; exact Hne1).
          exists w. split; [exact Htoks|]. split; [exact Hwne|]. split; [exact Hsp|].
          exists w. split; [apply seg_refl|].
          apply loc_intro; [exact Hwne|exact Hsp| |].
          -- rewrite Htoks in H0. exact (fresh_tiers _ _ _ _ _ _ _ Hts H0).
          -- intros ch [<-|Hin].
             ++ exact (sub_seg _ _ _ _ Hsub1 (seg_here _ _)).
             ++ apply (sub_seg _ _ _ _ (Hsub2 ch Hin)). unfold w.
                apply seg_app_l. exact (seg_cons _ _ t (seg_cons _ _ t2 (seg_here _ _))).
      + (* left_loop *)
        intros pre rest_t ops l ext toks n ext' rest0 w0 Hts H Hne0 Hext0 Hsub0 HR.
        rewrite left_loop_sp_S in H.
        assert (Hstop : Some (l, ext, toks) = Some (n, ext', rest0) ->
                  exists w, toks = w ++ rest0 /\ ext' = extent (w0 ++ w) /\ sub (w0 ++ w) n).
        { intros Hinj. injection Hinj as <- <- <-. exists []. rewrite app_nil_r. repeat split; assumption. }
        destruct toks as [|t toks1]; [exact (Hstop H)|].
        destruct (op_of_token ops (tk t)) as [op|] eqn:Eop; [|exact (Hstop H)]. clear Hstop.
        destruct (parse_tiers_sp tiers f rest_t toks1) as [[[r extr] toks2]|] eqn:E2; [|discriminate H].
        assert (Hts' : tiers = (pre ++ [(KLeft, ops)]) ++ rest_t) by (rewrite Hts, <- app_assoc; reflexivity).
        pose proof (IH1 _ _ _ _ _ _ Hts' E2) as S2. ei S2 w2 Hw2 Hne2 Hext2 Hsub2.
        cbv zeta in H.
        set (w0' := w0 ++ t :: w2).
        assert (Hsp : (fst ext, snd extr) = extent w0').
        { unfold w0'. rewrite Hext0, Hext2, extent_app by (try assumption; discriminate).
          cbn [fst snd extent]. rewrite last_end_cons by assumption. reflexivity. }
        assert (Hne0' : w0' <> []) by (apply app_nonempty_l; exact Hne0).
        assert (HR' : Reach rest_t ops w0' (SEBin (fst ext, snd extr) op l r) (fst ext, snd extr) toks2).
        { intros tail F res Hc HL.
          destruct (HR (t :: w2 ++ tail) (S (Nat.max F f)) res (compat_cons _ _ _)) as (F' & HF').
          - rewrite left_loop_sp_S, Eop. rewrite Hw2 in E2.
            rewrite (Stab1_swap (fun f toks => parse_tiers_sp tiers f rest_t toks) f w2 (r, extr) toks2
                       (proj1 (stab f) rest_t) E2 (Nat.max F f) tail ltac:(lia) Hc).
            cbv zeta. apply (mono_loop F (Nat.max F f)); [exact HL|lia].
          - exists F'. unfold w0'. rewrite <- app_assoc. exact HF'. }
        assert (Hsub' : sub w0' (SEBin (fst ext, snd extr) op l r)).
        { exists w0'. split; [apply seg_refl|].
          apply loc_intro; [exact Hne0'|exact Hsp| |].
          - destruct (HR' [] 1%nat (SEBin (fst ext, snd extr) op l r, (fst ext, snd extr), []) I eq_refl) as (F' & HF').
            rewrite app_nil_r in HF'.
            apply (fresh_tiers pre ((KLeft, ops) :: rest_t) F' w0' [] _ (fst ext, snd extr)); [exact Hts|]. rewrite app_nil_r. exact HF'.
          - intros ch [<-|[<-|[]]].
            + exact (sub_seg _ _ _ _ Hsub0 (seg_here _ _)).
            + apply (sub_seg _ _ _ _ Hsub2). unfold w0'. exact (seg_app_l _ _ w0 (seg_cons _ _ t (seg_refl _))). }
        destruct (IH2 _ _ _ _ _ _ _ _ _ w0' Hts H Hne0' Hsp Hsub' HR') as (w3 & Hw3 & Hext3 & Hsub3).
        exists (t :: w2 ++ w3). split; [rewrite Hw2, Hw3; napp; reflexivity|].
        assert (Heq : w0 ++ t :: w2 ++ w3 = w0' ++ w3) by (unfold w0'; rewrite <- app_assoc; reflexivity).
        rewrite Heq. split; assumption.
      + (* parse_term *)
        intros toks n ext rest0 H. pose proof H as H0. rewrite parse_term_sp_S in H.
        destruct toks as [|t toks1]; [discriminate H|].
        destruct (unop_of_token (tk t)) as [u|] eqn:Eu.
        * destruct (parse_simple_sp tiers f toks1) as [[[e exte] toks2]|] eqn:E1; [|discriminate H].
          pose proof (IH4 _ _ _ _ E1) as S1. ei S1 w1 Hw1 Hne1 Hext1 Hsub1.
          cbv zeta in H. injection H as <- <- <-.
          assert (Htoks : t :: toks1 = (t :: w1) ++ toks2) by (rewrite Hw1; reflexivity).
          assert (Hsp : (tstart t, snd exte) = extent (t :: w1)).
          { rewrite Hext1, extent_cons by assumption. reflexivity. }
          exists (t :: w1). split; [exact Htoks|]. split; [discriminate|]. split; [exact Hsp|].
          exists (t :: w1). split; [apply seg_refl|].
          apply loc_intro; [discriminate|exact Hsp| |].
          -- rewrite Htoks in H0. exact (fresh_term _ _ _ _ _ H0).
          -- intros ch [<-|[]]. exact (sub_seg _ _ _ _ Hsub1 (seg_cons _ _ t (seg_refl _))).
        * destruct (parse_simple_sp tiers f (t :: toks1)) as [[[e exte] toks2]|] eqn:E1; [|discriminate H].
          pose proof (IH4 _ _ _ _ E1) as S1.
          destruct toks2 as [|t1 toks2]; [injection H as <- <- <-; exact S1|].
          destruct (token_eqb (tk t1) TOpenBracket) eqn:Eb.
          2:{ destruct toks2 as [|t2 [|t3 [|t4 [|t5 toks2]]]]; injection H as <- <- <-; exact S1. }
          destruct toks2 as [|t2 [|t3 [|t4 [|t5 toks2]]]]; try discriminate H.
          destruct (small_constant (tk t2)) as [lo|] eqn:Elo; [|discriminate H].
          destruct (small_constant (tk t4)) as [hi|] eqn:Ehi; [|discriminate H].
          destruct (token_eqb (tk t3) TDotDot && token_eqb (tk t5) TCloseBracket) eqn:E35; [|discriminate H].
          cbv zeta in H. injection H as <- <- <-.
          ei S1 w1 Hw1 Hne1 Hext1 Hsub1.
          set (w := w1 ++ [t1; t2; t3; t4; t5]).
          assert (Htoks : t :: toks1 = w ++ toks2) by (unfold w; rewrite Hw1, <- app_assoc; reflexivity).
          assert (Hsp : (fst exte, tend t5) = extent w).
          { unfold w. rewrite Hext1, extent_app by (try assumption; discriminate). reflexivity. }
          assert (Hwne : w <> []) by (apply app_nonempty_l; exact Hne1).
          exists w. split; [exact Htoks|]. split; [exact Hwne|]. split; [exact Hsp|].
          exists w. split; [apply seg_refl|].
          apply loc_intro; [exact Hwne|exact Hsp| |].
          -- rewrite Htoks in H0. exact (fresh_term _ _ _ _ _ H0).
          -- intros ch [<-|[]]. exact (sub_seg _ _ _ _ Hsub1 (seg_here _ _)).
      + (* parse_simple *)
        intros toks n ext rest0 H. pose proof H as H0. rewrite parse_simple_sp_S in H.
        destruct toks as [|t toks1]; [discriminate H|].
        destruct (tk t) eqn:Ht; try discriminate H.
        * injection H as <- <- <-. exists [t]. split; [reflexivity|]. split; [discriminate|].
          split; [reflexivity|]. exists [t]. split; [apply seg_refl|].
          apply loc_intro; [discriminate|reflexivity| |intros ch []].
          change (t :: toks1) with ([t] ++ toks1) in H0. exact (fresh_simple _ _ _ _ _ H0).
        * destruct (parse_tiers_sp tiers f tiers toks1) as [[[e exte] toks2]|] eqn:E1; [|discriminate H].
          pose proof (IH1 [] _ _ _ _ _ eq_refl E1) as S1. ei S1 w1 Hw1 Hne1 Hext1 Hsub1.
          destruct toks2 as [|t2 toks2]; [discriminate H|].
          destruct (token_eqb (tk t2) TCloseParen) eqn:Ec.
          -- injection H as <- <- <-. exists (t :: w1 ++ [t2]).
             split; [rewrite Hw1; cbn [app]; rewrite <- app_assoc; reflexivity|]. split; [discriminate|].
             split; [symmetry; apply extent_wrap|].
             apply (sub_seg _ _ _ _ Hsub1). exact (seg_cons _ _ t (seg_here _ _)).
          -- destruct (token_eqb (tk t2) TDotDot) eqn:Ed; [|discriminate H].
             destruct (parse_tiers_sp tiers f tiers toks2) as [[[r extr] toks3]|] eqn:E2; [|discriminate H].
             pose proof (IH1 [] _ _ _ _ _ eq_refl E2) as S2. ei S2 w2 Hw2 Hne2 Hext2 Hsub2.
             destruct toks3 as [|t3 toks3]; [discriminate H|].
             destruct (token_eqb (tk t3) TCloseParen) eqn:Ec3; [|discriminate H].
             cbv zeta in H. injection H as <- <- <-.
             set (w := t :: (w1 ++ t2 :: w2) ++ [t3]).
             assert (Htoks : t :: toks1 = w ++ toks3).
             { unfold w. rewrite Hw1, Hw2. cbn [app]. repeat (rewrite <- app_assoc; cbn [app]). reflexivity. }
             assert (Hsp : (tstart t, tend t3) = extent w) by (symmetry; apply extent_wrap).
             exists w. split; [exact Htoks|]. split; [discriminate|]. split; [exact Hsp|].
             exists w. split; [apply seg_refl|].
             apply loc_intro; [discriminate|exact Hsp| |].
             ++ rewrite Htoks in H0. exact (fresh_simple _ _ _ _ _ H0).
             ++ intros ch [<-|[<-|[]]].
                ** apply (sub_seg _ _ _ _ Hsub1). unfold w. apply seg_cons, seg_app_r, seg_here.
                ** apply (sub_seg _ _ _ _ Hsub2). unfold w. apply seg_cons, seg_app_r.
                   exact (seg_app_l _ _ w1 (seg_cons _ _ t2 (seg_refl _))).
        * destruct (parse_mux_options_sp tiers f toks1) as [[a toks2]|] eqn:E1; [|discriminate H].
          destruct (IH5 _ _ _ E1) as (w1 & Hw1 & Hsub1).
          destruct toks2 as [|t2 toks2]; [discriminate H|].
          destruct (token_eqb (tk t2) TCloseBracket) eqn:Ec; [|discriminate H].
          cbv zeta in H. injection H as <- <- <-.
          set (w := t :: w1 ++ [t2]).
          assert (Htoks : t :: toks1 = w ++ toks2).
          { unfold w. rewrite Hw1. cbn [app]. rewrite <- app_assoc. reflexivity. }
          assert (Hsp : (tstart t, tend t2) = extent w) by (symmetry; apply extent_wrap).
          exists w. split; [exact Htoks|]. split; [discriminate|]. split; [exact Hsp|].
          exists w. split; [apply seg_refl|].
          apply loc_intro; [discriminate|exact Hsp| |].
          -- rewrite Htoks in H0. exact (fresh_simple _ _ _ _ _ H0).
          -- intros ch Hin. apply (sub_seg _ _ _ _ (Hsub1 ch Hin)). unfold w. apply seg_cons, seg_here.
        * injection H as <- <- <-. exists [t]. split; [reflexivity|]. split; [discriminate|].
          split; [reflexivity|]. exists [t]. split; [apply seg_refl|].
          apply loc_intro; [discriminate|reflexivity| |intros ch []].
          change (t :: toks1) with ([t] ++ toks1) in H0. exact (fresh_simple _ _ _ _ _ H0).
      + (* parse_mux_options *)
        intros toks a rest0 H. rewrite parse_mux_options_sp_S in H.
        destruct toks as [|t toks1]; [injection H as <- <-; exists []; split; [reflexivity|intros ch []]|].
        destruct (token_eqb (tk t) TCloseBracket) eqn:Ecb;
          [injection H as <- <-; exists []; split; [reflexivity|intros ch []]|].
        destruct (parse_tiers_sp tiers f tiers (t :: toks1)) as [[[c extc] toks2]|] eqn:E1; [|discriminate H].
        pose proof (IH1 [] _ _ _ _ _ eq_refl E1) as S1. ei S1 w1 Hw1 Hne1 Hext1 Hsub1.
        destruct toks2 as [|t1 toks2]; [discriminate H|].
        destruct (token_eqb (tk t1) TColon) eqn:Ecol; [|discriminate H].
        destruct (parse_tiers_sp tiers f tiers toks2) as [[[v extv] toks3]|] eqn:E2; [|discriminate H].
        pose proof (IH1 [] _ _ _ _ _ eq_refl E2) as S2. ei S2 w2 Hw2 Hne2 Hext2 Hsub2.
        assert (Hlast : forall rest1, toks3 = rest1 -> Some (SACons c v SANil, rest1) = Some (a, rest0) ->
                  exists w, t :: toks1 = w ++ rest0 /\ forall ch, In ch (arm_exprs a) -> sub w ch).
        { intros rest1 <- Hinj. injection Hinj as <- <-. exists (w1 ++ t1 :: w2).
          split; [rewrite Hw1, Hw2, <- app_assoc; reflexivity|].
          intros ch [<-|[<-|[]]].
          - exact (sub_seg _ _ _ _ Hsub1 (seg_here _ _)).
          - apply (sub_seg _ _ _ _ Hsub2). exact (seg_app_l _ _ w1 (seg_cons _ _ t1 (seg_refl _))). }
        destruct toks3 as [|t2 toks3]; [exact (Hlast [] eq_refl H)|].
        destruct (token_eqb (tk t2) TSemicolon) eqn:Esc; [|exact (Hlast _ eq_refl H)]. clear Hlast.
        destruct (parse_mux_options_sp tiers f toks3) as [[more toks4]|] eqn:E3; [|discriminate H].
        destruct (IH5 _ _ _ E3) as (w3 & Hw3 & Hsub3). injection H as <- <-.
        exists (w1 ++ t1 :: w2 ++ t2 :: w3).
        split; [rewrite Hw1, Hw2, Hw3; repeat (rewrite <- app_assoc; cbn [app]); reflexivity|].
        intros ch [<-|[<-|Hin]].
        * exact (sub_seg _ _ _ _ Hsub1 (seg_here _ _)).
        * apply (sub_seg _ _ _ _ Hsub2). exact (seg_app_l _ _ w1 (seg_cons _ _ t1 (seg_here _ _))).
        * apply (sub_seg _ _ _ _ (Hsub3 ch Hin)).
          apply seg_app_l, seg_cons, seg_app_l, seg_cons, seg_refl.
      + (* parse_commas_exprs *)
        intros toks xs rest0 H. rewrite parse_commas_exprs_sp_S in H.
        destruct toks as [|t toks1]; [injection H as <- <-; exists []; split; [reflexivity|intros ch []]|].
        destruct (token_eqb (tk t) TCloseBrace) eqn:Ecb;
          [injection H as <- <-; exists []; split; [reflexivity|intros ch []]|].
        destruct (parse_tiers_sp tiers f tiers (t :: toks1)) as [[[e exte] toks2]|] eqn:E1; [|discriminate H].
        pose proof (IH1 [] _ _ _ _ _ eq_refl E1) as S1. ei S1 w1 Hw1 Hne1 Hext1 Hsub1.
        assert (Hlast : forall rest1, toks2 = rest1 -> Some (SXCons e SXNil, rest1) = Some (xs, rest0) ->
                  exists w, t :: toks1 = w ++ rest0 /\ forall ch, In ch (item_exprs xs) -> sub w ch).
        { intros rest1 <- Hinj. injection Hinj as <- <-. exists w1. split; [exact Hw1|].
          intros ch [<-|[]]. exact Hsub1. }
        destruct toks2 as [|t1 toks2]; [exact (Hlast [] eq_refl H)|].
        destruct (token_eqb (tk t1) TComma) eqn:Ecm; [|exact (Hlast _ eq_refl H)]. clear Hlast.
        destruct (parse_commas_exprs_sp tiers f toks2) as [[more toks3]|] eqn:E2; [|discriminate H].
        destruct (IH6 _ _ _ E2) as (w2 & Hw2 & Hsub2). injection H as <- <-.
        exists (w1 ++ t1 :: w2). split; [rewrite Hw1, Hw2, <- app_assoc; reflexivity|].
        intros ch [<-|Hin].
        * exact (sub_seg _ _ _ _ Hsub1 (seg_here _ _)).
        * apply (sub_seg _ _ _ _ (Hsub2 ch Hin)). exact (seg_app_l _ _ w1 (seg_cons _ _ t1 (seg_refl _))).
  Qed.

  Lemma parse_expr_sp_located f toks n ext rest :
    parse_expr_sp tiers f toks = Some (n, ext, rest) -> EI toks n ext rest.
  Proof. exact (proj1 (inv_all f) [] tiers toks n ext rest eq_refl). Qed.
End Master.

(* ====================================================================================== *)
(* 2. declarations and statements                                                         *)
(* ====================================================================================== *)
Lemma token_eqb_true a b : token_eqb a b = true -> a = b.
Proof. destruct a, b; intros H; try discriminate H; reflexivity. Qed.

(* a table with a tier of unknown kind parses no expression *)
Lemma parse_tiers_some_ok tiers0 : forall ts f toks r,
  parse_tiers_sp tiers0 f ts toks = Some r -> forall k ops, In (k, ops) ts -> k <> KBad.
Proof.
  induction ts as [|[k0 ops0] rest IH]; intros f toks r H k ops Hin; [destruct Hin|].
  destruct f as [|f]; [discriminate H|]. rewrite parse_tiers_sp_S in H.
  assert (Hrest : exists r', parse_tiers_sp tiers0 f rest toks = Some r').
  { destruct k0; [| | |discriminate H];
      (destruct (parse_tiers_sp tiers0 f rest toks) as [r'|]; [exists r'; reflexivity|discriminate H]). }
  destruct Hrest as (r' & Hr'). destruct Hin as [Heq|Hin]; [|exact (IH _ _ _ Hr' k ops Hin)].
  injection Heq as <- <-. destruct k0; discriminate.
Qed.

Lemma parse_expr_some_ok tiers f toks r : parse_expr_sp tiers f toks = Some r -> tiers_ok tiers.
Proof. intros H k ops Hin. exact (parse_tiers_some_ok tiers tiers f toks r H k ops Hin). Qed.

Section StmtInv.
  Variable tiers : list tier.
  Notation sub := (sub tiers).

  Definition wgood (w : list tok) (d : swire_decl) : Prop := token_aligned w (snd d).
  (* a = the tokens before the value (name, "=" ...), b = the tokens of the value *)
  Definition cgood (w : list tok) (d : sconst_decl) : Prop :=
    exists a b, seg (a ++ b) w /\ a <> [] /\ token_aligned a (snd (fst d)) /\ sub b (snd d).
  Definition agood (w : list tok) (x : sassign) : Prop :=
    exists a b, seg (a ++ b) w /\ a <> [] /\ b <> [] /\ snd x = extent (a ++ b) /\
      (forall nm, In nm (fst (fst x)) -> token_aligned a (snd nm)) /\ sub b (snd (fst x)).
  Definition rgood (w : list tok) (r : sreg_decl) : Prop :=
    exists a b, seg (a ++ b) w /\ a <> [] /\ b <> [] /\ snd r = extent (a ++ b) /\ sub b (snd (fst r)).

  Definition sgood (w : list tok) (s : sstmt) : Prop :=
    match s with
    | SSWire d => Forall (wgood w) d
    | SSConst d => Forall (cgood w) d
    | SSAssign a => Forall (agood w) a
    | SSBank _ nsp regs bsp => bsp = extent w /\ token_aligned w nsp /\ Forall (rgood w) regs
    end.

  Lemma wgood_seg c w d : seg c w -> wgood c d -> wgood w d.
  Proof. intros Hs H. exact (aligned_seg _ _ _ H Hs). Qed.
  Lemma cgood_seg c w d : seg c w -> cgood c d -> cgood w d.
  Proof. intros Hs (a & b & H1 & H2). exists a, b. split; [exact (seg_trans _ _ _ H1 Hs)|exact H2]. Qed.
  Lemma agood_seg c w d : seg c w -> agood c d -> agood w d.
  Proof. intros Hs (a & b & H1 & H2). exists a, b. split; [exact (seg_trans _ _ _ H1 Hs)|exact H2]. Qed.
  Lemma rgood_seg c w d : seg c w -> rgood c d -> rgood w d.
  Proof. intros Hs (a & b & H1 & H2). exists a, b. split; [exact (seg_trans _ _ _ H1 Hs)|exact H2]. Qed.

  Lemma expr_located f toks n ext rest : parse_expr_sp tiers f toks = Some (n, ext, rest) ->
    exists w, toks = w ++ rest /\ w <> [] /\ ext = extent w /\ sub w n.
  Proof. intros H. exact (parse_expr_sp_located tiers (parse_expr_some_ok _ _ _ _ H) f toks n ext rest H). Qed.

  Lemma wire_decls_inv : forall f toks ds rest, parse_wire_decls_sp f toks = Some (ds, rest) ->
    exists w, toks = w ++ rest /\ Forall (wgood w) ds.
  Proof.
    induction f as [|f IH]; intros toks ds rest0 H; [discriminate H|].
    cbn [parse_wire_decls_sp] in H.
    assert (Hstop : Some (@nil swire_decl, toks) = Some (ds, rest0) ->
              exists w, toks = w ++ rest0 /\ Forall (wgood w) ds).
    { intros Hinj. injection Hinj as <- <-. exists []. split; [reflexivity|constructor]. }
    destruct toks as [|t1 toks]; [exact (Hstop H)|].
    destruct toks as [|t2 toks]; [destruct (tk t1); try discriminate H; exact (Hstop H)|].
    destruct toks as [|t3 toks]; [destruct (tk t1); try discriminate H; exact (Hstop H)|].
    destruct (tk t1) eqn:Ht1; try (destruct (small_constant (tk t3)); exact (Hstop H)). clear Hstop.
    destruct (small_constant (tk t3)) as [w|] eqn:Ew; [|discriminate H].
    destruct (token_eqb (tk t2) TColon) eqn:Ec; [|discriminate H].
    assert (Hd : wgood [t1; t2; t3] (string_of_name name, Bits w, (tstart t1, tend t3))).
    { exact (aligned_extent [t1; t2; t3] ltac:(discriminate)). }
    assert (Hlast : forall rest1, Some ([(string_of_name name, Bits w, (tstart t1, tend t3))], rest1) = Some (ds, rest0) ->
              exists w0, t1 :: t2 :: t3 :: rest1 = w0 ++ rest0 /\ Forall (wgood w0) ds).
    { intros rest1 Hinj. injection Hinj as <- <-. exists [t1; t2; t3]. split; [reflexivity|]. constructor; [exact Hd|constructor]. }
    destruct toks as [|t4 toks]; [exact (Hlast _ H)|].
    destruct (token_eqb (tk t4) TComma) eqn:Ecm; [|exact (Hlast _ H)]. clear Hlast.
    destruct (parse_wire_decls_sp f toks) as [[more toks3]|] eqn:E1; [|discriminate H].
    destruct (IH _ _ _ E1) as (w1 & Hw1 & Hg1). injection H as <- <-.
    exists ([t1; t2; t3] ++ t4 :: w1). split; [rewrite Hw1; reflexivity|].
    constructor; [exact (wgood_seg _ _ _ (seg_here _ _) Hd)|].
    apply (Forall_impl _ (fun d => wgood_seg w1 _ d (seg_app_l _ _ [t1; t2; t3] (seg_cons _ _ t4 (seg_refl _)))) Hg1).
  Qed.

  Lemma const_decls_inv : forall f toks ds rest, parse_const_decls_sp tiers f toks = Some (ds, rest) ->
    exists w, toks = w ++ rest /\ Forall (cgood w) ds.
  Proof.
    induction f as [|f IH]; intros toks ds rest0 H; [discriminate H|].
    cbn [parse_const_decls_sp] in H.
    assert (Hstop : Some (@nil sconst_decl, toks) = Some (ds, rest0) ->
              exists w, toks = w ++ rest0 /\ Forall (cgood w) ds).
    { intros Hinj. injection Hinj as <- <-. exists []. split; [reflexivity|constructor]. }
    destruct toks as [|t1 toks]; [exact (Hstop H)|].
    destruct toks as [|t2 toks]; [destruct (tk t1); try discriminate H; exact (Hstop H)|].
    destruct (tk t1) eqn:Ht1; try exact (Hstop H). clear Hstop.
    destruct (token_eqb (tk t2) TAssign) eqn:Ea; [|discriminate H].
    destruct (parse_expr_sp tiers f toks) as [[[e exte] toks2]|] eqn:E1; [|discriminate H].
    destruct (expr_located _ _ _ _ _ E1) as (w1 & Hw1 & Hne1 & Hext1 & Hsub1).
    assert (Hd : cgood ([t1; t2] ++ w1) (string_of_name name, tspan t1, e)).
    { exists [t1; t2], w1. split; [apply seg_refl|]. split; [discriminate|].
      split; [apply (aligned_tok t1); left; reflexivity|exact Hsub1]. }
    assert (Hlast : forall rest1, toks2 = rest1 ->
              Some ([(string_of_name name, tspan t1, e)], rest1) = Some (ds, rest0) ->
              exists w0, t1 :: t2 :: toks = w0 ++ rest0 /\ Forall (cgood w0) ds).
    { intros rest1 <- Hinj. injection Hinj as <- <-. exists ([t1; t2] ++ w1).
      split; [rewrite Hw1; reflexivity|]. constructor; [exact Hd|constructor]. }
    destruct toks2 as [|t3 toks2]; [exact (Hlast _ eq_refl H)|].
    destruct (token_eqb (tk t3) TComma) eqn:Ecm; [|exact (Hlast _ eq_refl H)]. clear Hlast.
    destruct (parse_const_decls_sp tiers f toks2) as [[more toks3]|] eqn:E2; [|discriminate H].
    destruct (IH _ _ _ E2) as (w2 & Hw2 & Hg2). injection H as <- <-.
    exists (([t1; t2] ++ w1) ++ t3 :: w2). split; [rewrite Hw1, Hw2; napp; reflexivity|].
    constructor; [exact (cgood_seg _ _ _ (seg_here _ _) Hd)|].
    apply (Forall_impl _ (fun d => cgood_seg w2 _ d (seg_app_l _ _ _ (seg_cons _ _ t3 (seg_refl _)))) Hg2).
  Qed.

  Lemma targets_inv : forall f toks names toks1, parse_targets_sp f toks = (names, toks1) ->
    exists w0, toks = w0 ++ toks1 /\ (forall nm, In nm names -> token_aligned w0 (snd nm)) /\
      (forall n0 ns, names = n0 :: ns -> w0 <> [] /\ fst (snd n0) = first_start w0).
  Proof.
    induction f as [|f IH]; intros toks names toks1 H.
    { cbn in H. injection H as <- <-. exists []. split; [reflexivity|]. split; [intros nm []|discriminate]. }
    cbn [parse_targets_sp] in H.
    assert (Hstop : (@nil (string * srcspan), toks) = (names, toks1) ->
              exists w0, toks = w0 ++ toks1 /\ (forall nm, In nm names -> token_aligned w0 (snd nm)) /\
                (forall n0 ns, names = n0 :: ns -> w0 <> [] /\ fst (snd n0) = first_start w0)).
    { intros Hinj. injection Hinj as <- <-. exists []. split; [reflexivity|]. split; [intros nm []|discriminate]. }
    destruct toks as [|t1 [|t2 toks]]; try exact (Hstop H).
    destruct (tk t1) eqn:Ht1; try exact (Hstop H).
    destruct (token_eqb (tk t2) TAssign) eqn:Ea; [|exact (Hstop H)]. clear Hstop.
    destruct (parse_targets_sp f toks) as [more rest] eqn:E1.
    destruct (IH _ _ _ E1) as (w1 & Hw1 & Hal1 & _). injection H as <- <-.
    exists (t1 :: t2 :: w1). split; [rewrite Hw1; reflexivity|]. split.
    - intros nm [<-|Hin]; [apply (aligned_tok t1); left; reflexivity|].
      exact (aligned_seg _ _ _ (Hal1 nm Hin) (seg_cons _ _ t1 (seg_cons _ _ t2 (seg_refl _)))).
    - intros n0 ns Hn. injection Hn as <- _. split; [discriminate|reflexivity].
  Qed.

  Lemma assignments_inv : forall f toks asg rest, parse_assignments_sp tiers f toks = Some (asg, rest) ->
    exists w, toks = w ++ rest /\ Forall (agood w) asg.
  Proof.
    induction f as [|f IH]; intros toks asg rest0 H; [discriminate H|].
    cbn [parse_assignments_sp] in H.
    destruct (parse_targets_sp (List.length toks) toks) as [names toks1] eqn:Et.
    destruct (targets_inv _ _ _ _ Et) as (w0 & Hw0 & Hal0 & Hfirst).
    destruct names as [|n0 names]; [discriminate H|].
    destruct (Hfirst n0 names eq_refl) as [Hne0 Hn0].
    destruct (parse_expr_sp tiers f toks1) as [[[e exte] toks2]|] eqn:E1; [|discriminate H].
    destruct (expr_located _ _ _ _ _ E1) as (w1 & Hw1 & Hne1 & Hext1 & Hsub1).
    assert (Hd : agood (w0 ++ w1) (n0 :: names, e, (fst (snd n0), snd exte))).
    { exists w0, w1. split; [apply seg_refl|]. split; [exact Hne0|]. split; [exact Hne1|].
      split; [cbn [snd]; rewrite Hn0, Hext1, extent_app by assumption; reflexivity|].
      split; [exact Hal0|exact Hsub1]. }
    assert (Hlast : forall w1', seg (w0 ++ w1) w1' -> forall rest1, toks = w1' ++ rest1 ->
              Some ([(n0 :: names, e, (fst (snd n0), snd exte))], rest1) = Some (asg, rest0) ->
              exists w, toks = w ++ rest0 /\ Forall (agood w) asg).
    { intros w1' Hseg rest1 Htoks Hinj. injection Hinj as <- <-. exists w1'. split; [exact Htoks|].
      constructor; [exact (agood_seg _ _ _ Hseg Hd)|constructor]. }
    destruct toks2 as [|t toks2].
    { apply (Hlast (w0 ++ w1) (seg_refl _) [] ); [rewrite Hw0, Hw1; napp; reflexivity|exact H]. }
    cbv zeta in H.
    destruct (token_eqb (tk t) TComma) eqn:Ecm.
    2:{ apply (Hlast (w0 ++ w1) (seg_refl _) (t :: toks2)); [rewrite Hw0, Hw1; napp; reflexivity|exact H]. }
    assert (Hcomma : toks = ((w0 ++ w1) ++ [t]) ++ toks2) by (rewrite Hw0, Hw1; napp; reflexivity).
    destruct toks2 as [|t2 toks2].
    { apply (Hlast ((w0 ++ w1) ++ [t]) (seg_here _ _) []); [exact Hcomma|exact H]. }
    destruct (tk t2) eqn:Ht2; try (apply (Hlast ((w0 ++ w1) ++ [t]) (seg_here _ _) (t2 :: toks2)); [exact Hcomma|exact H]).
    clear Hlast.
    destruct (parse_assignments_sp tiers f (t2 :: toks2)) as [[more toks3]|] eqn:E2; [|discriminate H].
    destruct (IH _ _ _ E2) as (w2 & Hw2 & Hg2). injection H as <- <-.
    exists (((w0 ++ w1) ++ [t]) ++ w2). split; [rewrite Hcomma, Hw2; napp; reflexivity|].
    constructor; [exact (agood_seg _ _ _ (seg_app_r _ _ _ (seg_here _ _)) Hd)|].
    apply (Forall_impl _ (fun d => agood_seg w2 _ d (seg_there _ _)) Hg2).
  Qed.

  Lemma register_decls_inv : forall f toks regs rest, parse_register_decls_sp tiers f toks = Some (regs, rest) ->
    exists w, toks = w ++ rest /\ Forall (rgood w) regs.
  Proof.
    induction f as [|f IH]; intros toks regs rest0 H; [discriminate H|].
    cbn [parse_register_decls_sp] in H.
    assert (Hstop : Some (@nil sreg_decl, toks) = Some (regs, rest0) ->
              exists w, toks = w ++ rest0 /\ Forall (rgood w) regs).
    { intros Hinj. injection Hinj as <- <-. exists []. split; [reflexivity|constructor]. }
    destruct toks as [|t1 toks]; [exact (Hstop H)|].
    destruct toks as [|t2 toks]; [destruct (tk t1); try discriminate H; exact (Hstop H)|].
    destruct toks as [|t3 toks]; [destruct (tk t1); try discriminate H; exact (Hstop H)|].
    destruct toks as [|t4 toks]; [destruct (tk t1); try discriminate H; exact (Hstop H)|].
    destruct (tk t1) eqn:Ht1; try (destruct (small_constant (tk t3)); exact (Hstop H)). clear Hstop.
    destruct (small_constant (tk t3)) as [w|] eqn:Ew; [|discriminate H].
    destruct (token_eqb (tk t2) TColon && token_eqb (tk t4) TAssign) eqn:Ec; [|discriminate H].
    destruct (parse_expr_sp tiers f toks) as [[[e exte] toks2]|] eqn:E1; [|discriminate H].
    destruct (expr_located _ _ _ _ _ E1) as (w1 & Hw1 & Hne1 & Hext1 & Hsub1).
    assert (Hd : rgood ([t1; t2; t3; t4] ++ w1) (string_of_name name, Bits w, e, (tstart t1, snd exte))).
    { exists [t1; t2; t3; t4], w1. split; [apply seg_refl|]. split; [discriminate|]. split; [exact Hne1|].
      split; [cbn [snd]; rewrite Hext1, extent_app by (try assumption; discriminate); reflexivity|exact Hsub1]. }
    assert (Hlast : forall rest1, toks2 = rest1 ->
              Some ([(string_of_name name, Bits w, e, (tstart t1, snd exte))], rest1) = Some (regs, rest0) ->
              exists w0, t1 :: t2 :: t3 :: t4 :: toks = w0 ++ rest0 /\ Forall (rgood w0) regs).
    { intros rest1 <- Hinj. injection Hinj as <- <-. exists ([t1; t2; t3; t4] ++ w1).
      split; [rewrite Hw1; reflexivity|]. constructor; [exact Hd|constructor]. }
    destruct toks2 as [|t5 toks2]; [exact (Hlast _ eq_refl H)|].
    cbv zeta in H.
    destruct (token_eqb (tk t5) TSemicolon) eqn:Esc; [|exact (Hlast _ eq_refl H)]. clear Hlast.
    destruct (parse_register_decls_sp tiers f toks2) as [[more toks3]|] eqn:E2; [|discriminate H].
    destruct (IH _ _ _ E2) as (w2 & Hw2 & Hg2). injection H as <- <-.
    exists (([t1; t2; t3; t4] ++ w1) ++ t5 :: w2). split; [rewrite Hw1, Hw2; napp; reflexivity|].
    constructor; [exact (rgood_seg _ _ _ (seg_here _ _) Hd)|].
    apply (Forall_impl _ (fun d => rgood_seg w2 _ d (seg_app_l _ _ _ (seg_cons _ _ t5 (seg_refl _)))) Hg2).
  Qed.

  Lemma statement_inv f toks s k rest : parse_statement_sp tiers f toks = Some (s, k, rest) ->
    exists w, toks = w ++ rest /\ w <> [] /\ sgood w s.
  Proof.
    intros H. unfold parse_statement_sp in H.
    destruct toks as [|t toks1]; [discriminate H|].
    destruct (tk t) eqn:Ht; try discriminate H.
    - destruct (parse_wire_decls_sp f toks1) as [[d rest1]|] eqn:E1; [|discriminate H].
      destruct (wire_decls_inv _ _ _ _ E1) as (w1 & Hw1 & Hg1). injection H as <- <- <-.
      exists (t :: w1). split; [rewrite Hw1; reflexivity|]. split; [discriminate|]. cbn [sgood].
      apply (Forall_impl _ (fun d => wgood_seg w1 _ d (seg_cons _ _ t (seg_refl _))) Hg1).
    - destruct (parse_const_decls_sp tiers f toks1) as [[d rest1]|] eqn:E1; [|discriminate H].
      destruct (const_decls_inv _ _ _ _ E1) as (w1 & Hw1 & Hg1). injection H as <- <- <-.
      exists (t :: w1). split; [rewrite Hw1; reflexivity|]. split; [discriminate|]. cbn [sgood].
      apply (Forall_impl _ (fun d => cgood_seg w1 _ d (seg_cons _ _ t (seg_refl _))) Hg1).
    - destruct toks1 as [|t1 [|t2 toks2]]; try discriminate H.
      destruct (tk t1) eqn:Ht1; try discriminate H.
      destruct (token_eqb (tk t2) TOpenBrace) eqn:Eb; [|discriminate H].
      destruct (parse_register_decls_sp tiers f toks2) as [[regs rest1]|] eqn:E1; [|discriminate H].
      destruct rest1 as [|t3 rest1]; [discriminate H|].
      destruct (token_eqb (tk t3) TCloseBrace) eqn:Ecb; [|discriminate H].
      destruct (register_decls_inv _ _ _ _ E1) as (w1 & Hw1 & Hg1). injection H as <- <- <-.
      exists (t :: (t1 :: t2 :: w1) ++ [t3]). split; [rewrite Hw1; napp; reflexivity|]. split; [discriminate|].
      cbn [sgood]. split; [symmetry; apply extent_wrap|]. split.
      + apply (aligned_tok t1). right. left. reflexivity.
      + apply (Forall_impl _ (fun d => rgood_seg w1 _ d
                 (seg_cons _ _ t (seg_app_r _ _ _ (seg_cons _ _ t1 (seg_cons _ _ t2 (seg_refl _)))))) Hg1).
    - destruct (parse_assignments_sp tiers f (t :: toks1)) as [[a rest1]|] eqn:E1; [|discriminate H].
      destruct (assignments_inv _ _ _ _ E1) as (w1 & Hw1 & Hg1). injection H as <- <- <-.
      exists w1. split; [exact Hw1|]. split; [|exact Hg1].
      destruct (assignments_stable tiers f _ _ _ E1) as (w1' & Hw1' & Hne & _).
      rewrite Hw1 in Hw1'. apply app_inv_tail in Hw1'. subst w1'. exact Hne.
  Qed.

  Lemma layout_semi t toks segs : is_semi t -> layout toks segs -> layout (t :: toks) segs.
  Proof.
    intros Ht H. inversion H as [semis Hs|semis seg rest segs' Hs Hne Hl]; subst.
    - apply layout_end. constructor; assumption.
    - change (t :: semis ++ seg ++ rest) with ((t :: semis) ++ seg ++ rest).
      apply layout_stmt; [constructor; assumption|exact Hne|exact Hl].
  Qed.

  Lemma statements_inv : forall f toks seen acc res,
    parse_statements_sp tiers f toks seen acc = Some res ->
    exists news segs, res = rev acc ++ news /\ layout toks segs /\ Forall2 sgood segs news.
  Proof.
    induction f as [|f IH]; intros toks seen acc res H; [discriminate H|].
    cbn [parse_statements_sp] in H.
    destruct toks as [|t toks1].
    { destruct seen; [|discriminate H]. injection H as <-. exists [], []. rewrite app_nil_r.
      split; [reflexivity|]. split; [apply layout_end; constructor|constructor]. }
    destruct (token_eqb (tk t) TSemicolon) eqn:Esemi.
    { destruct seen; [|discriminate H]. destruct (IH _ _ _ _ H) as (news & segs & Hres & Hl & Hg).
      exists news, segs. split; [exact Hres|]. split; [|exact Hg].
      apply layout_semi; [exact (token_eqb_true _ _ Esemi)|exact Hl]. }
    destruct (parse_statement_sp tiers (20 * S (List.length (t :: toks1))) (t :: toks1)) as [[[s k] rest]|] eqn:Es;
      [|discriminate H].
    destruct (statement_inv _ _ _ _ _ Es) as (w & Hw & Hne & Hgood).
    assert (Hcont : forall rest', layout rest' (@nil (list tok)) \/ True -> True) by trivial. clear Hcont.
    assert (Hstep : forall rest1, (exists semis, Forall is_semi semis /\ rest = semis ++ rest1) ->
              parse_statements_sp tiers f rest1 true (s :: acc) = Some res ->
              exists news segs, res = rev acc ++ news /\ layout (t :: toks1) segs /\ Forall2 sgood segs news).
    { intros rest1 (semis & Hsemis & Hrest) Hrun.
      destruct (IH _ _ _ _ Hrun) as (news & segs & Hres & Hl & Hg).
      exists (s :: news), (w :: segs). split; [rewrite Hres; cbn [rev]; rewrite <- app_assoc; reflexivity|].
      split; [|constructor; assumption].
      rewrite Hw, Hrest. change (w ++ semis ++ rest1) with ([] ++ w ++ (semis ++ rest1)).
      apply layout_stmt; [constructor|exact Hne|].
      clear -Hsemis Hl. induction Hsemis as [|x l Hx Hl' IHl]; [exact Hl|]. cbn [app]. apply layout_semi; assumption. }
    destruct k.
    - destruct rest as [|t2 rest].
      + destruct seen; [|discriminate H]. injection H as <-.
        exists [s], [w]. split; [cbn [rev]; reflexivity|]. split; [|constructor; [exact Hgood|constructor]].
        rewrite Hw. change (w ++ []) with ([] ++ w ++ []). apply layout_stmt; [constructor|exact Hne|].
        apply layout_end. constructor.
      + destruct (token_eqb (tk t2) TSemicolon) eqn:E2; [|discriminate H].
        apply (Hstep rest); [|exact H]. exists [t2]. split; [|reflexivity].
        constructor; [exact (token_eqb_true _ _ E2)|constructor].
    - apply (Hstep rest); [|exact H]. exists []. split; [constructor|reflexivity].
  Qed.

  Lemma parse_sp_inv toks stmts : parse_sp tiers toks = Some stmts ->
    exists segs, layout toks segs /\ Forall2 sgood segs stmts.
  Proof.
    intros H. unfold parse_sp in H. destruct (statements_inv _ _ _ _ _ H) as (news & segs & Hres & Hl & Hg).
    cbn [rev app] in Hres. subst news. exists segs. split; assumption.
  Qed.
End StmtInv.

(* ====================================================================================== *)
(* 3. (a) erasure, (b) alignment                                                          *)
(* ====================================================================================== *)
Theorem erase_parse_sp_holds : stmt_erase_parse_sp.
Proof. intros tiers toks. apply erase_parse. Qed.

Theorem erase_parse_text_sp_holds : stmt_erase_parse_text_sp.
Proof. intros uc tiers bytes. apply erase_parse_text. Qed.

Lemma sub_node_facts tiers w e : sub tiers w e -> forall n, In n (enodes e) ->
  exists c, seg c w /\ c <> [] /\ espan n = extent c /\ reparses tiers c n /\
            forall ch, In ch (children n) -> sub tiers c ch.
Proof.
  intros Hsub n Hin. destruct (sub_all_nodes tiers w e Hsub n Hin) as (c & Hs & Hl).
  destruct (loc_facts tiers c n Hl) as (H1 & H2 & H3 & H4). exists c. repeat split; assumption.
Qed.

Lemma sub_aligned tiers w e : sub tiers w e -> forall n, In n (enodes e) -> token_aligned w (espan n).
Proof.
  intros Hsub n Hin. destruct (sub_node_facts tiers w e Hsub n Hin) as (c & Hs & Hne & Hsp & _).
  rewrite Hsp. exact (aligned_sub c w Hne Hs).
Qed.

Lemma layout_seg toks segs : layout toks segs -> forall sg, In sg segs -> seg sg toks.
Proof.
  induction 1 as [semis Hs|semis sg0 rest segs Hs Hne Hl IH]; intros sg Hin; [destruct Hin|].
  destruct Hin as [<-|Hin].
  - exists semis, rest. reflexivity.
  - apply seg_app_l, seg_app_l. exact (IH sg Hin).
Qed.

Lemma Forall2_in_r {A B} (R : A -> B -> Prop) la lb : Forall2 R la lb ->
  forall b, In b lb -> exists a, In a la /\ R a b.
Proof.
  induction 1 as [|a b la lb Hab Hrest IH]; intros b0 Hin; [destruct Hin|].
  destruct Hin as [<-|Hin]; [exists a; split; [left; reflexivity|exact Hab]|].
  destruct (IH b0 Hin) as (a0 & Ha0 & HR). exists a0. split; [right; exact Ha0|exact HR].
Qed.

Section Facts.
  Variable tiers : list tier.
  Notation sub := (sub tiers).

  Lemma cgood_facts w d : cgood tiers w d -> token_aligned w (snd (fst d)) /\ sub w (snd d).
  Proof.
    intros (a & b & Hs & Hne & Hal & Hsub). split.
    - exact (aligned_seg _ _ _ Hal (seg_trans _ _ _ (seg_here a b) Hs)).
    - exact (sub_seg _ _ _ _ Hsub (seg_trans _ _ _ (seg_there b a) Hs)).
  Qed.
  Lemma agood_facts w x : agood tiers w x ->
    token_aligned w (snd x) /\ (forall nm, In nm (fst (fst x)) -> token_aligned w (snd nm)) /\ sub w (snd (fst x)).
  Proof.
    intros (a & b & Hs & Hne & Hneb & Hsp & Hal & Hsub). split; [|split].
    - rewrite Hsp. exact (aligned_sub _ _ (app_nonempty_l _ _ Hne) Hs).
    - intros nm Hin. exact (aligned_seg _ _ _ (Hal nm Hin) (seg_trans _ _ _ (seg_here a b) Hs)).
    - exact (sub_seg _ _ _ _ Hsub (seg_trans _ _ _ (seg_there b a) Hs)).
  Qed.
  Lemma rgood_facts w r : rgood tiers w r -> token_aligned w (snd r) /\ sub w (snd (fst r)).
  Proof.
    intros (a & b & Hs & Hne & Hneb & Hsp & Hsub). split.
    - rewrite Hsp. exact (aligned_sub _ _ (app_nonempty_l _ _ Hne) Hs).
    - exact (sub_seg _ _ _ _ Hsub (seg_trans _ _ _ (seg_there b a) Hs)).
  Qed.

  (* the expressions of a statement are located in its tokens *)
  Lemma sgood_exprs w s : sgood tiers w s -> forall e, In e (stmt_exprs s) -> sub w e.
  Proof.
    intros Hg e Hin. destruct s as [d|d|a|nm nsp regs bsp]; cbn [stmt_exprs sgood] in *.
    - apply in_map_iff in Hin. destruct Hin as (x & <- & Hx).
      exact (proj2 (cgood_facts _ _ (proj1 (Forall_forall _ _) Hg x Hx))).
    - destruct Hin.
    - apply in_map_iff in Hin. destruct Hin as (x & <- & Hx).
      exact (proj2 (proj2 (agood_facts _ _ (proj1 (Forall_forall _ _) Hg x Hx)))).
    - destruct Hg as (_ & _ & Hg). apply in_map_iff in Hin. destruct Hin as (x & <- & Hx).
      exact (proj2 (rgood_facts _ _ (proj1 (Forall_forall _ _) Hg x Hx))).
  Qed.

  Lemma sgood_nodes w s : sgood tiers w s -> forall n, In n (stmt_nodes s) ->
    exists c, seg c w /\ c <> [] /\ espan n = extent c /\ reparses tiers c n /\
              forall ch, In ch (children n) -> sub c ch.
  Proof.
    intros Hg n Hin. unfold stmt_nodes in Hin. apply in_flat_map in Hin. destruct Hin as (e & He & Hn).
    exact (sub_node_facts tiers w e (sgood_exprs w s Hg e He) n Hn).
  Qed.

  Lemma sgood_aligned w s : w <> [] -> sgood tiers w s -> forall spn, In spn (stmt_spans s) -> token_aligned w spn.
  Proof.
    intros Hw Hg spn Hin. unfold stmt_spans in Hin. apply in_app_or in Hin. destruct Hin as [Hin|Hin].
    2:{ apply in_map_iff in Hin. destruct Hin as (n & <- & Hn).
        destruct (sgood_nodes w s Hg n Hn) as (c & Hs & Hne & Hsp & _). rewrite Hsp. exact (aligned_sub c w Hne Hs). }
    destruct s as [d|d|a|nm nsp regs bsp]; cbn [stmt_own_spans sgood] in *.
    - apply in_map_iff in Hin. destruct Hin as (x & <- & Hx).
      exact (proj1 (cgood_facts _ _ (proj1 (Forall_forall _ _) Hg x Hx))).
    - apply in_map_iff in Hin. destruct Hin as (x & <- & Hx). exact (proj1 (Forall_forall _ _) Hg x Hx).
    - apply in_flat_map in Hin. destruct Hin as (x & Hx & Hin).
      destruct (agood_facts _ _ (proj1 (Forall_forall _ _) Hg x Hx)) as (H1 & H2 & _).
      destruct Hin as [<-|Hin]; [exact H1|]. apply in_map_iff in Hin. destruct Hin as (nm & <- & Hnm). exact (H2 nm Hnm).
    - destruct Hg as (Hb & Hn & Hg). destruct Hin as [<-|[<-|Hin]].
      + rewrite Hb. exact (aligned_extent w Hw).
      + exact Hn.
      + apply in_map_iff in Hin. destruct Hin as (x & <- & Hx).
        exact (proj1 (rgood_facts _ _ (proj1 (Forall_forall _ _) Hg x Hx))).
  Qed.
End Facts.

Lemma layout_nonempty toks segs : layout toks segs -> forall sg, In sg segs -> sg <> [].
Proof.
  induction 1 as [semis Hs|semis sg0 rest segs Hs Hne Hl IH]; intros sg Hin; [destruct Hin|].
  destruct Hin as [<-|Hin]; [exact Hne|exact (IH sg Hin)].
Qed.

Theorem spans_token_aligned_holds : stmt_spans_token_aligned.
Proof.
  intros tiers toks stmts H s spn Hs Hspn.
  destruct (parse_sp_inv tiers toks stmts H) as (segs & Hl & Hg).
  destruct (Forall2_in_r _ _ _ Hg s Hs) as (sg & Hsg & Hgood).
  apply (aligned_seg sg toks spn); [|exact (layout_seg _ _ Hl sg Hsg)].
  exact (sgood_aligned tiers sg s (layout_nonempty _ _ Hl sg Hsg) Hgood spn Hspn).
Qed.

(* ---- the lexer's tokens are in order ---- *)
Lemma spans_of_ordered uc : forall items last pos, ladmissible uc items last ->
  tokens_from pos (spans_of pos items) /\
  forall t, In t (spans_of pos items) -> (tend t <= pos + blen (text_of items last))%nat.
Proof.
  induction items as [|[[sp t] s] r IH]; intros last pos Hadm; [split; [exact I|intros t []]|].
  cbn [ladmissible] in Hadm. destruct Hadm as (_ & Hsp & _ & Hr).
  cbn [spans_of text_of]. destruct (IH last (pos + List.length (utf8 sp) + List.length (utf8 s))%nat Hr) as [Ho Hb].
  pose proof (lspells_nonempty _ _ _ Hsp) as H1. pose proof (length_le_blen s) as H2. unfold blen in *.
  rewrite !utf8_app, !app_length. split.
  - cbn [tokens_from]. unfold tstart, tend. cbn [fst snd]. split; [lia|]. split; [lia|exact Ho].
  - intros t0 [<-|Hin]; [unfold tend; cbn [snd]; lia|]. specialize (Hb t0 Hin). lia.
Qed.

Theorem lex_tokens_ordered_holds : stmt_lex_tokens_ordered.
Proof.
  assert (Hok : forall uc text toks, Forall scalar text -> lex uc (utf8 text) = (toks, None) ->
            tokens_ordered toks /\ forall t, In t toks -> (tend t <= List.length (utf8 text))%nat).
  { intros uc text toks Hsc Hlex.
    destruct (lex_ok_inv_holds uc text toks Hsc Hlex) as (items & last & -> & Hadm & _ & ->).
    destruct (spans_of_ordered uc items last 0 Hadm) as [Ho Hb]. split; [exact Ho|].
    intros t Hin. specialize (Hb t Hin). unfold blen in Hb. lia. }
  intros uc text toks err Hsc Hlex. destruct err as [err|]; [|exact (Hok uc text toks Hsc Hlex)].
  destruct (lex_error_meaning_holds uc text toks err Hsc Hlex) as (before & bad & e & -> & _ & _ & Hb).
  destruct (Hok uc before toks (Forall_app_l _ _ _ Hsc) Hb) as [Ho Hbound]. split; [exact Ho|].
  intros t Hin. specialize (Hbound t Hin). rewrite utf8_app, app_length. lia.
Qed.

Theorem spans_in_text_holds : stmt_spans_in_text.
Proof.
  intros uc tiers text stmts Hsc H. unfold parse_text_sp in H.
  destruct (lex uc (utf8 text)) as [toks [e|]] eqn:Hlex; [discriminate H|].
  destruct (lex_tokens_ordered_holds uc text toks None Hsc Hlex) as [Ho Hb].
  exists toks. split; [reflexivity|]. split; [exact Ho|].
  intros s spn Hs Hspn. pose proof (spans_token_aligned_holds tiers toks stmts H s spn Hs Hspn) as Hal.
  split; [exact Hal|]. destruct (aligned_numbers 0 toks spn Ho Hal) as (_ & Hlt & _). split; [exact Hlt|].
  destruct Hal as (i & j & ti & tj & _ & _ & Hj & _ & He). rewrite He.
  exact (Hb tj (nth_error_In _ _ Hj)).
Qed.

(* ====================================================================================== *)
(* 4. (c) nesting                                                                         *)
(* ====================================================================================== *)
Lemma ord_seg toks c : tokens_ordered toks -> seg c toks -> exists pos, tokens_from pos c.
Proof. intros Ho Hs. exact (tokens_from_seg 0 c toks Ho Hs). Qed.

Lemma ord_gap pos a b : tokens_from pos (a ++ b) -> a <> [] -> b <> [] -> (last_end a <= first_start b)%nat.
Proof.
  intros Ho Ha Hb. destruct (tokens_from_app _ _ _ Ho) as [_ H2]. destruct a as [|t a]; [congruence|].
  exact (proj1 (tokens_from_bounds _ _ H2 Hb)).
Qed.

Lemma sub_inside tiers pos c e : tokens_from pos c -> sub tiers c e -> inside (espan e) (extent c).
Proof.
  intros Ho (c' & Hs & Hl). destruct (loc_facts tiers c' e Hl) as (Hne & Hsp & _). rewrite Hsp.
  exact (seg_inside pos c c' Ho Hne Hs).
Qed.

Lemma inside_trans a b c : inside a b -> inside b c -> inside a c.
Proof. unfold inside. lia. Qed.

Section Nested.
  Variable tiers : list tier.

  Lemma sgood_parts pos w s : tokens_from pos w -> w <> [] -> sgood tiers w s -> stmt_parts_nested s.
  Proof.
    intros Ho Hw Hg. destruct s as [d|d|a|nm nsp regs bsp]; cbn [sgood stmt_parts_nested] in *;
      [apply Forall_impl with (P := cgood tiers w); [intros x Hx|exact Hg]
      |exact I
      |apply Forall_impl with (P := agood tiers w); [intros x Hx|exact Hg]
      |destruct Hg as (Hb & Hn & Hg); split;
         [rewrite Hb; exact (proj2 (proj2 (aligned_numbers pos w nsp Ho Hn)))
         |apply Forall_impl with (P := rgood tiers w); [intros x Hx|exact Hg]]].
    - (* constant declaration *)
      destruct Hx as (a & b & Hs & Hne & Hal & Hsub).
      destruct (tokens_from_seg pos _ _ Ho Hs) as (p1 & Hab).
      destruct (tokens_from_app _ _ _ Hab) as [Ha Hb'].
      destruct Hsub as (c' & Hsc & Hl). destruct (loc_facts tiers c' _ Hl) as (Hnec & Hsp & _).
      assert (Hbne : b <> []).
      { intros ->. destruct Hsc as (p & q & Hpq). destruct p; [destruct c'; [congruence|discriminate Hpq]|discriminate Hpq]. }
      destruct (aligned_numbers _ _ _ Ha Hal) as (_ & _ & Hin1).
      pose proof (ord_gap _ _ _ Hab Hne Hbne) as Hgap.
      destruct a as [|ta a]; [congruence|].
      pose proof (seg_inside _ _ _ Hb' Hnec Hsc) as Hin2.
      rewrite Hsp. unfold inside, extent in *. cbn [fst snd] in *. lia.
    - (* assignment *)
      destruct Hx as (a0 & b & Hs & Hne & Hneb & Hsp & Hal & Hsub).
      destruct (tokens_from_seg pos _ _ Ho Hs) as (p1 & Hab).
      destruct (tokens_from_app _ _ _ Hab) as [Ha Hb'].
      pose proof (ord_gap _ _ _ Hab Hne Hneb) as Hgap.
      assert (Hb'' : exists p2, tokens_from p2 b) by (destruct a0; [congruence|eexists; exact Hb']).
      destruct Hb'' as (p2 & Hb2).
      pose proof (sub_inside tiers p2 b _ Hb2 Hsub) as Hin2.
      rewrite Hsp. rewrite extent_app by assumption. split.
      * unfold inside, extent in *. cbn [fst snd] in *.
        destruct (tokens_from_bounds _ _ Ha Hne). destruct (tokens_from_bounds _ _ Hb2 Hneb). lia.
      * apply Forall_forall. intros nm0 Hnm. destruct (aligned_numbers _ _ _ Ha (Hal nm0 Hnm)) as (_ & _ & Hin1).
        unfold inside, extent in *. cbn [fst snd] in *.
        destruct (tokens_from_bounds _ _ Hb2 Hneb). lia.
    - (* register declaration *)
      destruct Hx as (a & b & Hs & Hne & Hneb & Hsp & Hsub).
      destruct (tokens_from_seg pos _ _ Ho Hs) as (p1 & Hab).
      destruct (tokens_from_app _ _ _ Hab) as [Ha Hb'].
      assert (Hb'' : exists p2, tokens_from p2 b) by (destruct a; [congruence|eexists; exact Hb']).
      destruct Hb'' as (p2 & Hb2).
      pose proof (sub_inside tiers p2 b _ Hb2 Hsub) as Hin2.
      pose proof (ord_gap _ _ _ Hab Hne Hneb) as Hgap.
      split.
      * rewrite Hsp, Hb. exact (seg_inside pos w _ Ho (app_nonempty_l _ _ Hne) Hs).
      * rewrite Hsp. rewrite extent_app by assumption.
        unfold inside, extent in *. cbn [fst snd] in *.
        destruct (tokens_from_bounds _ _ Ha Hne). lia.
  Qed.
End Nested.

Theorem spans_nested_holds : stmt_spans_nested.
Proof.
  intros tiers toks stmts Ho H.
  destruct (parse_sp_inv tiers toks stmts H) as (segs & Hl & Hg).
  assert (Hstmt : forall s, In s stmts -> exists sg pos, seg sg toks /\ sg <> [] /\ tokens_from pos sg /\ sgood tiers sg s).
  { intros s Hs. destruct (Forall2_in_r _ _ _ Hg s Hs) as (sg & Hsg & Hgood).
    pose proof (layout_seg _ _ Hl sg Hsg) as Hseg. destruct (ord_seg toks sg Ho Hseg) as (pos & Hpos).
    exists sg, pos. repeat split; try assumption. exact (layout_nonempty _ _ Hl sg Hsg). }
  split; [|split].
  - intros s n ch Hs Hn Hch. destruct (Hstmt s Hs) as (sg & pos & Hseg & Hne & Hpos & Hgood).
    destruct (sgood_nodes tiers sg s Hgood n Hn) as (c & Hsc & Hnec & Hsp & _ & Hchildren).
    destruct (tokens_from_seg pos c sg Hpos Hsc) as (pos' & Hpos'). rewrite Hsp.
    exact (sub_inside tiers pos' c ch Hpos' (Hchildren ch Hch)).
  - intros s Hs. destruct (Hstmt s Hs) as (sg & pos & Hseg & Hne & Hpos & Hgood).
    exact (sgood_parts tiers pos sg s Hpos Hne Hgood).
  - exists segs. split; [exact Hl|].
    assert (Hsegs : forall sg, In sg segs -> exists pos, tokens_from pos sg /\ sg <> []).
    { intros sg Hsg. destruct (ord_seg toks sg Ho (layout_seg _ _ Hl sg Hsg)) as (pos & Hpos).
      exists pos. split; [exact Hpos|exact (layout_nonempty _ _ Hl sg Hsg)]. }
    clear Hl Hstmt H. induction Hg as [|sg s segs stmts Hgood Hrest IH]; [constructor|].
    constructor; [|apply IH; intros sg' Hin; apply Hsegs; right; exact Hin].
    intros spn Hspn. destruct (Hsegs sg (or_introl eq_refl)) as (pos & Hpos & Hne).
    pose proof (sgood_aligned tiers sg s Hne Hgood spn Hspn) as Hal. split; [exact Hal|].
    exact (proj2 (proj2 (aligned_numbers pos sg spn Hpos Hal))).
Qed.

(* ---- statements are disjoint and in text order ---- *)
Lemma layout_order pos toks segs : tokens_from pos toks -> layout toks segs ->
  forall i j si sj spi spj, (i < j)%nat -> nth_error segs i = Some si -> nth_error segs j = Some sj ->
    token_aligned si spi -> token_aligned sj spj -> (snd spi <= fst spj)%nat.
Proof.
  intros Ho Hl. revert pos Ho. induction Hl as [semis Hs|semis sg0 rest segs Hs Hne Hl IH];
    intros pos Ho i j si sj spi spj Hij Hi Hj Hali Halj; [destruct i; discriminate|].
  destruct (tokens_from_app _ _ _ Ho) as [_ Ho2].
  destruct j as [|j]; [lia|]. cbn [nth_error] in Hj.
  destruct i as [|i].
  - cbn [nth_error] in Hi. injection Hi as <-.
    destruct (tokens_from_app _ _ _ Ho2) as [Hsg Hrest].
    destruct (aligned_numbers _ _ _ Hsg Hali) as (_ & _ & Hin).
    assert (Hseg : seg sj rest) by (apply (layout_seg _ _ Hl); exact (nth_error_In _ _ Hj)).
    pose proof (aligned_seg _ _ _ Halj Hseg) as Halr.
    destruct sg0 as [|t0 sg0]; [congruence|].
    destruct (aligned_numbers _ _ _ Hrest Halr) as (Hlow & _ & _).
    unfold inside, extent in Hin. cbn [fst snd] in Hin. lia.
  - cbn [nth_error] in Hi. destruct (tokens_from_app _ _ _ Ho2) as [_ Hrest].
    exact (IH _ Hrest i j si sj spi spj ltac:(lia) Hi Hj Hali Halj).
Qed.

Lemma Forall2_nth {A B} (R : A -> B -> Prop) la lb : Forall2 R la lb ->
  forall i b, nth_error lb i = Some b -> exists a, nth_error la i = Some a /\ R a b.
Proof.
  induction 1 as [|a b la lb Hab Hrest IH]; intros i b0 Hi; [destruct i; discriminate|].
  destruct i as [|i]; [injection Hi as <-; exists a; split; [reflexivity|exact Hab]|].
  exact (IH i b0 Hi).
Qed.

Theorem statement_spans_disjoint_holds : stmt_statement_spans_disjoint.
Proof.
  intros tiers toks stmts Ho H i j si sj spi spj Hij Hi Hj Hspi Hspj.
  destruct (parse_sp_inv tiers toks stmts H) as (segs & Hl & Hg).
  destruct (Forall2_nth _ _ _ Hg i si Hi) as (sgi & Hsgi & Hgi).
  destruct (Forall2_nth _ _ _ Hg j sj Hj) as (sgj & Hsgj & Hgj).
  apply (layout_order 0 toks segs Ho Hl i j sgi sgj spi spj Hij Hsgi Hsgj).
  - exact (sgood_aligned tiers sgi si (layout_nonempty _ _ Hl sgi (nth_error_In _ _ Hsgi)) Hgi spi Hspi).
  - exact (sgood_aligned tiers sgj sj (layout_nonempty _ _ Hl sgj (nth_error_In _ _ Hsgj)) Hgj spj Hspj).
Qed.

(* ====================================================================================== *)
(* 5. (e) at the level of tokens                                                          *)
(* ====================================================================================== *)
Lemma tokens_from_in pos w : tokens_from pos w -> forall t, In t w ->
  (pos <= tstart t)%nat /\ (tstart t < tend t)%nat /\ (first_start w <= tstart t)%nat /\ (tend t <= last_end w)%nat.
Proof.
  intros Ho t Hin. destruct (In_nth_error _ _ Hin) as (i & Hi).
  destruct (tokens_from_nth _ _ Ho i t Hi) as (A & B & C & D & _). repeat split; assumption.
Qed.

Lemma filter_none {A} (p : A -> bool) l : (forall x, In x l -> p x = false) -> filter p l = [].
Proof.
  induction l as [|x l IH]; intros H; [reflexivity|]. cbn [filter].
  rewrite (H x (or_introl eq_refl)). apply IH. intros y Hy. apply H. right. exact Hy.
Qed.
Lemma filter_all {A} (p : A -> bool) l : (forall x, In x l -> p x = true) -> filter p l = l.
Proof.
  induction l as [|x l IH]; intros H; [reflexivity|]. cbn [filter].
  rewrite (H x (or_introl eq_refl)). f_equal. apply IH. intros y Hy. apply H. right. exact Hy.
Qed.

Lemma tokens_within_seg toks c : tokens_ordered toks -> seg c toks -> c <> [] ->
  tokens_within (first_start c) (last_end c) toks = c.
Proof.
  intros Ho (p & q & ->) Hne. unfold tokens_within. rewrite !filter_app.
  destruct (tokens_from_app _ _ _ Ho) as [Hp Hcq]. destruct (tokens_from_app _ _ _ Hcq) as [Hc Hq].
  rewrite (filter_none _ p), (filter_all _ c), (filter_none _ q); [rewrite app_nil_r; reflexivity| | |].
  - intros t Hin. destruct c as [|t0 c]; [congruence|].
    destruct (tokens_from_in _ _ Hq t Hin) as (A & B & _).
    apply Bool.andb_false_iff. right. apply Nat.leb_gt. lia.
  - intros t Hin. destruct (tokens_from_in _ _ Hc t Hin) as (_ & _ & C & D).
    apply Bool.andb_true_iff. split; apply Nat.leb_le; assumption.
  - intros t Hin. destruct (tokens_from_in _ _ Hp t Hin) as (_ & B & _ & D).
    assert (Hpne : p <> []) by (destruct p; [destruct Hin|discriminate]).
    pose proof (ord_gap _ _ _ Ho Hpne (app_nonempty_l _ _ Hne)) as Hgap.
    rewrite first_start_app in Hgap by exact Hne.
    apply Bool.andb_false_iff. left. apply Nat.leb_gt. lia.
Qed.

Theorem span_is_extent_tokens_holds : stmt_span_is_extent_tokens.
Proof.
  intros tiers toks stmts Ho H s n Hs Hn.
  destruct (parse_sp_inv tiers toks stmts H) as (segs & Hl & Hg).
  destruct (Forall2_in_r _ _ _ Hg s Hs) as (sg & Hsg & Hgood).
  destruct (sgood_nodes tiers sg s Hgood n Hn) as (c & Hsc & Hnec & Hsp & (f0 & ext & Hre) & _).
  assert (Hseg : seg c toks) by exact (seg_trans _ _ _ Hsc (layout_seg _ _ Hl sg Hsg)).
  rewrite Hsp. cbn [fst snd extent]. rewrite (tokens_within_seg toks c Ho Hseg Hnec).
  exists f0. intros fuel Hf. exists ext.
  exact (Stab1_mono (parse_expr_sp tiers) f0 c (n, ext) [] fuel (parse_expr_sp_stable tiers f0) Hre Hf).
Qed.

(* ====================================================================================== *)
(* 6. (d) the statements after those of a preamble                                        *)
(* ====================================================================================== *)
Section AfterPrefix.
  Variable tiers : list tier.

  (* where a statement of the whole lies: in the tokens u that follow the prefix *)
  Definition in_tail (u : list tok) (s : sstmt) : Prop :=
    exists sg, seg sg u /\ sg <> [] /\ sgood tiers sg s.

  Lemma run_in_tail f u seen acc res : parse_statements_sp tiers f u seen acc = Some res ->
    exists news, res = rev acc ++ news /\ forall s, In s news -> in_tail u s.
  Proof.
    intros H. destruct (statements_inv tiers _ _ _ _ _ H) as (news & segs & Hres & Hl & Hg).
    exists news. split; [exact Hres|]. intros s Hs.
    destruct (Forall2_in_r _ _ _ Hg s Hs) as (sg & Hsg & Hgood).
    exists sg. split; [exact (layout_seg _ _ Hl sg Hsg)|]. split; [exact (layout_nonempty _ _ Hl sg Hsg)|exact Hgood].
  Qed.

  Lemma in_tail_suffix p u s : in_tail u s -> in_tail (p ++ u) s.
  Proof. intros (sg & Hs & Hne & Hg). exists sg. split; [apply seg_app_l; exact Hs|]. split; assumption. Qed.

  Lemma firstn_pred_cons {A} (x : A) l l' :
    firstn (List.length l - 1) l' = firstn (List.length l - 1) l ->
    firstn (List.length (x :: l) - 1) (x :: l') = firstn (List.length (x :: l) - 1) (x :: l).
  Proof.
    intros H. cbn [List.length]. replace (S (List.length l) - 1)%nat with (List.length l) by lia.
    destruct l as [|y l]; [reflexivity|]. cbn [List.length] in *.
    replace (S (List.length l) - 1)%nat with (List.length l) in H by lia.
    cbn [firstn]. f_equal. exact H.
  Qed.

  Lemma stmts_after_prefix : forall fa a seen acca resa,
    parse_statements_sp tiers fa a seen acca = Some resa ->
    forall f u acc res, parse_statements_sp tiers f (a ++ u) seen acc = Some res ->
      exists newsa news, resa = rev acca ++ newsa /\ res = rev acc ++ news /\
        (forall s, In s (skipn (List.length newsa) news) -> in_tail u s) /\
        firstn (List.length newsa - 1) news = firstn (List.length newsa - 1) newsa.
  Proof.
    induction fa as [|fa IH]; intros a seen acca resa Ha f u acc res Hc; [discriminate Ha|].
    cbn [parse_statements_sp] in Ha.
    destruct a as [|t a1].
    { destruct seen; [|discriminate Ha]. injection Ha as <-. cbn [app] in Hc.
      destruct (run_in_tail _ _ _ _ _ Hc) as (news & Hres & Hin).
      exists [], news. rewrite app_nil_r. split; [reflexivity|]. split; [exact Hres|]. split; [exact Hin|reflexivity]. }
    destruct f as [|f]; [discriminate Hc|]. cbn [parse_statements_sp app] in Hc.
    destruct (token_eqb (tk t) TSemicolon) eqn:Esemi.
    { destruct seen; [|discriminate Ha]. exact (IH _ _ _ _ Ha _ _ _ _ Hc). }
    change (t :: a1 ++ u) with ((t :: a1) ++ u) in Hc.
    set (Fa := (20 * S (List.length (t :: a1)))%nat) in Ha.
    set (F := (20 * S (List.length ((t :: a1) ++ u)))%nat) in Hc.
    assert (HF : (Fa <= F)%nat) by (unfold Fa, F; rewrite app_length; lia).
    destruct (parse_statement_sp tiers Fa (t :: a1)) as [[[sa ka] resta]|] eqn:Esa; [|discriminate Ha].
    destruct (statement_stable tiers _ _ _ _ _ Esa) as (w & Hw & Hwne & St).
    assert (Hcons : forall newsa' news', resa = rev (sa :: acca) ++ newsa' -> res = rev (sa :: acc) ++ news' ->
              (forall s, In s (skipn (List.length newsa') news') -> in_tail u s) ->
              firstn (List.length newsa' - 1) news' = firstn (List.length newsa' - 1) newsa' ->
              exists newsa news, resa = rev acca ++ newsa /\ res = rev acc ++ news /\
                (forall s, In s (skipn (List.length newsa) news) -> in_tail u s) /\
                firstn (List.length newsa - 1) news = firstn (List.length newsa - 1) newsa).
    { intros newsa' news' H1 H2 H3 H4. exists (sa :: newsa'), (sa :: news').
      split; [rewrite H1; cbn [rev]; rewrite <- app_assoc; reflexivity|].
      split; [rewrite H2; cbn [rev]; rewrite <- app_assoc; reflexivity|].
      split; [exact H3|exact (firstn_pred_cons sa newsa' news' H4)]. }
    assert (Hsame : forall rest', ka = NoSemi \/ compat resta rest' ->
              parse_statement_sp tiers F ((t :: a1) ++ u) = parse_statement_sp tiers F (w ++ rest') ->
              parse_statement_sp tiers F ((t :: a1) ++ u) = Some (sa, ka, rest')).
    { intros rest' Hk Heq. rewrite Heq. exact (St F rest' HF Hk). }
    destruct ka.
    - destruct resta as [|t2 r].
      + (* the last statement of the prefix has no ";" of its own: whatever it becomes in the
           whole, it swallows the rest of the prefix *)
        destruct seen; [|discriminate Ha]. injection Ha as <-.
        destruct (parse_statement_sp tiers F ((t :: a1) ++ u)) as [[[sc kc] restc]|] eqn:Esc; [|discriminate Hc].
        destruct (statement_stable tiers _ _ _ _ _ Esc) as (wc & Hwc & Hwcne & Stc).
        rewrite app_nil_r in Hw.
        assert (Hsuffix : exists u1, u = u1 ++ restc).
        { destruct (app_eq_app _ _ _ _ Hwc) as (l & [[H1 H2]|[H1 H2]]).
          - (* the whole's statement ends inside the prefix: impossible *)
            destruct l as [|x l]; [exists []; rewrite H2; reflexivity|]. exfalso.
            assert (Hc1 : kc = NoSemi \/ compat restc (x :: l)) by (right; rewrite H2; reflexivity).
            pose proof (Stc F (x :: l) (Nat.le_refl _) Hc1) as E1. rewrite <- H1 in E1.
            pose proof (St F [] HF (or_intror I)) as E2. rewrite app_nil_r, <- Hw in E2.
            rewrite E2 in E1. discriminate E1.
          - exists l. exact H2. }
        destruct Hsuffix as (u1 & Hu).
        assert (Hfin : forall news', res = rev (sc :: acc) ++ news' -> (forall s, In s news' -> in_tail u s) ->
                  exists newsa news, rev (sa :: acca) = rev acca ++ newsa /\ res = rev acc ++ news /\
                    (forall s, In s (skipn (List.length newsa) news) -> in_tail u s) /\
                    firstn (List.length newsa - 1) news = firstn (List.length newsa - 1) newsa).
        { intros news' H1 H2. exists [sa], (sc :: news'). split; [reflexivity|].
          split; [rewrite H1; cbn [rev]; rewrite <- app_assoc; reflexivity|]. split; [exact H2|reflexivity]. }
        assert (Hrun : forall rest1 p1, u = p1 ++ rest1 -> parse_statements_sp tiers f rest1 true (sc :: acc) = Some res ->
                  exists newsa news, rev (sa :: acca) = rev acca ++ newsa /\ res = rev acc ++ news /\
                    (forall s, In s (skipn (List.length newsa) news) -> in_tail u s) /\
                    firstn (List.length newsa - 1) news = firstn (List.length newsa - 1) newsa).
        { intros rest1 p1 Hp Hrun. destruct (run_in_tail _ _ _ _ _ Hrun) as (news' & Hres & Hin).
          apply (Hfin news' Hres). intros s Hs. rewrite Hp. apply in_tail_suffix. exact (Hin s Hs). }
        destruct kc.
        * destruct restc as [|t2 restc].
          -- injection Hc as <-. apply (Hfin []); [rewrite app_nil_r; reflexivity|intros s []].
          -- destruct (token_eqb (tk t2) TSemicolon); [|discriminate Hc].
             apply (Hrun restc (u1 ++ [t2])); [rewrite Hu, <- app_assoc; reflexivity|exact Hc].
        * exact (Hrun restc u1 Hu Hc).
      + destruct (token_eqb (tk t2) TSemicolon) eqn:E2; [|discriminate Ha].
        rewrite (Hsame ((t2 :: r) ++ u)) in Hc; [|right; reflexivity|rewrite Hw, <- app_assoc; reflexivity].
        cbn [app] in Hc. rewrite E2 in Hc.
        destruct (IH _ _ _ _ Ha _ _ _ _ Hc) as (newsa' & news' & H1 & H2 & H3 & H4).
        exact (Hcons newsa' news' H1 H2 H3 H4).
    - rewrite (Hsame (resta ++ u)) in Hc; [|left; reflexivity|rewrite Hw, <- app_assoc; reflexivity].
      destruct (IH _ _ _ _ Ha _ _ _ _ Hc) as (newsa' & news' & H1 & H2 & H3 & H4).
      exact (Hcons newsa' news' H1 H2 H3 H4).
  Qed.

  Lemma parse_sp_after_prefix a u pstmts stmts :
    parse_sp tiers a = Some pstmts -> parse_sp tiers (a ++ u) = Some stmts ->
    (forall s, In s (skipn (List.length pstmts) stmts) -> in_tail u s) /\
    firstn (List.length pstmts - 1) stmts = firstn (List.length pstmts - 1) pstmts.
  Proof.
    unfold parse_sp. intros Ha Hc.
    destruct (stmts_after_prefix _ _ _ _ _ Ha _ _ _ _ Hc) as (newsa & news & H1 & H2 & H3 & H4).
    cbn [rev app] in H1, H2. subst newsa news. split; assumption.
  Qed.
End AfterPrefix.

(* ---- the text: preamble ++ user ---- *)
Lemma lex_whole uc ptext utext toks_a toks :
  Forall scalar (ptext ++ [10] ++ utext) ->
  lex uc (utf8 (ptext ++ [10])) = (toks_a, None) ->
  lex uc (utf8 ((ptext ++ [10]) ++ utext)) = (toks, None) ->
  exists toks_b, toks = toks_a ++ map (shift_tok (List.length (utf8 (ptext ++ [10])))) toks_b.
Proof.
  intros Hsc Ha Hw. destruct (lex uc (utf8 utext)) as [toks_b err_b] eqn:Hb.
  pose proof (lex_app_holds uc ptext utext toks_a toks_b err_b Hsc Ha Hb) as H. cbv zeta in H.
  rewrite Hw in H. injection H as -> _. exists toks_b. reflexivity.
Qed.

Lemma aligned_shifted k toks_b spn : token_aligned (map (shift_tok k) toks_b) spn -> (k <= fst spn)%nat.
Proof.
  intros (i & j & ti & tj & _ & Hi & _ & Hs & _). rewrite Hs.
  apply nth_error_In, in_map_iff in Hi. destruct Hi as (t0 & <- & _). unfold shift_tok, tstart. cbn [fst]. lia.
Qed.

Lemma text_split uc tiers ptext utext pstmts stmts :
  Forall scalar (ptext ++ [10] ++ utext) ->
  parse_text_sp uc tiers (utf8 (ptext ++ [10])) = Some pstmts ->
  parse_text_sp uc tiers (utf8 ((ptext ++ [10]) ++ utext)) = Some stmts ->
  exists toks_a toks_b,
    parse_sp tiers toks_a = Some pstmts /\
    parse_sp tiers (toks_a ++ map (shift_tok (List.length (utf8 (ptext ++ [10])))) toks_b) = Some stmts.
Proof.
  intros Hsc Hp Hw. unfold parse_text_sp in Hp, Hw.
  destruct (lex uc (utf8 (ptext ++ [10]))) as [toks_a [e|]] eqn:Ha; [discriminate Hp|].
  destruct (lex uc (utf8 ((ptext ++ [10]) ++ utext))) as [toks [e|]] eqn:Hl; [discriminate Hw|].
  destruct (lex_whole uc ptext utext toks_a toks Hsc Ha Hl) as (toks_b & ->).
  exists toks_a, toks_b. split; assumption.
Qed.

Theorem user_spans_after_preamble_holds : stmt_user_spans_after_preamble.
Proof.
  intros uc tiers ptext utext pstmts stmts Hsc Hp Hw s spn Hs Hspn.
  destruct (text_split uc tiers ptext utext pstmts stmts Hsc Hp Hw) as (toks_a & toks_b & Hpa & Hpw).
  destruct (parse_sp_after_prefix tiers _ _ _ _ Hpa Hpw) as [Htail _].
  destruct (Htail s Hs) as (sg & Hseg & Hne & Hgood).
  pose proof (aligned_seg _ _ _ (sgood_aligned tiers sg s Hne Hgood spn Hspn) Hseg) as Hal.
  split; [exact (aligned_shifted _ _ _ Hal)|].
  assert (Hsc' : Forall scalar ((ptext ++ [10]) ++ utext)) by (rewrite <- app_assoc; exact Hsc).
  destruct (spans_in_text_holds uc tiers _ stmts Hsc' Hw) as (toks & _ & _ & Hall).
  assert (Hin : In s stmts).
  { clear -Hs. revert Hs. generalize (List.length pstmts). intros n. revert stmts.
    induction n as [|n IH]; intros stmts Hs; [exact Hs|]. destruct stmts as [|x l]; [destruct Hs|].
    right. exact (IH l Hs). }
  destruct (Hall s spn Hin Hspn) as (_ & Hlt & Hle). split; [exact Hlt|].
  rewrite utf8_app, app_length in Hle. exact Hle.
Qed.

Theorem preamble_statements_unchanged_holds : stmt_preamble_statements_unchanged.
Proof.
  intros uc tiers ptext utext pstmts stmts Hsc Hp Hw.
  destruct (text_split uc tiers ptext utext pstmts stmts Hsc Hp Hw) as (toks_a & toks_b & Hpa & Hpw).
  exact (proj2 (parse_sp_after_prefix tiers _ _ _ _ Hpa Hpw)).
Qed.

(* the draft with ALL k statements is false: "y = 0; x = 1" LF followed by "+ 2;" *)
Lemma preamble_statements_unchanged_all_refuted : ~ stmt_preamble_statements_unchanged_all.
Proof.
  intros H.
  specialize (H test_uclass doc_tiers
                [121; 32; 61; 32; 48; 59; 32; 120; 32; 61; 32; 49] [43; 32; 50; 59]
                [SSAssign [([("y"%string, (0, 1)%nat)], SEConst (4, 5)%nat (mkV 0 Unl), (0, 5)%nat)];
                 SSAssign [([("x"%string, (7, 8)%nat)], SEConst (11, 12)%nat (mkV 1 Unl), (7, 12)%nat)]]
                [SSAssign [([("y"%string, (0, 1)%nat)], SEConst (4, 5)%nat (mkV 0 Unl), (0, 5)%nat)];
                 SSAssign [([("x"%string, (7, 8)%nat)],
                            SEBin (11, 16)%nat Add (SEConst (11, 12)%nat (mkV 1 Unl)) (SEConst (15, 16)%nat (mkV 2 Unl)),
                            (7, 16)%nat)]]).
  assert (Hsc : Forall scalar ([121; 32; 61; 32; 48; 59; 32; 120; 32; 61; 32; 49] ++ [10] ++ [43; 32; 50; 59])).
  { apply scalar_check. vm_compute. reflexivity. }
  specialize (H Hsc ltac:(vm_compute; reflexivity) ltac:(vm_compute; reflexivity)).
  vm_compute in H. discriminate H.
Qed.

(* ---- composition with the renderer ---- *)
(* quoted: RegionProofs.never_preamble_partial (= Props.C14.C14_never_preamble),
           RegionProofs.locate_one_line_ok    (= Props.C14.C14_locate_one_line),
           RegionProofs.show_region_total_ok  (= C13, the renderer never panics) *)
Lemma rendered_in_user_file pre user fname s e :
  wf_text pre -> wf_text user ->
  (List.length pre <= s)%nat -> (s < e)%nat -> (e <= List.length pre + List.length user)%nat ->
  let fc := new_from_data pre user fname in
  exists us ue, s = (List.length pre + us)%nat /\ e = (List.length pre + ue)%nat /\
                (us < ue)%nat /\ (ue <= List.length user)%nat /\
    (exists out, show_region fc s e = Some out /\
                 exists rest, out = RegionSpec.sp 5 ++ [45; 62; 32] ++ fname ++ [58] ++ rest) /\
    (count_lf (firstn (ue - us) (skipn us user)) = O ->
       show_region fc s e =
       Some (one_line_region fname (line_no user us) (line_text user us) (col_of user us) (ue - us))).
Proof.
  intros Hwp Hwu Hs Hlt He fc.
  exists (s - List.length pre)%nat, (e - List.length pre)%nat.
  split; [lia|]. split; [lia|]. split; [lia|]. split; [lia|]. split.
  - destruct (show_region fc s e) as [out|] eqn:Hshow.
    + exists out. split; [reflexivity|].
      exact (never_preamble_partial pre user fname s e out Hs ltac:(lia) Hshow).
    + exfalso. exact (show_region_total_ok pre user fname s e Hwp Hwu Hshow).
  - intros Hone.
    pose proof (locate_one_line_ok pre user fname (s - List.length pre)%nat (e - List.length pre)%nat Hwp Hwu
                  ltac:(lia) ltac:(lia) Hone) as H.
    replace (List.length pre + (s - List.length pre))%nat with s in H by lia.
    replace (List.length pre + (e - List.length pre))%nat with e in H by lia.
    apply H. apply skipn_nonempty. lia.
Qed.

Theorem user_span_rendered_in_user_file_holds : stmt_user_span_rendered_in_user_file.
Proof.
  intros uc tiers ptext utext fname pstmts stmts Hsc Hp Hw pre user fc s spn Hs Hspn.
  destruct (user_spans_after_preamble_holds uc tiers ptext utext pstmts stmts Hsc Hp Hw s spn Hs Hspn)
    as (H1 & H2 & H3).
  exact (rendered_in_user_file pre user fname (fst spn) (snd spn) (wf_text_utf8 _) (wf_text_utf8 _) H1 H2 H3).
Qed.

(* the compiled preamble: 17 statements *)
Lemma preamble_parses : exists l, parse_text_sp test_uclass doc_tiers preamble_bytes = Some l /\
                                  List.length l = preamble_statement_count.
Proof.
  unfold preamble_statement_count.
  destruct (parse_text_sp test_uclass doc_tiers preamble_bytes) as [l|] eqn:E; [|vm_compute in E; discriminate E].
  exists l. split; reflexivity.
Qed.

Example preamble_statement_count_is_17 : preamble_statement_count = 17%nat.
Proof. vm_compute. reflexivity. Qed.

Theorem user_span_rendered_in_user_file_gen_holds : stmt_user_span_rendered_in_user_file_gen.
Proof.
  intros uc utext fname stmts Hsc Hw user fc s spn Hs Hspn.
  destruct gen_preamble_ok_holds as (ptext & ptoks & Hpre & Hscp & Hlex).
  destruct preamble_parses as (l & Hl & Hlen).
  assert (Hp : parse_text_sp uc doc_tiers (utf8 (ptext ++ [10])) = Some l).
  { rewrite <- Hpre. unfold parse_text_sp in Hl |- *. rewrite Hlex in Hl |- *. exact Hl. }
  assert (Hsc' : Forall scalar (ptext ++ [10] ++ utext)).
  { rewrite app_assoc. apply Forall_app. split; assumption. }
  assert (Hw' : parse_text_sp uc doc_tiers (utf8 ((ptext ++ [10]) ++ utext)) = Some stmts).
  { rewrite utf8_app, <- Hpre. exact Hw. }
  rewrite <- Hlen in Hs.
  pose proof (user_span_rendered_in_user_file_holds uc doc_tiers ptext utext fname l stmts Hsc' Hp Hw' s spn Hs Hspn) as H.
  cbv zeta in H. rewrite <- Hpre in H. exact H.
Qed.

(* ====================================================================================== *)
(* 7. (e) at the level of the text                                                        *)
(* ====================================================================================== *)
Lemma spans_of_length : forall items pos, List.length (spans_of pos items) = List.length items.
Proof. induction items as [|[[sp t] s] r IH]; intros pos; [reflexivity|]. cbn [spans_of List.length]. rewrite IH. reflexivity. Qed.

Lemma text_of_items_app i1 i2 last : text_of (i1 ++ i2) last = text_of i1 [] ++ text_of i2 last.
Proof.
  induction i1 as [|[[sp t] s] r IH]; [reflexivity|]. cbn [app text_of]. rewrite IH, <- !app_assoc. reflexivity.
Qed.

Lemma spans_of_app : forall i1 i2 pos,
  spans_of pos (i1 ++ i2) = spans_of pos i1 ++ spans_of (pos + blen (text_of i1 [])) i2.
Proof.
  induction i1 as [|[[sp t] s] r IH]; intros i2 pos.
  - cbn [app spans_of text_of]. rewrite blen_nil, Nat.add_0_r. reflexivity.
  - cbn [app spans_of text_of]. rewrite IH. cbn [app]. f_equal. f_equal. f_equal.
    rewrite !blen_app. unfold blen. lia.
Qed.

Lemma app_eq_length {A} (a a' b b' : list A) : a ++ b = a' ++ b' -> List.length a = List.length a' -> a = a' /\ b = b'.
Proof.
  revert a'. induction a as [|x a IH]; intros [|x' a'] H Hlen; try discriminate Hlen; [split; [reflexivity|exact H]|].
  cbn [app] in H. injection H as -> H. cbn in Hlen. destruct (IH a' H ltac:(lia)) as [-> ->]. split; reflexivity.
Qed.

Lemma split_spans pos items p c q : spans_of pos items = p ++ c ++ q ->
  exists ip ic iq, items = ip ++ ic ++ iq /\ spans_of pos ip = p /\ spans_of (pos + blen (text_of ip [])) ic = c.
Proof.
  intros H.
  assert (Hlen : List.length items = (List.length p + (List.length c + List.length q))%nat).
  { rewrite <- (spans_of_length items pos), H, !app_length. reflexivity. }
  set (ip := firstn (List.length p) items). set (r1 := skipn (List.length p) items).
  assert (Hitems : items = ip ++ r1) by (symmetry; apply firstn_skipn).
  assert (Hlip : List.length ip = List.length p) by (unfold ip; rewrite firstn_length; lia).
  rewrite Hitems, spans_of_app in H.
  destruct (app_eq_length _ _ _ _ H ltac:(rewrite spans_of_length; exact Hlip)) as [Hp Hr1].
  set (ic := firstn (List.length c) r1). set (iq := skipn (List.length c) r1).
  assert (Hr1s : r1 = ic ++ iq) by (symmetry; apply firstn_skipn).
  assert (Hlr1 : List.length r1 = (List.length c + List.length q)%nat).
  { unfold r1. rewrite skipn_length. lia. }
  assert (Hlic : List.length ic = List.length c) by (unfold ic; rewrite firstn_length; lia).
  rewrite Hr1s, spans_of_app in Hr1.
  destruct (app_eq_length _ _ _ _ Hr1 ltac:(rewrite spans_of_length; exact Hlic)) as [Hc _].
  exists ip, ic, iq. split; [rewrite Hitems, Hr1s; reflexivity|]. split; assumption.
Qed.

Lemma ladm_suffix uc i1 i2 last : ladmissible uc (i1 ++ i2) last -> ladmissible uc i2 last.
Proof. induction i1 as [|[[sp t] s] r IH]; intros H; [exact H|]. apply IH. exact (proj2 (proj2 (proj2 H))). Qed.

Lemma ladm_prefix uc i1 i2 last : ladmissible uc (i1 ++ i2) last -> ladmissible uc i1 (text_of i2 last).
Proof.
  induction i1 as [|[[sp t] s] r IH]; intros H; [exact I|].
  cbn [app ladmissible] in H |- *. destruct H as (H1 & H2 & H3 & H4).
  split; [exact H1|]. split; [exact H2|]. split; [|exact (IH H4)].
  rewrite text_of_items_app in H3. rewrite (text_of_app r (text_of i2 last)). exact H3.
Qed.

Lemma last_end_spans uc : forall ic pos last, ladmissible uc ic last -> ic <> [] ->
  last_end (spans_of pos ic) = (pos + blen (text_of ic []))%nat.
Proof.
  induction ic as [|[[sp t] s] r IH]; intros pos last Hadm Hne; [congruence|].
  cbn [spans_of text_of]. destruct r as [|i2 r].
  - cbn [spans_of last_end text_of]. unfold tend. cbn [snd]. rewrite !blen_app, blen_nil. unfold blen. lia.
  - rewrite last_end_cons by (destruct i2 as [[? ?] ?]; discriminate).
    rewrite (IH _ last (proj2 (proj2 (proj2 Hadm))) ltac:(discriminate)).
    rewrite !blen_app. unfold blen. lia.
Qed.

Theorem span_is_extent_holds : stmt_span_is_extent.
Proof.
  intros uc tiers text stmts Hsc H s n Hs Hn bytes.
  unfold parse_text_sp in H. destruct (lex uc (utf8 text)) as [toks [e|]] eqn:Hlex; [discriminate H|].
  destruct (lex_ok_inv_holds uc text toks Hsc Hlex) as (items & last & Htext & Hadm & Hfin & Htoks).
  (* where the node is *)
  destruct (parse_sp_inv tiers toks stmts H) as (segs & Hl & Hg).
  destruct (Forall2_in_r _ _ _ Hg s Hs) as (sg & Hsg & Hgood).
  destruct (sgood_nodes tiers sg s Hgood n Hn) as (c & Hsc' & Hnec & Hsp & (f0 & ext & Hre) & _).
  destruct (seg_trans _ _ _ Hsc' (layout_seg _ _ Hl sg Hsg)) as (p & q & Hpcq).
  rewrite Htoks in Hpcq. destruct (split_spans 0 items p c q Hpcq) as (ip & ic & iq & Hitems & Hp & Hc).
  destruct ic as [|[[sep0 t0] s0] ic']; [cbn in Hc; congruence|].
  set (ic0 := ([], t0, s0) :: ic' : list item).
  set (A := text_of ip [] ++ sep0).
  assert (Htext' : text = A ++ text_of ic0 [] ++ text_of iq last).
  { rewrite Htext, Hitems, text_of_items_app, text_of_items_app. unfold A, ic0. cbn [text_of app].
    rewrite <- !app_assoc. reflexivity. }
  (* the sub-text is admissible *)
  assert (Hadm0 : ladmissible uc ic0 []).
  { rewrite Hitems in Hadm. apply ladm_suffix in Hadm. apply ladm_prefix in Hadm.
    apply (ladmissible_prefix uc _ [] (text_of iq last)) in Hadm.
    cbn [ladmissible] in Hadm |- *. destruct Hadm as (_ & H2 & H3 & H4).
    split; [constructor|]. split; [exact H2|]. split; assumption. }
  assert (Hsc0 : Forall scalar (text_of ic0 [])).
  { rewrite Htext' in Hsc. apply Forall_app_r in Hsc. apply Forall_app_l in Hsc. exact Hsc. }
  pose proof (lex_items_holds uc ic0 [] Hadm0 (tf_closed uc [] (tv_nil uc)) Hsc0) as Hlex0.
  (* the span in bytes *)
  assert (Hfirst : first_start c = blen A).
  { rewrite <- Hc. cbn [spans_of first_start]. unfold tstart. cbn [fst]. unfold A. rewrite blen_app. unfold blen. lia. }
  assert (Hlast : last_end c = (blen A + blen (text_of ic0 []))%nat).
  { rewrite <- Hc.
    assert (Hadmc : ladmissible uc ((sep0, t0, s0) :: ic') (text_of iq last)).
    { rewrite Hitems in Hadm. apply ladm_suffix in Hadm. apply ladm_prefix in Hadm. exact Hadm. }
    rewrite (last_end_spans uc _ _ _ Hadmc ltac:(discriminate)).
    unfold A, ic0. cbn [text_of app]. rewrite !blen_app. lia. }
  assert (Hbytes : bytes = utf8 (text_of ic0 [])).
  { unfold bytes. rewrite Hsp. cbn [fst snd extent]. rewrite Htext', !utf8_app.
    apply slice_mid; [exact Hfirst|]. rewrite Hlast. reflexivity. }
  assert (Hext0 : extent (spans_of 0 ic0) = (O, blen (text_of ic0 []))).
  { unfold extent. rewrite (last_end_spans uc ic0 0 [] Hadm0 ltac:(discriminate)). reflexivity. }
  exists (text_of ic0 []), (spans_of 0 ic0).
  split; [exact Hbytes|]. split; [exact Hsc0|]. split; [rewrite Hbytes; exact Hlex0|]. split.
  - rewrite Hext0, Hsp. cbn [fst snd extent]. rewrite Hfirst, Hlast. f_equal. lia.
  - (* parsing the re-lexed tokens *)
    assert (Hsame : same_tokens c (spans_of 0 ic0)).
    { unfold same_tokens. rewrite <- Hc, !spans_tokens. reflexivity. }
    exists f0. intros fuel Hf.
    pose proof (Stab1_mono (parse_expr_sp tiers) f0 c (n, ext) [] fuel (parse_expr_sp_stable tiers f0) Hre Hf) as Hre'.
    pose proof (erase_parse_expr tiers fuel c) as Her. rewrite Hre' in Her. cbn [er3] in Her.
    pose proof (proj1 (parse_ignores_positions_holds tiers c (spans_of 0 ic0) Hsame) fuel) as Hpos.
    rewrite <- Her in Hpos. unfold same_result in Hpos.
    destruct (parse_expr tiers fuel (spans_of 0 ic0)) as [[e2 r2]|]; [|destruct Hpos].
    destruct Hpos as [<- Hr2]. unfold same_tokens in Hr2. destruct r2; [reflexivity|discriminate Hr2].
Qed.

(* ====================================================================================== *)
(* 8. non-vacuity: real texts                                                             *)
(* ====================================================================================== *)
Module Examples.
Import String.
Local Open Scope string_scope.

Definition lf : string := String (Ascii.ascii_of_nat 10) EmptyString.
Definition c3 : wval := mkV 3 Unl.
Definition lit (n : N) : wval := mkV n Unl.

(* a program with multi-name declarations, parenthesised operands, a case expression, a set
   membership, a bit slice, a concatenation under a unary operator and a register bank:
       wire a : 8 , b:1;
       const K = ( 3 + 4 ) * 2 ;
       x = y = [ a in { 1 , K } : ( a ) [ 0 .. 4 ] ; 1 : -( b .. a ) ] ;
       register fD { r : 8 = ~K ; }
   The spans below are also those the real parser reports for this text (harness command "parse"). *)
Definition ex_prog : list N := bytes_of_string (
  "wire a : 8 , b:1;" ++ lf ++
  "const K = ( 3 + 4 ) * 2 ;" ++ lf ++
  "x = y = [ a in { 1 , K } : ( a ) [ 0 .. 4 ] ; 1 : -( b .. a ) ] ;" ++ lf ++
  "register fD { r : 8 = ~K ; }" ++ lf).

Definition ex_prog_stmts : list sstmt :=
  [SSWire [("a", Bits 8, (5, 10)%nat); ("b", Bits 1, (13, 16)%nat)];
   SSConst
     [("K", (24, 25)%nat,
       (* ( 3 + 4 ) * 2 : the product starts at "(", the sum does not include the parentheses *)
       SEBin (28, 41)%nat Mul
         (SEBin (30, 35)%nat Add (SEConst (30, 31)%nat (lit 3)) (SEConst (34, 35)%nat (lit 4)))
         (SEConst (40, 41)%nat (lit 2)))];
   SSAssign
     [([("x", (44, 45)%nat); ("y", (48, 49)%nat)],
       SEMux (52, 107)%nat
         (SACons
            (SEIn (54, 68)%nat (SEWire (54, 55)%nat "a")
               (SXCons (SEConst (61, 62)%nat (lit 1)) (SXCons (SEWire (65, 66)%nat "K") SXNil)))
            (* ( a ) [ 0 .. 4 ] : the slice starts at "(", the sliced wire is just "a" *)
            (SESlice (71, 87)%nat (SEWire (73, 74)%nat "a") 0 4)
            (SACons (SEConst (90, 91)%nat (lit 1))
               (SEUn (94, 105)%nat Negate
                  (SECat (95, 105)%nat (SEWire (97, 98)%nat "b") (SEWire (102, 103)%nat "a"))) SANil)),
       (44, 107)%nat)];
   SSBank "fD" (119, 121)%nat
     [("r", Bits 8, SEUn (132, 134)%nat Complement (SEWire (133, 134)%nat "K"), (124, 134)%nat)]
     (110, 138)%nat].

Example ex_prog_spans : parse_text_sp test_uclass doc_tiers ex_prog = Some ex_prog_stmts.
Proof. vm_compute. reflexivity. Qed.

(* (a) *)
Example ex_prog_erased :
  option_map (map erase_stmt) (parse_text_sp test_uclass doc_tiers ex_prog) = parse_text test_uclass doc_tiers ex_prog /\
  parse_text test_uclass doc_tiers ex_prog <> None.
Proof. split; [apply erase_parse_text_sp_holds|vm_compute; discriminate]. Qed.

(* comments and blank lines between the tokens: no span contains them at its ends
       x /* to */ =
   
         ( 1 // one
         + 2 )  # sum
   
         * 3 /* end */ ;                                                                     *)
Definition ex_trivia : list N := bytes_of_string (
  "x /* to */ =" ++ lf ++ lf ++ "  ( 1 // one" ++ lf ++ "  + 2 )  # sum" ++ lf ++ lf ++ "  * 3 /* end */ ;" ++ lf).

Definition ex_trivia_stmts : list sstmt :=
  [SSAssign
     [([("x", (0, 1)%nat)],
       SEBin (16, 48)%nat Mul                                (* from "(" to "3" *)
         (SEBin (18, 32)%nat Add (SEConst (18, 19)%nat (lit 1)) (SEConst (31, 32)%nat (lit 2)))   (* "1 // one LF + 2" *)
         (SEConst (47, 48)%nat (lit 3)),
       (0, 48)%nat)]].                                       (* from "x" to "3": not the ";" *)

Example ex_trivia_spans : parse_text_sp test_uclass doc_tiers ex_trivia = Some ex_trivia_stmts.
Proof. vm_compute. reflexivity. Qed.

(* the hypotheses of the theorems about texts are met by these texts *)
Lemma ascii_text l : forallb (fun b => (b <? 128)%N) l = true -> l = utf8 l /\ Forall scalar l.
Proof.
  intros H. split; [symmetry; apply utf8_ascii; exact H|].
  apply scalar_check. apply forallb_forall. intros c Hc.
  pose proof (proj1 (forallb_forall _ _) H c Hc) as H1. apply N.ltb_lt in H1. apply N.ltb_lt. lia.
Qed.

Example ex_prog_in_text :
  exists toks, lex test_uclass ex_prog = (toks, None) /\ tokens_ordered toks /\ List.length toks = 63%nat /\
    forall s spn, In s ex_prog_stmts -> In spn (stmt_spans s) ->
      token_aligned toks spn /\ (fst spn < snd spn)%nat /\ (snd spn <= List.length ex_prog)%nat.
Proof.
  destruct (ascii_text ex_prog ltac:(vm_compute; reflexivity)) as [Hu Hsc].
  destruct (spans_in_text_holds test_uclass doc_tiers ex_prog ex_prog_stmts Hsc) as (toks & Hlex & Ho & Hall).
  { rewrite <- Hu. exact ex_prog_spans. }
  rewrite <- Hu in Hlex, Hall. exists toks. split; [exact Hlex|]. split; [exact Ho|]. split; [|exact Hall].
  vm_compute in Hlex. injection Hlex as <-. reflexivity.
Qed.

Example ex_prog_nested :
  (forall s n ch, In s ex_prog_stmts -> In n (stmt_nodes s) -> In ch (children n) -> inside (espan ch) (espan n)) /\
  (forall s, In s ex_prog_stmts -> stmt_parts_nested s) /\
  List.length (flat_map stmt_nodes ex_prog_stmts) = 19%nat.
Proof.
  destruct (ascii_text ex_prog ltac:(vm_compute; reflexivity)) as [Hu Hsc].
  destruct (lex test_uclass ex_prog) as [toks err] eqn:Hlex.
  assert (Herr : err = None) by (vm_compute in Hlex; injection Hlex as _ <-; reflexivity). subst err.
  pose proof ex_prog_spans as Hp. unfold parse_text_sp in Hp. rewrite Hlex in Hp.
  rewrite Hu in Hlex. destruct (lex_tokens_ordered_holds test_uclass ex_prog toks None Hsc Hlex) as [Ho _].
  destruct (spans_nested_holds doc_tiers toks ex_prog_stmts Ho Hp) as (H1 & H2 & _).
  split; [exact H1|]. split; [exact H2|reflexivity].
Qed.

(* the four statements occupy disjoint stretches, in order *)
Example ex_prog_disjoint :
  forall i j si sj spi spj, (i < j)%nat ->
    nth_error ex_prog_stmts i = Some si -> nth_error ex_prog_stmts j = Some sj ->
    In spi (stmt_spans si) -> In spj (stmt_spans sj) -> (snd spi <= fst spj)%nat.
Proof.
  destruct (ascii_text ex_prog ltac:(vm_compute; reflexivity)) as [Hu Hsc].
  destruct (lex test_uclass ex_prog) as [toks err] eqn:Hlex.
  assert (Herr : err = None) by (vm_compute in Hlex; injection Hlex as _ <-; reflexivity). subst err.
  pose proof ex_prog_spans as Hp. unfold parse_text_sp in Hp. rewrite Hlex in Hp.
  rewrite Hu in Hlex. destruct (lex_tokens_ordered_holds test_uclass ex_prog toks None Hsc Hlex) as [Ho _].
  exact (statement_spans_disjoint_holds doc_tiers toks ex_prog_stmts Ho Hp).
Qed.

(* (e), tokens: the tokens inside the span (18, 32) of ex_trivia are  1 + 2  and give the sum back *)
Example ex_trivia_extent_tokens :
  tokens_within 18 32 (fst (lex test_uclass ex_trivia)) =
    [(18, TLit (lit 1), 19); (29, TPlus, 30); (31, TLit (lit 2), 32)]%nat /\
  parse_expr_sp doc_tiers 40 (tokens_within 18 32 (fst (lex test_uclass ex_trivia))) =
    Some (SEBin (18, 32)%nat Add (SEConst (18, 19)%nat (lit 1)) (SEConst (31, 32)%nat (lit 2)), (18, 32)%nat, []).
Proof. vm_compute. split; reflexivity. Qed.

(* (e): the bytes of the span (18, 32) of the sum in ex_trivia are "1 // one LF   + 2"; lexed and
   parsed on their own they are the sum; likewise the product's span (16, 48) *)
Example ex_trivia_extent :
  slice ex_trivia 18 32 = bytes_of_string ("1 // one" ++ lf ++ "  + 2") /\
  parse_expr doc_tiers 40 (fst (lex test_uclass (slice ex_trivia 18 32))) =
    Some (EBin Add (EConst (lit 1)) (EConst (lit 2)), []) /\
  parse_expr doc_tiers 40 (fst (lex test_uclass (slice ex_trivia 16 48))) =
    Some (EBin Mul (EBin Add (EConst (lit 1)) (EConst (lit 2))) (EConst (lit 3)), []).
Proof. vm_compute. repeat split; reflexivity. Qed.

Example ex_trivia_extent_thm :
  forall s n, In s ex_trivia_stmts -> In n (stmt_nodes s) ->
    exists sub toks', slice ex_trivia (fst (espan n)) (snd (espan n)) = utf8 sub /\ Forall scalar sub /\
      lex test_uclass (slice ex_trivia (fst (espan n)) (snd (espan n))) = (toks', None) /\
      extent toks' = (O, (snd (espan n) - fst (espan n))%nat) /\
      exists fuel0, forall fuel, (fuel0 <= fuel)%nat -> parse_expr doc_tiers fuel toks' = Some (erase_expr n, []).
Proof.
  destruct (ascii_text ex_trivia ltac:(vm_compute; reflexivity)) as [Hu Hsc].
  pose proof (span_is_extent_holds test_uclass doc_tiers ex_trivia ex_trivia_stmts Hsc) as H. rewrite <- Hu in H.
  exact (H ex_trivia_spans).
Qed.

(* (d): a user's file after the compiled preamble (1027 bytes, 17 statements)
       wire y : 4;
       x = 1 +  ( y ) ; # c                                                                  *)
Definition ex_user : list N := bytes_of_string ("wire y : 4;" ++ lf ++ "x = 1 +  ( y ) ; # c" ++ lf).
Definition ex_file : list N := bytes_of_string "ex.hcl".

Example ex_user_statements :
  option_map (skipn preamble_statement_count) (parse_text_sp test_uclass doc_tiers (app preamble_bytes ex_user)) =
  Some [SSWire [("y", Bits 4, (1032, 1037)%nat)];
        SSAssign [([("x", (1039, 1040)%nat)],
                   SEBin (1043, 1053)%nat Add (SEConst (1043, 1044)%nat (lit 1)) (SEWire (1050, 1051)%nat "y"),
                   (1039, 1053)%nat)]] /\
  List.length preamble_bytes = 1027%nat.
Proof. vm_compute. split; reflexivity. Qed.

(* the sum "1 +  ( y )" is underlined in the user's file, line 2, columns 4 .. 13 *)
Example ex_user_rendered :
  show_region (new_from_data preamble_bytes ex_user ex_file) 1043 1053 =
  Some (one_line_region ex_file 2 (bytes_of_string "x = 1 +  ( y ) ; # c") 4 10).
Proof. vm_compute. reflexivity. Qed.

Example ex_user_rendered_thm :
  forall stmts, parse_text_sp test_uclass doc_tiers (app preamble_bytes ex_user) = Some stmts ->
  forall s spn, In s (skipn preamble_statement_count stmts) -> In spn (stmt_spans s) ->
    exists us ue, fst spn = (List.length preamble_bytes + us)%nat /\ snd spn = (List.length preamble_bytes + ue)%nat /\
      (us < ue)%nat /\ (ue <= List.length ex_user)%nat /\
      (exists out, show_region (new_from_data preamble_bytes ex_user ex_file) (fst spn) (snd spn) = Some out /\
                   exists rest, out = app (RegionSpec.sp 5) (app [45; 62; 32] (app ex_file (app [58] rest)))) /\
      (count_lf (firstn (ue - us) (skipn us ex_user)) = O ->
         show_region (new_from_data preamble_bytes ex_user ex_file) (fst spn) (snd spn) =
         Some (one_line_region ex_file (line_no ex_user us) (line_text ex_user us) (col_of ex_user us) (ue - us))).
Proof.
  destruct (ascii_text ex_user ltac:(vm_compute; reflexivity)) as [Hu Hsc].
  intros stmts Hp. rewrite Hu in Hp at 1.
  pose proof (user_span_rendered_in_user_file_gen_holds test_uclass ex_user ex_file stmts Hsc Hp) as H.
  cbv zeta in H. rewrite <- Hu in H. exact H.
Qed.
End Examples.

Print Assumptions erase_parse_sp_holds.
Print Assumptions erase_parse_text_sp_holds.
Print Assumptions spans_token_aligned_holds.
Print Assumptions lex_tokens_ordered_holds.
Print Assumptions spans_in_text_holds.
Print Assumptions spans_nested_holds.
Print Assumptions statement_spans_disjoint_holds.
Print Assumptions user_spans_after_preamble_holds.
Print Assumptions preamble_statements_unchanged_holds.
Print Assumptions preamble_statements_unchanged_all_refuted.
Print Assumptions user_span_rendered_in_user_file_holds.
Print Assumptions user_span_rendered_in_user_file_gen_holds.
Print Assumptions span_is_extent_tokens_holds.
Print Assumptions span_is_extent_holds.
