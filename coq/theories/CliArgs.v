(* Model extension for property C19: main_real (src/main.rs) over the RAW argument vector.

   Cli.main_model takes an `invocation` in which the option syntax is already digested.  This
   file models the digestion: what `getopts::Options::parse` (crate getopts 0.2.24, the version
   in Cargo.lock) does with the option table that main_real builds - nine `optflag`s, that is
   options without argument that may occur at most once - with the default parsing style
   (FloatingFrees: options may follow positional arguments).

   Domain: the elements of the list are the arguments after the program name, as byte strings.
   main_real obtains them from std::env::args(), which PANICS (exit status 101) when an argument
   is not valid UTF-8; the model is about argument vectors of valid UTF-8 strings.  On those the
   conversion `to_str` at the head of Options::parse cannot fail, and all the bytes the parser
   looks for ('-', '=', the six option letters) are ASCII, so that working on bytes or on
   characters makes no difference: a non-ASCII character in a group of short options is an
   unknown option either way.

   Definitions only; everything is executable (parse_argv is a plain function on list string). *)
From HclV Require Import Base Cli.
Open Scope string_scope.
Open Scope N_scope.

(* ---- the option table of main_real, in the order of the optflag calls ---- *)
Inductive flag :=
| FCheck | FDebug | FQuiet | FTesting | FHelp | FInteractive    (* short and long name *)
| FUngroup | FTrace | FVersion.                                   (* long name only *)

Definition all_flags : list flag :=
  [FCheck; FDebug; FQuiet; FTesting; FHelp; FInteractive; FUngroup; FTrace; FVersion].

Definition short_name (f : flag) : option ascii :=
  match f with
  | FCheck => Some "c"%char | FDebug => Some "d"%char | FQuiet => Some "q"%char
  | FTesting => Some "t"%char | FHelp => Some "h"%char | FInteractive => Some "i"%char
  | FUngroup => None | FTrace => None | FVersion => None
  end.

Definition long_name (f : flag) : string :=
  match f with
  | FCheck => "check" | FDebug => "debug" | FQuiet => "quiet" | FTesting => "testing"
  | FHelp => "help" | FInteractive => "interactive"
  | FUngroup => "ungroup-debug-wires" | FTrace => "trace-assignments" | FVersion => "version"
  end.

Definition flag_eqb (a b : flag) : bool :=
  match a, b with
  | FCheck, FCheck | FDebug, FDebug | FQuiet, FQuiet | FTesting, FTesting | FHelp, FHelp
  | FInteractive, FInteractive | FUngroup, FUngroup | FTrace, FTrace | FVersion, FVersion => true
  | _, _ => false
  end.

(* find_opt(&opts, &Short(c)) *)
Definition short_flag (c : ascii) : option flag :=
  find (fun f => match short_name f with Some s => Ascii.eqb s c | None => false end) all_flags.

(* find_opt(&opts, &Name::from_str(name)): Name::from_str turns a name of length one into
   Short(name[0]), every other name into Long(name).  Hence `--d` is the debug flag. *)
Definition long_flag (name : string) : option flag :=
  match name with
  | String c EmptyString => short_flag c
  | _ => find (fun f => String.eqb (long_name f) name) all_flags
  end.

(* tail.splitn(2, '='): the text before the first '=' and, when there is one, the text after it *)
Fixpoint split_at_eq (s : string) : string * option string :=
  match s with
  | EmptyString => (EmptyString, None)
  | String c r =>
      if Ascii.eqb c "="%char then (EmptyString, Some r)
      else let (n, v) := split_at_eq r in (String c n, v)
  end.

(* the loop `for (j, ch) in cur.char_indices().skip(1)`: every letter must be a known short
   flag (none of them takes an argument, so none ends the group) *)
Fixpoint cluster (s : string) : option (list flag) :=
  match s with
  | EmptyString => Some []
  | String c r =>
      match short_flag c with
      | None => None                                     (* UnrecognizedOption *)
      | Some f => match cluster r with Some fs => Some (f :: fs) | None => None end
      end
  end.

(* one iteration of the `while let Some(cur) = args.next()` loop *)
Inductive arg_class :=
| Positional                  (* !is_arg(cur): pushed on `free` *)
| Terminator                  (* cur == "--" *)
| Flags (fs : list flag)      (* recorded occurrences *)
| Bad.                        (* UnrecognizedOption / UnexpectedArgument *)

Definition classify (a : string) : arg_class :=
  match a with
  | String c0 (String c r as tail) =>
      if negb (Ascii.eqb c0 "-"%char) then Positional   (* is_arg: first byte '-' and longer than that *)
      else if Ascii.eqb c "-"%char then
        match r with
        | EmptyString => Terminator
        | _ =>
            let (name, value) := split_at_eq r in
            match long_flag name with
            | None => Bad                                  (* UnrecognizedOption *)
            | Some f => match value with
                        | Some _ => Bad                    (* UnexpectedArgument: hasarg == No *)
                        | None => Flags [f]
                        end
            end
        end
      else match cluster tail with Some fs => Flags fs | None => Bad end
  | _ => Positional                                    (* "" and "-" *)
  end.

(* the whole loop: the occurrences in order, and the positional arguments *)
Fixpoint collect (args : list string) : option (list flag * list string) :=
  match args with
  | [] => Some ([], [])
  | a :: rest =>
      match classify a with
      | Bad => None
      | Terminator => Some ([], rest)                     (* free.extend(args); break *)
      | Positional =>
          match collect rest with Some (fs, free) => Some (fs, a :: free) | None => None end
      | Flags fs1 =>
          match collect rest with Some (fs, free) => Some ((fs1 ++ fs)%list, free) | None => None end
      end
  end.

Definition has_flag (f : flag) (fs : list flag) : bool := existsb (flag_eqb f) fs.

(* the final loop over vals: `opt.occur != Multi && vals.len() > 1` is OptionDuplicated *)
Fixpoint no_repeat (fs : list flag) : bool :=
  match fs with
  | [] => true
  | f :: r => negb (has_flag f r) && no_repeat r
  end.

(* Options::parse(&args[1..]): None = Err(_); Some (flags given, in order of occurrence; free) *)
Definition parse_argv (args : list string) : option (list flag * list string) :=
  match collect args with
  | Some (fs, free) => if no_repeat fs then Some (fs, free) else None
  | None => None
  end.

(* what main_real reads off the Matches: opt_present("h"), ("version"), ("c"), and .free.
   The three kinds say what free[0] and free[1] turn out to be and how the simulation ends. *)
Definition invocation_of (args : list string) (hcl : hcl_kind) (yo : yo_kind) (sim : sim_kind)
  : invocation :=
  match parse_argv args with
  | None => mkInv false false false false [] hcl yo sim
  | Some (fs, free) =>
      mkInv true (has_flag FHelp fs) (has_flag FVersion fs) (has_flag FCheck fs) free hcl yo sim
  end.

Definition main_argv (args : list string) (hcl : hcl_kind) (yo : yo_kind) (sim : sim_kind)
  : N * what :=
  main_model (invocation_of args hcl yo sim).

(* The same with the outside world as functions of the names: what the file named by free[0] is
   for the front end, what the file named by free[1] is for the loader, and how the simulation of
   that pair ends within a cycle budget. *)
Record world := mkWorld {
  w_hcl : string -> hcl_kind;
  w_yo : string -> yo_kind;
  w_sim : string -> string -> N -> sim_kind
}.

Definition budget_of (free : list string) : N :=
  match free with
  | _ :: _ :: t :: _ => match parse_u32 t with Some v => v | None => 0 end
  | _ => default_timeout
  end.

Definition main_in_world (w : world) (args : list string) : N * what :=
  let free := match parse_argv args with Some (_, free) => free | None => [] end in
  let f := nth 0 free "" in
  let y := nth 1 free "" in
  main_argv args (w_hcl w f) (w_yo w y) (w_sim w f y (budget_of free)).
