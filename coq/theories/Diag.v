(* Model of the diagnostic renderer of src/errors.rs: Error::format_for_contents and its helpers
   (error, error_continue, s_are, format_token_list, list_with_and, the Display impl used by the
   `_ =>` arm).  Definitions only; executable and extractable.

   - [rerror] mirrors hclrs::Error variant by variant, with exactly the data the renderer reads.
     It is also the interchange format with the real program: the hook
     verif_hooks::error_sexprs prints each (flattened) error as `(Variant item ...)`, and the
     constructor `RVariant` takes the same items in the same order
         h<hex>      string                      Coq string (of bytes)
         @s:e        Span                        nat * nat
         @loc        Loc                         nat
         u | n       WireWidth                   Expr.width (Unl | Bits n)
         none|h<hex> Option<String>              option string
         ( ... )     Vec                         list
         n           u8 (InvalidBitIndex)        N
     A SpannedExpr appears as its span only; MismatchedMuxWidths as the list of the spans of the
     option VALUES and the list of widths.  Error::MultipleErrors is flattened by the hook: a
     diagnostic is a [list rerror] at top level ([render_all]).
   - Texts are Coq strings of bytes (UTF-8).  The file is Region.file_contents (list of bytes).
   - [None] = the Rust code would panic: `&contents.data()[a..b]` with a > b, b > len or off a
     character boundary; `widths[i]` out of range; `&possible_token[0..1]` /
     `&possible_token[1..len-1]` out of range or off a character boundary; show_region /
     line_number_and_bounds returning None (Region.v).
   - char::is_whitespace on non-ASCII characters depends on Rust's Unicode tables: parameter
     [uclass_of], as in Lexer.v. *)
From HclV Require Import Base Expr Yo Region Lexer.
Open Scope list_scope.
Open Scope N_scope.
Open Scope string_scope.

Definition dspan := (nat * nat)%type.

(* ---- hclrs::Error, as the renderer reads it -------------------------------------------------- *)
Inductive rerror :=
| RMismatchedMuxWidths (options : list dspan) (widths : list width)
| RMismatchedExprWidths (first : dspan) (first_width : width) (second : dspan) (second_width : width)
| RMismatchedWireWidths (name : string) (first_width : width) (second : dspan) (second_width : width)
| RMismatchedRegisterDefaultWidths (bank register_name : string) (register_width : width)
                                   (default_expression : dspan) (expression_width : width)
| RDuplicateRegister (bank register_name : string)
| RRuntimeMismatchedWidths
| RDivisionByZero
| RUndeclaredWireAssigned (name : string) (sp : dspan) (close_name : option string)
| RUndeclaredWireRead (name : string) (expr : dspan) (close_name : option string)
| RNonConstantWireRead (name : string) (expr : dspan)
| RUnsetWire (name : string) (sp : dspan)
| RUnsetBuiltinWire (name : string)
| RUnsetUndeclaredWire (name : string)
| RUnsetRegisterInputWire (name : string) (register_span : dspan)
| RRedeclaredWire (name : string) (new_span old_span : dspan)
| RDoubleAssignedWire (name : string) (new_span old_span : dspan)
| RDoubleAssignedRegisterWire (name : string) (register_span assign_span : dspan)
| RDoubleDeclaredRegisterOutWire (name : string) (old_span new_span : dspan)
| RDoubleAssignedFixedOutWire (name : string) (sp : dspan) (fixed_name : string)
| RConstantAssigned (name : string) (assign_span const_span : dspan)
| RRedeclaredBuiltinWire (name : string) (sp : dspan) (fixed_name : string)
| RPartialFixedInput (name : string) (found_inputs missing_inputs : list string)
| RWireLoop (lst : list string)
| RInvalidWireWidth (sp : dspan)
| RInvalidRegisterBankName (name : string) (sp : dspan)
| RInvalidBitIndex (expr : dspan) (index : N)
| RNonBooleanWidth (expr : dspan)
| RNoBitWidth (expr : dspan)
| RMisorderedBitIndexes (expr : dspan)
| RInvalidConstant (sp : dspan)
| RWireTooWide (expr : dspan)
| RExpectedStatementFoundExpr (expr : dspan)
| RUnterminatedComment (loc : nat)
| RLexicalError (loc : nat)
| RInternalParserErrorNear (sp : dspan) (info : string)
| RMissingWireWidth (sp : dspan)
| RWireAssignedInDeclaration (sp : dspan)
| RMissingRegisterWidth (sp : dspan)
| RAddedConstWidth (sp : dspan)
| RMissingAssignmentMux (sp : dspan)
| RRegisterDeclaredWithWire (sp : dspan)
| RNoMuxDefaultOption (expr : dspan)
| RMultipleMuxDefaultOption (expr : dspan)
| RUnreachableOptions (expr : dspan)
| REmptyFile
| RUnparseableLine (line : string)
| RInvalidToken (loc : nat)
| RUnrecognizedToken (location : dspan) (expected : list string)
| RExtraToken (sp : dspan)
| RIoError
| RFmtError.

(* ---- text helpers ---------------------------------------------------------------------------- *)
Fixpoint str_bytes (s : string) : list N :=
  match s with EmptyString => [] | String c r => N_of_ascii c :: str_bytes r end.

Definition squote : string := "'".
Definition dquote : string := String (ascii_of_N 34) EmptyString.

(* str::lines(): split at LF, drop the CR of a CRLF, no final empty line (Region.str_lines) *)
Definition lines_of (m : string) : list string := map string_of_bytes (str_lines (str_bytes m)).

Definition blanks7 : string := "       ".

(* fn error_continue: every line of the message after seven blanks *)
Fixpoint continue_lines (ls : list string) : string :=
  match ls with [] => "" | l :: r => blanks7 ++ l ++ nl ++ continue_lines r end.
Definition error_continue_text (m : string) : string := continue_lines (lines_of m).

(* fn error: the first line after "error: ", the following ones after seven blanks *)
Definition error_text (m : string) : string :=
  match lines_of m with [] => "" | l :: r => "error: " ++ l ++ nl ++ continue_lines r end.

(* fn s_are *)
Definition s_are (i : nat) : string := if (i =? 1)%nat then " is" else "s are".

(* WireWidth::bits_or_128 *)
Definition bits_or_128 (w : width) : N := match w with Bits n => n | Unl => 128 end.

Definition dec_nat (n : nat) : string := dec (N.of_nat n).       (* {} of a usize *)

(* [&str].join(sep) *)
Fixpoint join_with (sep : string) (l : list string) : string :=
  match l with
  | [] => ""
  | [x] => x
  | x :: r => x ++ sep ++ join_with sep r
  end.

(* fn list_with_and, AS WRITTEN: for more than two items the opening quote is pushed and then
   OVERWRITTEN by the join of all items but the last, and no closing quotes are added:
   [a; b; c] gives  a', 'b, and c  *)
Definition list_with_and (items : list string) : string :=
  let n := List.length items in
  if (2 <? n)%nat then join_with "', '" (firstn (n - 1) items) ++ ", and " ++ nth (n - 1) items ""
  else match items with
       | [a; b] => "'" ++ a ++ "' and '" ++ b ++ "'"
       | [a] => "'" ++ a ++ "'"
       | _ => ""
       end.

(* ---- fn format_token_list --------------------------------------------------------------------- *)
Definition all_compare_operators : list string := ["!="; "<"; "<="; "=="; ">"; ">="; ">>"].
Definition all_bin_operators : list string := ["&"; "&&"; "*"; "+"; "-"; "/"; "<<"; "^"; "|"; "||"; "in"].
Definition all_un_operators : list string := ["!"; "-"; "~"].

Definition quoted (op : string) : string := dquote ++ op ++ dquote.       (* format!("\"{}\"", op) *)

(* the HashSet built from the tokens: each string once (the iteration order of the set does not
   matter: the list built from it is sorted) *)
Fixpoint dedup_tokens (l : list string) : list string :=
  match l with
  | [] => []
  | x :: r => if mem_str x r then dedup_tokens r else x :: dedup_tokens r
  end.

(* all operators of a group are in the set (num_xxx_operators == all_xxx_operators.len(); the
   group lists have no repetition) *)
Definition group_complete (ops : list string) (set : list string) : bool :=
  forallb (fun op => mem_str (quoted op) set) ops.

(* the text pushed for a token that is left in the set; None = a slice panics *)
Definition token_text (t : string) : option string :=
  if String.eqb t "ID" then Some "an identifier (wire name)"
  else if String.eqb t "CONSTANT" then Some "an integer constant"
  else
    let b := str_bytes t in
    match get_range b 0 1 with                                          (* &possible_token[0..1] *)
    | None => None
    | Some first =>
        if list_eqb first [34] then
          match get_range b 1 (List.length b - 1) with                  (* [1..(len - 1)] *)
          | Some inner => Some ("'" ++ string_of_bytes inner ++ "'")
          | None => None
          end
        else Some t
    end.

Fixpoint map_option {A B} (f : A -> option B) (l : list A) : option (list B) :=
  match l with
  | [] => Some []
  | x :: r => match f x, map_option f r with
              | Some y, Some ys => Some (y :: ys)
              | _, _ => None
              end
  end.

(* Vec<String>::sort: byte-wise lexicographic order (String.leb compares N_of_ascii) *)
Fixpoint insert_sorted (x : string) (l : list string) : list string :=
  match l with
  | [] => [x]
  | y :: r => if String.leb x y then x :: l else y :: insert_sorted x r
  end.
Fixpoint sort_strings (l : list string) : list string :=
  match l with [] => [] | x :: r => insert_sorted x (sort_strings r) end.

(* "x" / "x or y" / "x, y, or z" / "" *)
Fixpoint comma_items (l : list string) : string :=
  match l with
  | [] => ""
  | [last] => "or " ++ last
  | x :: r => x ++ ", " ++ comma_items r
  end.
Definition or_list (l : list string) : string :=
  match l with
  | [] => ""
  | [a] => a
  | [a; b] => a ++ " or " ++ b
  | _ => comma_items l
  end.

(* the set after the complete groups have been removed (the three counts are taken BEFORE any
   removal: "-" belongs to two groups) *)
Definition remaining_tokens (tokens : list string) : list string :=
  let set := dedup_tokens tokens in
  let c := group_complete all_compare_operators set in
  let b := group_complete all_bin_operators set in
  let u := group_complete all_un_operators set in
  filter (fun t => negb ((c && mem_str t (map quoted all_compare_operators)) ||
                         (b && mem_str t (map quoted all_bin_operators)) ||
                         (u && mem_str t (map quoted all_un_operators)))) set.

Definition group_names (tokens : list string) : list string :=
  let set := dedup_tokens tokens in
  (if group_complete all_compare_operators set then ["a comparison operator"] else []) ++
  (if group_complete all_bin_operators set then ["a binary operator"] else []) ++
  (if group_complete all_un_operators set then ["a unary operator"] else []).

Definition format_token_list (tokens : list string) : option string :=
  match map_option token_text (remaining_tokens tokens) with
  | None => None
  | Some texts => Some (or_list (sort_strings (group_names tokens ++ texts)))
  end.

(* ---- the pieces of a diagnostic --------------------------------------------------------------- *)
(* text written by error / error_continue, or the region show_region(s, e) *)
Inductive part := Msg (s : string) | Rgn (s e : nat).

Definition p_error (m : string) : part := Msg (error_text m).                 (* error(output, m)? *)
Definition p_continue (m : string) : part := Msg (error_continue_text m).        (* error_continue(output, m)? *)
Definition p_region (sp : dspan) : part := Rgn (fst sp) (snd sp).               (* write!(.., show_region(sp.0, sp.1))? *)

(* name.chars().count() > 2 && name.chars().nth(1) == Some('_'): CHARACTERS, not bytes *)
Definition looks_like_register_wire (name : string) : bool :=
  let b := str_bytes name in
  let cs := char_indices (S (List.length b)) b 0 in
  (2 <? List.length cs)%nat &&
  match nth_error cs 1 with Some (_, c) => (c =? 95)%N | None => false end.

Definition undeclared_hint (name : string) (close_name : option string) : part :=
  match close_name with
  | Some other_name => p_continue ("(Did you mean '" ++ other_name ++ "'?)")
  | None =>
      if looks_like_register_wire name then p_continue "(Missing register declaration?)"
      else p_continue ("(Did you mean to declare it with 'wire " ++ name ++ "' or 'const " ++ name ++ "'?)")
  end.

(* MismatchedMuxWidths: the BTreeMap from width to the options of that width (in option order);
   keys ascending; options of unlimited width are skipped; None = widths[i] out of range *)
Fixpoint insert_by_width (w : N) (o : dspan) (m : list (N * list dspan)) : list (N * list dspan) :=
  match m with
  | [] => [(w, [o])]
  | (w', l) :: r =>
      if (w <? w')%N then (w, [o]) :: m
      else if (w =? w')%N then (w', (l ++ [o])%list) :: r
      else (w', l) :: insert_by_width w o r
  end.
Fixpoint group_by_width (options : list dspan) (widths : list width) (m : list (N * list dspan))
  : option (list (N * list dspan)) :=
  match options with
  | [] => Some m
  | o :: r =>
      match widths with
      | [] => None
      | Unl :: ws => group_by_width r ws m
      | Bits n :: ws => group_by_width r ws (insert_by_width n o m)
      end
  end.
Definition mux_group_parts (g : N * list dspan) : list part :=
  let n := List.length (snd g) in
  p_continue (dec_nat n ++ " option" ++ s_are n ++ " " ++ dec (fst g) ++ " bits wide:" ++ nl) :: map p_region (snd g).

(* WireLoop: for i in 0..len: '<lst[(i+1)%len]>' depends on '<lst[i]>' [and] *)
Definition loop_line (lst : list string) (i : nat) : part :=
  let n := List.length lst in
  p_continue ("  '" ++ nth ((i + 1) mod n) lst "" ++ "' depends on '" ++ nth i lst "" ++ "'" ++
     (if (i =? n - 1)%nat then "" else " and")).

Definition eof_text : string := "<end of file>".
Definition semicolon_token : string := quoted ";".

(* the text of IoError is the operating system's and is not modelled: fixed placeholder *)
Definition io_error_placeholder : string := "<text of the I/O error>".
(* Display of fmt::Error *)
Definition fmt_error_text : string := "an error occurred when formatting an argument".

Section Render.
  Variable uclass_of : N -> uclass.          (* char::is_whitespace for code points >= 128 *)

  (* before.find(|x: char| !x.is_whitespace()).is_none() *)
  Definition all_whitespace (b : list N) : bool :=
    forallb (fun ic : nat * N => is_whitespace uclass_of (snd ic)) (char_indices (S (List.length b)) b 0).

  (* format_for_contents, one arm per variant *)
  Definition render_parts (fc : file_contents) (e : rerror) : option (list part) :=
    match e with
    | RMismatchedMuxWidths options widths =>
        match group_by_width options widths [] with
        | None => None
        | Some by_width =>
            Some (p_error "Mismatched wire widths for mux options." :: flat_map mux_group_parts by_width)
        end
    | RMismatchedExprWidths first first_width second second_width =>
        Some [p_error ("Mismatched wire widths." ++ nl ++ "One side is " ++ dec (bits_or_128 first_width) ++ " bits wide:" ++ nl);
              p_region first;
              p_continue ("The other side is " ++ dec (bits_or_128 second_width) ++ " bits wide:" ++ nl);
              p_region second]
    | RMismatchedWireWidths name first_width second second_width =>
        Some [p_error ("Mismatched wire widths." ++ nl ++ "The wire '" ++ name ++ "' is declared as " ++
                 dec (bits_or_128 first_width) ++ " bits wide." ++ nl ++ "But a " ++
                 dec (bits_or_128 second_width) ++ " bit wide value is assigned to it:" ++ nl);
              p_region second]
    | RMismatchedRegisterDefaultWidths bank register_name register_width default_expression expression_width =>
        Some [p_error ("Register '" ++ register_name ++ "' in bank '" ++ bank ++ "' is " ++
                 dec (bits_or_128 register_width) ++ " bits wide, but default value is " ++
                 dec (bits_or_128 expression_width) ++ " bits wide:" ++ nl);
              p_region default_expression]
    | RDuplicateRegister bank register_name =>
        Some [p_error ("Register '" ++ register_name ++ "' in bank '" ++ bank ++ "' defined twice.")]
    | RRuntimeMismatchedWidths => Some [p_error "Unexpected wire width disagreement."]
    | RDivisionByZero => Some [p_error "Division by zero."]
    | RUndeclaredWireAssigned name sp close_name =>
        Some [p_error ("Undeclared wire '" ++ name ++ "' assigned value:"); p_region sp; undeclared_hint name close_name]
    | RUndeclaredWireRead name expr close_name =>
        Some [p_error ("Usage of undeclared wire '" ++ name ++ "' in expression:"); p_region expr; undeclared_hint name close_name]
    | RNonConstantWireRead name expr =>
        Some [p_error ("Usage of non-constant wire '" ++ name ++ "' in initial or constant value:"); p_region expr]
    | RUnsetWire name sp =>
        Some [p_error ("Wire '" ++ name ++ "' never assigned but defined here:"); p_region sp]
    | RUnsetBuiltinWire name =>
        Some [p_error ("Wire '" ++ name ++ "' required by fixed functionality but never assigned.")]
    | RUnsetUndeclaredWire name =>
        Some [p_error ("Wire '" ++ name ++ "' was read but never declared.")]
    | RUnsetRegisterInputWire name register_span =>
        Some [p_error ("Wire '" ++ name ++ "' never assigned, but is input to the register defined here:"); p_region register_span]
    | RRedeclaredWire name new_span old_span =>
        Some [p_error ("Wire '" ++ name ++ "' redeclared. Declared here:"); p_region new_span;
              p_continue "After being declared here here:"; p_region old_span]
    | RDoubleAssignedWire name new_span old_span =>
        Some [p_error ("Wire '" ++ name ++ "' assigned twice. Assigned here:"); p_region new_span;
              p_continue "After being assigned here:"; p_region old_span]
    | RDoubleAssignedFixedOutWire name sp fixed_name =>
        Some [p_error ("Wire '" ++ name ++ "' is output for the " ++ fixed_name ++ " but is assigned here:"); p_region sp]
    | RConstantAssigned name assign_span const_span =>
        Some [p_error ("Constant '" ++ name ++ "' is assigned here:"); p_region assign_span;
              p_continue "After being declared as a constant here:"; p_region const_span]
    | RDoubleAssignedRegisterWire name register_span assign_span =>
        Some [p_error ("Wire '" ++ name ++ "' is output of a register declared here:"); p_region register_span;
              p_continue ("but wire '" ++ name ++ "' is assigned directly here:"); p_region assign_span]
    | RDoubleDeclaredRegisterOutWire name old_span new_span =>
        Some [p_error ("Wire '" ++ name ++ "' used by register declared here:"); p_region old_span;
              p_continue "but would also be used by register declared here:"; p_region new_span]
    | RRedeclaredBuiltinWire name sp fixed_name =>
        Some [p_error ("Builtin wire '" ++ name ++ "' (part of the " ++ fixed_name ++ ") redeclared here:"); p_region sp]
    | RPartialFixedInput name found_inputs missing_inputs =>
        Some (p_error ("Wire " ++ list_with_and found_inputs ++ " set, but not the rest of the " ++ name ++ ".") ::
              match missing_inputs with
              | [] => []
              | _ => [p_continue ("(Did you mean to set " ++ list_with_and missing_inputs ++ "?)")]
              end)
    | RInvalidWireWidth sp => Some [p_error "Invalid wire width specified."; p_region sp]
    | RInvalidRegisterBankName name sp =>
        Some [p_error ("Register bank name '" ++ name ++ "' invalid." ++ nl ++
                 "Register bank names must be two characters." ++ nl ++
                 "The first character (input prefix) must be a lowercase letter." ++ nl ++
                 "The second character (output prefix) must be an uppercase lettter.");
              p_region sp]
    | RInvalidBitIndex expr index =>
        Some [p_error ("Bit index '" ++ dec index ++ "' out of range for expression:"); p_region expr]
    | RNonBooleanWidth expr => Some [p_error "Non-boolean value used with boolean operator:"; p_region expr]
    | RNoBitWidth expr => Some [p_error "Expression with unknown width used in bit concatenation:"; p_region expr]
    | RMisorderedBitIndexes expr => Some [p_error "Bit selection expression selects less than 0 bits:"; p_region expr]
    | RMissingWireWidth sp => Some [p_error "Wire declaration missing width:"; p_region sp]
    | RWireAssignedInDeclaration sp => Some [p_error "Wire declaration must be separate from assignment:"; p_region sp]
    | RMissingRegisterWidth sp => Some [p_error "Register declaration missing width:"; p_region sp]
    | RAddedConstWidth sp => Some [p_error "Constant declaration has unsupported explicit width:"; p_region sp]
    | RMissingAssignmentMux sp => Some [p_error "Syntax error; probably missing '=' after here:"; p_region sp]
    | RRegisterDeclaredWithWire sp =>
        Some [p_error "Syntax error; attempting to use 'wire' to declare registers in a register bank?:";
              p_continue "(correct syntax is like 'register xY { register_name : width = default; }')"; p_region sp]
    | RNoMuxDefaultOption expr =>
        Some [p_error "Mux (case expression) missing required default option (e.g. '1 : some_value;'):"; p_region expr]
    | RMultipleMuxDefaultOption expr =>
        Some [p_error "Mux (case expression) has multiple conditions which are always true:"; p_region expr;
              p_continue "(using constants instead of the result of comparing wires to constants?)"]
    | RUnreachableOptions expr =>
        Some [p_error "Mux (case expression) has at least one case that will never be reached:"; p_region expr;
              p_continue "(put cases after a default case?)"]
    | RInvalidConstant sp => Some [p_error "Constant value is out of range:"; p_region sp]
    | RWireTooWide expr =>
        Some [p_error "Expression would produce a value wider than supported (128 bits):"; p_region expr]
    | RUnterminatedComment start =>
        Some [p_error "Unterminated comment starting here:"; Rgn start (start + 2)]
    | RLexicalError start | RInvalidToken start =>
        Some [p_error "Parse error here:"; Rgn start (start + 1)]
    | REmptyFile => Some [p_error "Empty input file."]
    | RUnparseableLine line => Some [p_error ("Could not parse '" ++ line ++ "' in .yo file.")]
    | RUnrecognizedToken location expected =>
        let data := fc_data fc in
        let token :=
          if (List.length data <=? snd location)%nat then eof_text
          else match get_range data (fst location) (snd location) with
               | Some t => string_of_bytes t
               | None => eof_text
               end in
        match format_token_list expected with
        | None => None
        | Some expected_formatted =>
            let head := p_error ("Unexpected token '" ++ token ++ "', expected " ++ expected_formatted ++ ":") in
            if mem_str semicolon_token expected then
              match line_number_and_bounds fc (fst location) with
              | None => None
              | Some (_, start, _) =>
                  match get_range data start (fst location) with     (* &contents.data()[start..location.0] *)
                  | None => None
                  | Some before =>
                      Some (head ::
                            (if all_whitespace before then [p_continue "(Missing semicolon before this?)"] else []) ++
                            [p_region location])%list
                  end
              end
            else Some [head; p_region location]
        end
    | RExtraToken sp =>
        match get_range (fc_data fc) (fst sp) (snd sp) with          (* &contents.data()[span.0..span.1] *)
        | None => None
        | Some token => Some [p_error ("Unexpected token '" ++ string_of_bytes token ++ "':"); p_region sp]
        end
    | RWireLoop lst =>
        Some (p_error "Circular dependency detected:" :: map (loop_line lst) (seq 0 (List.length lst)))
    | RExpectedStatementFoundExpr expr =>
        Some [p_error "Found expression, expected assignment or declaration:"; p_region expr]
    | RInternalParserErrorNear sp info =>
        Some [p_error "Internal parser error near or before here:"; p_region sp;
              p_continue ("Syntax error, parser bug, or both." ++ nl ++ "Internal info about error: " ++ info)]
    | RIoError => Some [p_error io_error_placeholder]                       (* `_ =>` arm: Display *)
    | RFmtError => Some [p_error fmt_error_text]
    end.

  (* the text of the pieces, in order; None when a show_region would panic *)
  Fixpoint parts_text (fc : file_contents) (ps : list part) : option string :=
    match ps with
    | [] => Some ""
    | Msg s :: r => match parts_text fc r with Some t => Some (s ++ t) | None => None end
    | Rgn s e :: r =>
        match show_region fc s e, parts_text fc r with
        | Some reg, Some t => Some (string_of_bytes reg ++ t)
        | _, _ => None
        end
    end.

  Definition render_one (fc : file_contents) (e : rerror) : option string :=
    match render_parts fc e with
    | None => None
    | Some ps => parts_text fc ps
    end.

  (* Error::MultipleErrors, flattened *)
  Fixpoint render_all (fc : file_contents) (es : list rerror) : option string :=
    match es with
    | [] => Some ""
    | e :: r =>
        match render_one fc e, render_all fc r with
        | Some a, Some b => Some (a ++ b)
        | _, _ => None
        end
    end.
End Render.

(* ---- which regions are shown ------------------------------------------------------------------ *)
(* MismatchedMuxWidths: the value spans of the options of limited width, by ascending width, in
   option order within a width (options whose width has no entry are dropped as well: there the
   renderer panics) *)
Fixpoint sized_options (options : list dspan) (widths : list width) : list (N * dspan) :=
  match options, widths with
  | o :: r, Bits n :: ws => (n, o) :: sized_options r ws
  | _ :: r, Unl :: ws => sized_options r ws
  | _, _ => []
  end.
(* stable sort by width: the options are placed one after the other, from the first to the last,
   each after all the already placed options of smaller or equal width *)
Fixpoint insert_after (x : N * dspan) (l : list (N * dspan)) : list (N * dspan) :=
  match l with
  | [] => [x]
  | y :: r => if (fst x <? fst y)%N then x :: l else y :: insert_after x r
  end.
Definition sort_by_width (l : list (N * dspan)) : list (N * dspan) :=
  fold_left (fun acc x => insert_after x acc) l [].

(* the spans whose regions are shown, in the order shown *)
Definition error_spans (e : rerror) : list dspan :=
  match e with
  | RMismatchedMuxWidths options widths => map snd (sort_by_width (sized_options options widths))
  | RMismatchedExprWidths a _ b _ => [a; b]
  | RMismatchedWireWidths _ _ b _ => [b]
  | RMismatchedRegisterDefaultWidths _ _ _ d _ => [d]
  | RUndeclaredWireAssigned _ sp _ | RUndeclaredWireRead _ sp _ => [sp]
  | RNonConstantWireRead _ sp | RUnsetWire _ sp | RUnsetRegisterInputWire _ sp => [sp]
  | RRedeclaredWire _ a b | RDoubleAssignedWire _ a b | RDoubleAssignedRegisterWire _ a b
  | RDoubleDeclaredRegisterOutWire _ a b | RConstantAssigned _ a b => [a; b]
  | RDoubleAssignedFixedOutWire _ sp _ | RRedeclaredBuiltinWire _ sp _ => [sp]
  | RInvalidWireWidth sp | RInvalidRegisterBankName _ sp | RInvalidBitIndex sp _
  | RNonBooleanWidth sp | RNoBitWidth sp | RMisorderedBitIndexes sp | RInvalidConstant sp
  | RWireTooWide sp | RExpectedStatementFoundExpr sp | RInternalParserErrorNear sp _
  | RMissingWireWidth sp | RWireAssignedInDeclaration sp | RMissingRegisterWidth sp
  | RAddedConstWidth sp | RMissingAssignmentMux sp | RRegisterDeclaredWithWire sp
  | RNoMuxDefaultOption sp | RMultipleMuxDefaultOption sp | RUnreachableOptions sp
  | RExtraToken sp => [sp]
  | RUnrecognizedToken sp _ => [sp]
  | RUnterminatedComment loc => [(loc, (loc + 2)%nat)]
  | RLexicalError loc | RInvalidToken loc => [(loc, (loc + 1)%nat)]
  | RDuplicateRegister _ _ | RRuntimeMismatchedWidths | RDivisionByZero | RUnsetBuiltinWire _
  | RUnsetUndeclaredWire _ | RPartialFixedInput _ _ _ | RWireLoop _ | REmptyFile
  | RUnparseableLine _ | RIoError | RFmtError => []
  end.

(* the spans the hook verif_hooks::error_lines lists: the same, except that for
   MismatchedMuxWidths it lists the value span of EVERY option, in option order *)
Definition hook_spans (e : rerror) : list dspan :=
  match e with
  | RMismatchedMuxWidths options _ => options
  | _ => error_spans e
  end.

Definition regions_of (ps : list part) : list dspan :=
  flat_map (fun p => match p with Msg _ => [] | Rgn s e => [(s, e)] end) ps.
