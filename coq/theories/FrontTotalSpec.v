(* C13 - totality of the front end of the model: lexer, parser and Program::new.

   The fuelled loops of the model return a normal-looking value when their fuel runs out
   (LexEnd, [], None) - so a theorem about "the result" could silently be a theorem about fuel
   exhaustion.  The statements below say that exhaustion is unreachable (A, B), that the lexer
   makes progress and reports sane spans (A), and that the builder never fails with an internal
   error - the explicit Panicked / OutOfFuel values that stand for Rust panics (C). *)
From HclV Require Import Base Expr Machine Graph GraphSpec Build Lexer Parser LexParseSpec BuildSpec Generated.
Open Scope list_scope.

(* ====================================================================================== *)
(* A. the lexer                                                                            *)
(* ====================================================================================== *)

(* ---- A1: fuel irrelevance.  Every fuelled function of Lexer.v, given at least the fuel the
   model passes (one more than the length of the input it works on), returns what it returns
   with exactly that fuel - for every input, well-formed UTF-8 or not. ------------------- *)
Definition stmt_char_indices_fuel : Prop :=
  forall fuel l pos, (S (List.length l) <= fuel)%nat ->
    char_indices fuel l pos = char_indices (S (List.length l)) l pos.

Definition stmt_skip_block_comment_fuel : Prop :=
  forall fuel cs len, (S (List.length cs) <= fuel)%nat ->
    skip_block_comment fuel cs len = skip_block_comment (S (List.length cs)) cs len.

Definition stmt_lex_next_fuel : Prop :=
  forall uc fuel bytes len cs, (S (List.length cs) <= fuel)%nat ->
    lex_next uc fuel bytes len cs = lex_next uc (S (List.length cs)) bytes len cs.

Definition stmt_lex_loop_fuel : Prop :=
  forall uc fuel bytes len cs acc, (S (List.length cs) <= fuel)%nat ->
    lex_loop uc fuel bytes len cs acc = lex_loop uc (S (List.length cs)) bytes len cs acc.

(* the decoded text is never longer than the text: the fuel [lex] passes to lex_loop
   (S (length bytes)) is at least S (length cs) *)
Definition stmt_char_indices_length : Prop :=
  forall fuel l pos, (List.length (char_indices fuel l pos) <= List.length l)%nat.

(* hence, for [lex] itself: whatever fuels (at least the model's) are given to the decoder and to
   the token loop, the result is the result of [lex] *)
Definition stmt_lex_fuel : Prop :=
  forall uc bytes f1 f2,
    (S (List.length bytes) <= f1)%nat -> (S (List.length bytes) <= f2)%nat ->
    lex_loop uc f2 bytes (List.length bytes) (char_indices f1 bytes 0) [] = lex uc bytes.

(* ---- A2: progress ----------------------------------------------------------------------- *)
Definition proper_suffix {A} (r l : list A) : Prop := exists pre, pre <> [] /\ l = pre ++ r.

(* every step that yields a token or an error consumes at least one character *)
Definition stmt_lex_next_progress : Prop :=
  forall uc fuel bytes len cs,
    match lex_next uc fuel bytes len cs with
    | LexTok _ rest => proper_suffix rest cs
    | LexErr _ rest => proper_suffix rest cs
    | LexEnd => True
    end.

(* with the model's fuel a LexEnd is never an artefact of the fuel: no larger fuel changes it
   (so it means what it says: only white space and comments were left) *)
Definition stmt_lex_next_end_stable : Prop :=
  forall uc fuel bytes len cs, (S (List.length cs) <= fuel)%nat ->
    lex_next uc fuel bytes len cs = LexEnd ->
    forall fuel', (fuel <= fuel')%nat -> lex_next uc fuel' bytes len cs = LexEnd.

(* ---- A3: span sanity, for ARBITRARY bytes (no UTF-8 well-formedness is needed) ----------- *)
Definition tok_start (t : tok) : nat := fst (fst t).
Definition tok_end (t : tok) : nat := snd t.

(* where an error points, and that it points into the text *)
Definition lex_error_start (e : lex_error) : nat :=
  match e with LexLexicalError loc => loc | LexUnterminatedComment loc => loc | LexInvalidConstant s _ => s end.
Definition lex_error_in_range (len : nat) (e : lex_error) : Prop :=
  match e with
  | LexLexicalError loc => (loc <= len)%nat             (* len itself: "unexpected end of file" *)
  | LexUnterminatedComment loc => (loc < len)%nat
  | LexInvalidConstant s e => (s < e)%nat /\ (e <= len)%nat
  end.

Definition stmt_lex_spans : Prop :=
  forall uc bytes toks err, lex uc bytes = (toks, err) ->
    (* every token is a non-empty range of the text *)
    (forall t, In t toks -> (tok_start t < tok_end t)%nat /\ (tok_end t <= List.length bytes)%nat) /\
    (* tokens come in text order and do not overlap *)
    (forall i j ti tj, nth_error toks i = Some ti -> nth_error toks j = Some tj -> (i < j)%nat ->
       (tok_end ti <= tok_start tj)%nat) /\
    (* a lexical error points into the text, after every token produced before it *)
    (forall e, err = Some e ->
       lex_error_in_range (List.length bytes) e /\
       forall t, In t toks -> (tok_end t <= lex_error_start e)%nat).

(* ====================================================================================== *)
(* B. the parser                                                                           *)
(* ====================================================================================== *)
(* The model parser answers None both for a syntax error and when a fuelled function runs out of
   fuel.  B1 says a Some answer never changes when more fuel is given; B2 gives explicit bounds
   above which the answer (Some or None) no longer depends on the fuel at all; B3 says the fuel
   Parser.parse really passes is above the bounds - so a None from [parse] is a syntax error. *)

Section ParserFuel.
  Variable tiers : list tier.

  (* ---- B1: fuel monotonicity ------------------------------------------------------------- *)
  Definition stmt_parse_mono_expr : Prop :=
    forall fuel fuel', (fuel <= fuel')%nat ->
      (forall ts toks r, parse_tiers tiers fuel ts toks = Some r -> parse_tiers tiers fuel' ts toks = Some r) /\
      (forall rest ops l toks r, left_loop tiers fuel rest ops l toks = Some r ->
                                 left_loop tiers fuel' rest ops l toks = Some r) /\
      (forall toks r, parse_term tiers fuel toks = Some r -> parse_term tiers fuel' toks = Some r) /\
      (forall toks r, parse_simple tiers fuel toks = Some r -> parse_simple tiers fuel' toks = Some r) /\
      (forall toks r, parse_mux_options tiers fuel toks = Some r -> parse_mux_options tiers fuel' toks = Some r) /\
      (forall toks r, parse_commas_exprs tiers fuel toks = Some r -> parse_commas_exprs tiers fuel' toks = Some r) /\
      (forall toks r, parse_expr tiers fuel toks = Some r -> parse_expr tiers fuel' toks = Some r).

  Definition stmt_parse_mono_decl : Prop :=
    forall fuel fuel', (fuel <= fuel')%nat ->
      (forall toks r, parse_wire_decls fuel toks = Some r -> parse_wire_decls fuel' toks = Some r) /\
      (forall toks r, parse_const_decls tiers fuel toks = Some r -> parse_const_decls tiers fuel' toks = Some r) /\
      (forall toks r, parse_assignments tiers fuel toks = Some r -> parse_assignments tiers fuel' toks = Some r) /\
      (forall toks r, parse_register_decls tiers fuel toks = Some r ->
                      parse_register_decls tiers fuel' toks = Some r) /\
      (forall toks r, parse_statement tiers fuel toks = Some r -> parse_statement tiers fuel' toks = Some r) /\
      (forall toks seen acc r, parse_statements tiers fuel toks seen acc = Some r ->
                               parse_statements tiers fuel' toks seen acc = Some r).

  (* ---- B2: explicit bounds above which the fuel is irrelevant ------------------------------ *)
  (* an expression over n tokens, entered at a tier list of length k *)
  Definition tiers_fuel (k n : nat) : nat := ((List.length tiers + 4) * n + k + 3)%nat.
  Definition expr_fuel (n : nat) : nat := tiers_fuel (List.length tiers) n.
  (* a declaration list / statement over n tokens *)
  Definition decl_fuel (n : nat) : nat := ((List.length tiers + 4) * n + 1)%nat.

  Definition stmt_parse_tiers_fuel : Prop :=
    forall ts toks f1 f2,
      (tiers_fuel (List.length ts) (List.length toks) <= f1)%nat ->
      (tiers_fuel (List.length ts) (List.length toks) <= f2)%nat ->
      parse_tiers tiers f1 ts toks = parse_tiers tiers f2 ts toks.

  Definition stmt_parse_expr_fuel : Prop :=
    forall toks fuel, (expr_fuel (List.length toks) <= fuel)%nat ->
      parse_expr tiers fuel toks = parse_expr tiers (expr_fuel (List.length toks)) toks.

  (* the targets loop of an assignment is given fuel [length toks] *)
  Definition stmt_parse_targets_fuel : Prop :=
    forall toks fuel, (List.length toks <= fuel)%nat ->
      parse_targets fuel toks = parse_targets (List.length toks) toks.

  Definition stmt_parse_decls_fuel : Prop :=
    forall toks fuel, (decl_fuel (List.length toks) <= fuel)%nat ->
      parse_wire_decls fuel toks = parse_wire_decls (decl_fuel (List.length toks)) toks /\
      parse_const_decls tiers fuel toks = parse_const_decls tiers (decl_fuel (List.length toks)) toks /\
      parse_assignments tiers fuel toks = parse_assignments tiers (decl_fuel (List.length toks)) toks /\
      parse_register_decls tiers fuel toks = parse_register_decls tiers (decl_fuel (List.length toks)) toks /\
      parse_statement tiers fuel toks = parse_statement tiers (decl_fuel (List.length toks)) toks.

  (* ---- B3: the fuel the model passes is enough --------------------------------------------- *)
  (* parse_statements gives every statement the fuel 20 * S (length toks): enough whenever the
     precedence table has at most 16 tiers (the grammar's table has 10) *)
  Definition stmt_parse_statement_fuel : Prop :=
    (List.length tiers <= 16)%nat ->
    forall toks fuel, (20 * S (List.length toks) <= fuel)%nat ->
      parse_statement tiers fuel toks = parse_statement tiers (20 * S (List.length toks)) toks.

  (* the statement loop: one unit of fuel per token suffices (for any table: the inner fuel is fixed) *)
  Definition stmt_parse_statements_fuel : Prop :=
    forall toks seen acc fuel, (S (List.length toks) <= fuel)%nat ->
      parse_statements tiers fuel toks seen acc = parse_statements tiers (S (List.length toks)) toks seen acc.

  (* together: no fuel that could be given to any level changes the answer of [parse].  Stated with
     a parser whose fuels are parameters: [ps_with sf] is parse_statements with the statement
     fuel computed by [sf] instead of the model's 20 * S n *)
  Fixpoint ps_with (sf : nat -> nat) (fuel : nat) (toks : list tok) (seen_one : bool) (acc : list stmt)
    : option (list stmt) :=
    match fuel with
    | O => None
    | S f =>
        match toks with
        | [] => if seen_one then Some (rev acc) else None
        | t :: toks1 =>
            if token_eqb (tk t) TSemicolon then
              if seen_one then ps_with sf f toks1 true acc else None
            else
              match parse_statement tiers (sf (List.length toks)) toks with
              | Some (s, NoSemi, rest) => ps_with sf f rest true (s :: acc)
              | Some (s, NeedSemi, t2 :: rest) =>
                  if token_eqb (tk t2) TSemicolon then ps_with sf f rest true (s :: acc) else None
              | Some (s, NeedSemi, []) => if seen_one then Some (rev (s :: acc)) else None
              | None => None
              end
        end
    end.

  Definition stmt_parse_fuel_irrelevant : Prop :=
    (List.length tiers <= 16)%nat ->
    forall toks (sf : nat -> nat) fuel,
      (forall n, (20 * S n <= sf n)%nat) -> (S (List.length toks) <= fuel)%nat ->
      ps_with sf fuel toks false [] = parse tiers toks.
End ParserFuel.

(* the condition on the table in B3 cannot simply be dropped: with a (useless but legal) table of
   200 tiers the statement "x = 1;" is rejected by [parse] only because the fuel runs out *)
Definition stmt_parse_statement_fuel_any_table : Prop :=
  forall tiers toks fuel, (20 * S (List.length toks) <= fuel)%nat ->
    parse_statement tiers fuel toks = parse_statement tiers (20 * S (List.length toks)) toks.

(* ====================================================================================== *)
(* C. Program::new never fails with an internal error                                      *)
(* ====================================================================================== *)
(* The model makes every panic of the Rust code it mirrors an explicit error value of kind
   Panicked (unwrap on a missing constant, usize underflow in Kahn's counters, "find_cycle()
   called when no cycle present"), and fuel exhaustion of the sorter's loops an error of kind
   OutOfFuel.  A diagnostic the user can be shown is any other kind. *)
Definition user_kind (k : ekind) : Prop := k <> Panicked /\ k <> OutOfFuel.
Definition user_errors (es : list err) : Prop := forall e, In e es -> user_kind (ek e).

(* ---- C1: which diagnostics the checker and the evaluator can produce --------------------- *)
Definition check_kind (k : ekind) : bool :=
  match k with
  | MismatchedExprWidths | NonBooleanWidth | NoMuxDefaultOption | MultipleMuxDefaultOption
  | UnreachableOptions | MismatchedMuxWidths | UndeclaredWireRead | MisorderedBitIndexes
  | InvalidBitIndex | WireTooWide | NoBitWidth => true
  | _ => false
  end.
Definition eval_kind (k : ekind) : bool :=
  match k with
  | RuntimeMismatchedWidths | DivisionByZero | UndeclaredWireRead | NoBitWidth => true
  | _ => false
  end.

Definition stmt_check_error_kinds : Prop :=
  forall f G C e es, check f G C e = Err es -> es <> [] /\ forall x, In x es -> check_kind (ek x) = true.
Definition stmt_eval_error_kinds : Prop :=
  forall f rho e es, eval f rho e = Err es -> es <> [] /\ forall x, In x es -> eval_kind (ek x) = true.

(* ---- C2: the sorter is total on well-formed graphs (for every hash order) ------------------ *)
Definition stmt_toposort_total : Prop :=
  forall (node : Type) (eqb : node -> node -> bool),
    (forall a b, eqb a b = true <-> a = b) ->
    forall g, wf_graph node g -> exists r, toposort node eqb g = Ok r.

(* ... and the graphs Program::new builds are well formed: no edge is inserted twice (an edge
   inserted twice would make num_edges disagree with the edge set, and the sorter would call
   find_cycle on an acyclic graph) *)
Definition stmt_const_graph_wf : Prop :=
  forall consts : list (string * expr), NoDup (map fst consts) -> wf_graph string (const_graph consts).
Definition stmt_assign_graph_wf : Prop :=
  forall (assigns : list (string * expr)) known,
    NoDup (map fst assigns) -> wf_graph string (assign_graph assigns known).

(* what the scheduler needs of the built-in component table: the inputs of one component are
   pairwise distinct and no two components drive the same output *)
Definition fixed_distinct (fixed : list fixed_fn) : Prop :=
  Forall (fun ff => NoDup (map fst (ff_ins ff))) fixed /\ NoDup (fixed_output_names fixed).

(* the graph handed to the sorter by assignments_to_actions (after preprocess_fixed) *)
Definition stmt_scheduler_graph_wf : Prop :=
  forall f fixed consts (assigns : list (string * expr)) known g by_out no_out,
    fixed_distinct fixed ->
    NoDup (map fst assigns) ->
    (forall n, In n (map fst assigns) -> ~ In n (fixed_output_names fixed)) ->
    fold_left (preprocess_one f consts assigns) fixed (assign_graph assigns known, [], [], [])
      = (g, by_out, no_out, []) ->
    wf_graph string g.

(* ---- C3: the phases ------------------------------------------------------------------------- *)
(* resolve_constants, on constants that only read constants (what const_ref_errors checks first) *)
Definition consts_closed (consts : list (string * expr)) : Prop :=
  forall n e r, In (n, e) consts -> In r (refs e) -> In r (map fst consts).

Definition stmt_resolve_constants_no_internal : Prop :=
  forall f consts es,
    NoDup (map fst consts) -> consts_closed consts ->
    resolve_constants f consts = Err es -> es <> [] /\ user_errors es.

Definition stmt_assignments_to_actions_no_internal : Prop :=
  forall f fixed widths consts (assigns : list (string * expr)) known decls es,
    fixed_distinct fixed ->
    NoDup (map fst assigns) ->
    (forall n, In n (map fst assigns) -> ~ In n (fixed_output_names fixed)) ->
    assignments_to_actions f fixed widths consts assigns known decls = Err es ->
    es <> [] /\ user_errors es.

(* ---- C4: Program::new ------------------------------------------------------------------------ *)
(* for EVERY statement list (no well-formedness assumed), every feature set, every character
   classification: a failure is a non-empty list of user diagnostics *)
Definition stmt_build_no_internal_error (f : features) (fixed : list fixed_fn)
           (is_lower is_upper : string -> bool) : Prop :=
  forall stmts es, build_program f fixed is_lower is_upper stmts = Err es -> es <> [] /\ user_errors es.

(* the draft: for an arbitrary component table (refuted: a table that lists an input twice, or
   drives one output from two components, makes the sorter panic) *)
Definition stmt_build_no_internal_error_any_table : Prop :=
  forall f fixed is_lower is_upper, stmt_build_no_internal_error f fixed is_lower is_upper.

(* the true variants: under fixed_distinct, and for the table of the compiled implementation *)
Definition stmt_build_no_internal_error_distinct : Prop :=
  forall f fixed is_lower is_upper,
    fixed_distinct fixed -> stmt_build_no_internal_error f fixed is_lower is_upper.
Definition stmt_build_no_internal_error_gen : Prop :=
  forall f is_lower is_upper, stmt_build_no_internal_error f gen_fixed is_lower is_upper.

(* ---- C5: the whole front end of the model ----------------------------------------------------- *)
(* text -> tokens -> statements -> program: every byte sequence is either rejected by the lexer
   or the parser (None: a lexical or syntax error, never fuel exhaustion by A and B), accepted, or
   rejected by Program::new with at least one user diagnostic *)
Definition stmt_front_end_total : Prop :=
  forall uc f is_lower is_upper (bytes : list N),
    parse_text uc doc_tiers bytes = None \/
    exists stmts, parse_text uc doc_tiers bytes = Some stmts /\
      ((exists p, build_program f gen_fixed is_lower is_upper stmts = Ok p) \/
       (exists es, build_program f gen_fixed is_lower is_upper stmts = Err es /\ es <> [] /\ user_errors es)).

(* even the table condition BuildSpec.fixed_table_ok does not help (also refuted) *)
Definition stmt_build_no_internal_error_table_ok : Prop :=
  forall f fixed is_lower is_upper,
    fixed_table_ok fixed = true -> stmt_build_no_internal_error f fixed is_lower is_upper.

(* ====================================================================================== *)
(* C6. panics and assertions of the Rust scheduler that the model has NO branch for         *)
(* ====================================================================================== *)
(* preprocess_fixed has two  panic!("unexpected duplicate definition of ...")  (a component input
   that is a known value; a component output that is a known value or has an assignment), and
   assignments_to_actions has two  assert!(covered.contains(..))  (every wire an action reads is
   a known value or was produced earlier in the order).  Build.v does not represent them.  The
   statements below say their conditions cannot arise - so leaving them out of the model loses
   nothing.  They are stated at the point where Program::new calls assignments_to_actions. *)

(* the arguments of that call, and the rest of Program::new as a continuation; None when an
   earlier phase has already failed *)
Definition scheduler_call (f : features) (fixed : list fixed_fn) (is_lower is_upper : string -> bool)
           (stmts : list stmt)
  : option (list (string * width) * list (string * wval) * list (string * expr) * list string * list string *
            (list action -> program)) :=
  let s := fold_left (step1 fixed) stmts (init1 fixed) in
  match s_errs s ++ const_assigned_errors s ++ const_ref_errors s with
  | _ :: _ => None
  | [] =>
      match resolve_constants f (s_consts s) with
      | Err _ => None
      | Ok consts =>
          let t := fold_left (step3_bank f is_lower is_upper s consts) (s_banks s) (mkSt3 [] [] (s_types s) [] [] []) in
          let widths1 := fold_left (fun m nw => upd m (fst nw) (snd nw)) (bank_wires (t_banks t)) (s_wires s) in
          let needed := fold_left (fun l x => add_set x l) (all_in_names (t_banks t)) (s_needed s) in
          let widths := fold_left (fun m nv => upd m (fst nv) (wd (snd nv))) consts widths1 in
          (* register outputs, the stall_X / bubble_X the program leaves unassigned, constants *)
          let known := all_out_names (t_banks t) ++ t_defaulted t ++ map fst consts in
          match t_errs t ++ unset_errors s t needed with
          | _ :: _ => None
          | [] => Some (widths, consts, s_assigns s, known, s_decls s,
                        fun acts => mkProgram consts acts (t_banks t) (t_defaulted t) (t_types t))
          end
      end
  end.

(* scheduler_call really is that point of build_program *)
Definition stmt_scheduler_call_faithful : Prop :=
  forall f fixed is_lower is_upper stmts,
    match scheduler_call f fixed is_lower is_upper stmts with
    | None => exists es, build_program f fixed is_lower is_upper stmts = Err es
    | Some (widths, consts, assigns, known, decls, k) =>
        build_program f fixed is_lower is_upper stmts =
        (do acts <- assignments_to_actions f fixed widths consts assigns known decls; Ok (k acts))
    end.

(* a name shaped like a register-bank signal: one character (a byte and its UTF-8 continuation
   bytes), then '_' *)
Definition is_cont_byte (c : ascii) : bool := ((128 <=? N_of_ascii c) && (N_of_ascii c <? 192))%N.
Fixpoint drop_cont_bytes (s : string) : string :=
  match s with
  | EmptyString => EmptyString
  | String c r => if is_cont_byte c then drop_cont_bytes r else s
  end.
Definition bank_signal_shaped (n : string) : bool :=
  match n with
  | EmptyString => false
  | String _ r => match drop_cont_bytes r with String c _ => Ascii.eqb c "_" | EmptyString => false end
  end.

(* does s start with p ? *)
Fixpoint starts_with (p s : string) : bool :=
  match p with
  | EmptyString => true
  | String a p' => match s with
                   | EmptyString => false
                   | String b s' => Ascii.eqb a b && starts_with p' s'
                   end
  end.

(* no wire of the component table is named like a signal a register bank introduces: neither
   <char>_<register> nor the control signals stall_<char> / bubble_<char> (which are known values
   when the program leaves them unassigned) - true of gen_fixed *)
Definition table_names_plain (fixed : list fixed_fn) : Prop :=
  forall n, In n (fixed_all_names fixed) ->
    bank_signal_shaped n = false /\ starts_with "stall_" n = false /\ starts_with "bubble_" n = false.

(* the panics of preprocess_fixed are unreachable *)
Definition stmt_preprocess_fixed_guards : Prop :=
  forall f fixed is_lower is_upper stmts widths consts assigns known decls k,
    table_names_plain fixed ->
    scheduler_call f fixed is_lower is_upper stmts = Some (widths, consts, assigns, known, decls, k) ->
    forall ff, In ff fixed ->
      (forall i, In i (map fst (ff_ins ff)) -> ~ In i known) /\
      (forall o w, ff_out ff = Some (o, w) -> ~ In o known /\ ~ In o (map fst assigns)).

(* the assertions of assignments_to_actions hold for the order the sorter returns *)
Definition occurs_before (order : list string) (a b : string) : Prop :=
  exists l1 l2 l3, order = l1 ++ a :: l2 ++ b :: l3.

Definition stmt_scheduler_asserts : Prop :=
  forall f fixed consts (assigns : list (string * expr)) known g by_out no_out order,
    fixed_distinct fixed ->
    NoDup (map fst assigns) ->
    (forall n, In n (map fst assigns) -> ~ In n (fixed_output_names fixed)) ->
    fold_left (preprocess_one f consts assigns) fixed (assign_graph assigns known, [], [], [])
      = (g, by_out, no_out, []) ->
    toposort string String.eqb g = Ok (inl order) ->
    (* assert!(covered.contains(&in_name)) for an assignment *)
    (forall n e r, In n order -> lookup assigns n = Some e -> In r (refs e) ->
       In r known \/ occurs_before order r n) /\
    (* assert!(covered.contains(in_name.name)) for a component *)
    (forall n ff i, In n order -> lookup by_out n = Some ff -> In i (map fst (ff_ins ff)) ->
       occurs_before order i n).

(* the hypotheses of stmt_scheduler_asserts hold at the call *)
Definition stmt_scheduler_call_hyps : Prop :=
  forall f fixed is_lower is_upper stmts widths consts assigns known decls k,
    scheduler_call f fixed is_lower is_upper stmts = Some (widths, consts, assigns, known, decls, k) ->
    NoDup (map fst assigns) /\
    (forall n, In n (map fst assigns) -> ~ In n (fixed_output_names fixed)).
