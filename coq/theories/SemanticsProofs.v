(* Proofs of the statements of SemanticsSpec.v: the meaning of a cycle as a fixed point over the
   source program. *)
From Coq Require Import List NArith String Ascii Lia ZifyBool ZifyNat ZifyN Bool Permutation Relations.
From HclV Require Import Base Expr ExprSpec ExprLemmas ExprProofs Machine MachineSpec MachineProofs
     MemSpec MemProofs SchedSpec SchedProofs Graph GraphSpec GraphProofs Build BuildSpec Generated
     BuildProofs CompleteSpec CompleteProofs OrderSpec OrderProofs FeatureSpec FeatureProofs FaultDiagSpec FaultDiagProofs HistorySpec HistoryProofs
     SemanticsSpec.
Open Scope string_scope.
Open Scope list_scope.
Open Scope N_scope.

(* ================================================================================== *)
(* Part 0: the denotation reads only the wires an expression mentions                  *)
(* ================================================================================== *)
Definition bits_of (rho : string -> option wval) (n : string) : N :=
  match rho n with Some v => bits v | None => 0 end.

Lemma sw_ext f G G' e : (forall n, In n (refs e) -> G n = G' n) -> sw f G e = sw f G' e.
Proof.
  intros H. unfold sw.
  assert (Hw : forall n, In n (refs e) -> width_env G n = width_env G' n).
  { intros n Hn. unfold width_env. rewrite (H n Hn). reflexivity. }
  exact (proj1 (proj1 (SchedProofs.eval_ext_all f (width_env G) (width_env G')) e Hw)).
Qed.

Lemma den_ext_all f G G' rho rho' :
  (forall e, (forall n, In n (refs e) -> G n = G' n /\ bits_of rho n = bits_of rho' n) ->
             den f G rho e = den f G' rho' e) /\
  (forall a, (forall n, In n (refs_arms a) -> G n = G' n /\ bits_of rho n = bits_of rho' n) ->
             den_arms f G rho a = den_arms f G' rho' a) /\
  (forall x, (forall n, In n (refs_items x) -> G n = G' n /\ bits_of rho n = bits_of rho' n) ->
             forall y, den_items f G rho y x = den_items f G' rho' y x).
Proof.
  apply expr_arms_exprs_ind.
  - intros c _. reflexivity.
  - intros op l IHl r IHr H.
    assert (Hs : sw f G (EBin op l r) = sw f G' (EBin op l r))
      by (apply sw_ext; intros n Hn; apply (H n Hn)).
    cbn [refs] in H. cbn [den]. rewrite Hs.
    rewrite IHl by (intros n Hn; apply H, in_or_app; left; exact Hn).
    rewrite IHr by (intros n Hn; apply H, in_or_app; right; exact Hn). reflexivity.
  - intros op e IHe H. cbn [refs] in H. cbn [den].
    rewrite (sw_ext f G G' e) by (intros n Hn; apply (H n Hn)).
    rewrite (IHe H). reflexivity.
  - intros a IHa H.
    assert (Hs : sw f G (EMux a) = sw f G' (EMux a))
      by (apply sw_ext; intros n Hn; apply (H n Hn)).
    rewrite SchedProofs.refs_mux in H. rewrite !den_mux, Hs, (IHa H). reflexivity.
  - intros n H. cbn [den]. destruct (H n (or_introl eq_refl)) as [_ Hb].
    unfold bits_of in Hb. exact Hb.
  - intros e IHe lo hi H. cbn [refs] in H. cbn [den]. rewrite (IHe H). reflexivity.
  - intros l IHl r IHr H. cbn [refs] in H. cbn [den].
    rewrite (sw_ext f G G' r) by (intros n Hn; apply H, in_or_app; right; exact Hn).
    rewrite IHl by (intros n Hn; apply H, in_or_app; left; exact Hn).
    rewrite IHr by (intros n Hn; apply H, in_or_app; right; exact Hn). reflexivity.
  - intros e IHe items IHi H. rewrite SchedProofs.refs_in in H. rewrite !den_in.
    rewrite IHe by (intros n Hn; apply H, in_or_app; left; exact Hn).
    rewrite IHi by (intros n Hn; apply H, in_or_app; right; exact Hn). reflexivity.
  - intros _. reflexivity.
  - intros c IHc v IHv rest IHr H. rewrite SchedProofs.refs_arms_cons in H. rewrite !den_arms_cons.
    rewrite IHc by (intros n Hn; apply H, in_or_app; left; exact Hn).
    rewrite IHv by (intros n Hn; apply H, in_or_app; right; apply in_or_app; left; exact Hn).
    rewrite IHr by (intros n Hn; apply H, in_or_app; right; apply in_or_app; right; exact Hn).
    reflexivity.
  - intros _ y. reflexivity.
  - intros e IHe rest IHr H y. rewrite SchedProofs.refs_items_cons in H. rewrite !den_items_cons.
    rewrite IHe by (intros n Hn; apply H, in_or_app; left; exact Hn).
    rewrite IHr by (intros n Hn; apply H, in_or_app; right; exact Hn). reflexivity.
Qed.

Lemma den_ext f G G' rho rho' e :
  (forall n, In n (refs e) -> G n = G' n /\ bits_of rho n = bits_of rho' n) ->
  den f G rho e = den f G' rho' e.
Proof. exact (proj1 (den_ext_all f G G' rho rho') e). Qed.

(* ================================================================================== *)
(* Part 1: the compiled action list, read off the statement list                       *)
(* ================================================================================== *)
Lemma insert_fold_target o : forall ins g, ins <> [] ->
  In o (g_nodes (fold_left (fun g1 n => graph_insert g1 n o) ins g)).
Proof.
  intros [|i ins] g Hne; [contradiction Hne; reflexivity|]. cbn [fold_left].
  apply insert_fold_nodes_mono. apply graph_insert_nodes. right. right. reflexivity.
Qed.

Section Installed.
  Variable f : features.
  Variable consts : list (string * wval).
  Variable assigns : list (string * expr).

  (* every component all of whose inputs are assigned is installed: by output name, with its
     output a node of the dependency graph; or in the list of output-less components *)
  Lemma preprocess_installed : forall l g by_out no_out g' by' no',
    NoDup (fixed_out_names l) ->
    fold_left (preprocess_one f consts assigns) l (g, by_out, no_out, []) = (g', by', no', []) ->
    (forall c, In c l -> all_assigned assigns c ->
       match ff_out c with
       | Some (o, _) => lookup by' o = Some c /\ (fixed_in_names c <> [] -> In o (g_nodes g'))
       | None => In c no'
       end) /\
    (forall o c, lookup by_out o = Some c -> ~ In o (fixed_out_names l) -> lookup by' o = Some c) /\
    (forall x, In x (g_nodes g) -> In x (g_nodes g')) /\
    (forall c, In c no_out -> In c no').
  Proof.
    induction l as [|ff l IH]; intros g by_out no_out g' by' no' Hnd H; cbn [fold_left] in H.
    - injection H as <- <- <-. split; [intros c []|]. split; [intros o c Hl _; exact Hl|].
      split; intros x Hx; exact Hx.
    - assert (He1 : snd (preprocess_one f consts assigns (g, by_out, no_out, []) ff) = []).
      { apply (fold_errs_grow snd (preprocess_one f consts assigns) (preprocess_one_errs f consts assigns) l).
        rewrite H. reflexivity. }
      rewrite fixed_out_names_cons in Hnd.
      assert (Hnd' : NoDup (fixed_out_names l)) by (apply NoDup_app_r in Hnd; exact Hnd).
      destruct (all_assigned_dec assigns ff) as [Hall|[j [Hj Hjf]]].
      + rewrite (preprocess_one_installed f consts assigns g by_out no_out ff Hall) in H.
        destruct (ff_out ff) as [[o w]|] eqn:Eo.
        * cbn [app] in Hnd. apply NoDup_cons_iff in Hnd. destruct Hnd as [Hon _].
          destruct (IH _ _ _ _ _ _ Hnd' H) as [I1 [I2 [I3 I4]]].
          split; [|split; [|split]].
          -- intros c [<-|Hc] Hca.
             ++ rewrite Eo. split.
                ** apply I2; [apply lookup_upd_same | exact Hon].
                ** intros Hne. apply I3. apply insert_fold_target. exact Hne.
             ++ apply (I1 c Hc Hca).
          -- intros o' c Hl Hno. apply I2.
             ++ rewrite lookup_upd. destruct (String.eqb o' o) eqn:E; [|exact Hl].
                apply String.eqb_eq in E. subst o'. exfalso. apply Hno.
                rewrite fixed_out_names_cons, Eo. left. reflexivity.
             ++ intros Hin. apply Hno. rewrite fixed_out_names_cons. apply in_or_app. right. exact Hin.
          -- intros x Hx. apply I3. apply insert_fold_nodes_mono. exact Hx.
          -- exact I4.
        * cbn [app] in Hnd.
          destruct (IH _ _ _ _ _ _ Hnd' H) as [I1 [I2 [I3 I4]]].
          split; [|split; [|split]].
          -- intros c [<-|Hc] Hca.
             ++ rewrite Eo. apply I4. apply in_or_app. right. left. reflexivity.
             ++ apply (I1 c Hc Hca).
          -- intros o' c Hl Hno. apply I2; [exact Hl|].
             intros Hin. apply Hno. rewrite fixed_out_names_cons, Eo. exact Hin.
          -- exact I3.
          -- intros c Hc. apply I4. apply in_or_app. left. exact Hc.
      + assert (Hnot : ~ all_assigned assigns ff).
        { intros Hall. rewrite (Hall j Hj) in Hjf. discriminate Hjf. }
        destruct (preprocess_one_cases f consts assigns g by_out no_out [] ff He1)
          as [_ [Hc|[Hall _]]]; [|contradiction (Hnot Hall)].
        rewrite Hc in H.
        destruct (IH _ _ _ _ _ _ Hnd' H) as [I1 [I2 [I3 I4]]].
        split; [|split; [|split]].
        * intros c [<-|Hc'] Hca; [contradiction (Hnot Hca) | apply (I1 c Hc' Hca)].
        * intros o' c Hl Hno. apply I2; [exact Hl|].
          intros Hin. apply Hno. rewrite fixed_out_names_cons. apply in_or_app. right. exact Hin.
        * exact I3.
        * exact I4.
  Qed.
End Installed.

Section Shape.
  Variable f : features.
  Variable fixed : list fixed_fn.
  Variable is_lower is_upper : string -> bool.
  Hypothesis Hok : fixed_table_ok fixed = true.
  Hypothesis Hsok : fixed_sched_ok fixed = true.
  Hypothesis Hins : forall c, In c fixed -> fixed_in_names c <> [].
  Variable stmts : list stmt.
  Variable cv : string -> option wval.
  Variable G : string -> option width.
  Hypothesis FF : fault_free_with f fixed is_lower is_upper cv G stmts.
  Variable p : program.
  Hypothesis Hb : build_program f fixed is_lower is_upper stmts = Ok p.

  Lemma assigned_NoDup : NoDup (map fst (assign_exprs stmts)).
  Proof. rewrite assign_exprs_names. apply (ff_assigned_once _ _ _ _ _ _ _ FF). Qed.

  Lemma all_assigned_inputs c : all_assigned (assign_exprs stmts) c <-> inputs_assigned stmts c.
  Proof.
    unfold all_assigned, inputs_assigned. split; intros H i Hi.
    - apply (assign_has stmts). apply H. exact Hi.
    - apply (assign_has stmts). apply H. exact Hi.
  Qed.

  (* the compiled program, in terms of the statement list *)
  Theorem program_shape :
    (forall n, lookup (p_consts p) n = cv n) /\ NoDup (map fst (p_consts p)) /\
    p_banks p = map (bank_of f cv) (bank_decls stmts) /\
    (forall x, In x (p_defaulted p) <-> defaulted stmts x) /\
    (* every assignment of the text is an action, at the declared width of its target *)
    (forall n e, In (n, e) (assign_exprs stmts) ->
       exists w, G n = Some w /\ In (AAssign n e w) (p_actions p)) /\
    (* every component in use is an action *)
    (forall c, In c fixed -> inputs_assigned stmts c -> In (ff_action c) (p_actions p)) /\
    (* and there are no other actions *)
    (forall a, In a (p_actions p) ->
       (exists n e w, a = AAssign n e w /\ In (n, e) (assign_exprs stmts) /\ G n = Some w) \/
       (exists c, In c fixed /\ inputs_assigned stmts c /\ a = ff_action c)).
  Proof.
    destruct (fixed_sched_ok_inv fixed Hsok) as [Tins [Touts _]].
    destruct (one_facts f fixed is_lower is_upper stmts cv G FF p Hb)
      as [consts [acts [Hp [Hcv [Hcnd [Hte Hacts]]]]]].
    destruct (ph_d f fixed is_lower is_upper stmts cv G FF consts Hcv) as [banks [_ [Hbk Hm]]].
    pose proof (widths_lookup f fixed is_lower is_upper stmts cv G FF consts Hcv banks Hbk Hm Hcnd) as HW.
    set (A := assign_exprs stmts) in *.
    match type of Hacts with assignments_to_actions _ _ ?W _ _ ?K _ = _ => set (WW := W) in *; set (known := K) in * end.
    destruct (a2a_inv f fixed _ _ _ _ _ _ Hacts) as [g [by_out [no_out [order [sacts [Hf [Ht [Hs Eacts]]]]]]]].
    pose proof assigned_NoDup as HA1. fold A in HA1.
    destruct (assign_graph_facts A known HA1) as [G1 [G2 G3]].
    assert (Hnotout : forall o, In o (fixed_out_names fixed) -> ~ In o (assigned_names stmts)).
    { intros o Ho Ha. destruct (ff_no_driver _ _ _ _ _ _ _ FF o Ha) as [H _]. exact (H Ho). }
    assert (Hne : forall o, In o (fixed_out_names fixed) -> forall x, ~ gedge (assign_graph A known) x o).
    { intros o Ho x Hxo. apply G2 in Hxo. destruct Hxo as [e [Hoe _]].
      apply (Hnotout o Ho). rewrite <- assign_exprs_names. apply (in_map fst) in Hoe. exact Hoe. }
    destruct (preprocess_graph f _ _ _ _ _ _ _ _ _ G1 Touts Tins Hne Hf) as [P1 [_ [P3 _]]].
    destruct (order_valid string String.eqb String.eqb_eq g order P1 Ht) as [L1 [L2 _]].
    destruct (schedule_ok f _ _ _ _ _ _ _ _ _ _ Hs) as [_ [_ [new [En HF]]]]. cbn [app] in En. subst sacts.
    destruct (preprocess_shape f _ _ _ _ _ _ _ _ _ Hf) as [Hby [extra [Hno [_ Hex]]]].
    cbn [app] in Hno. subst no_out.
    destruct (preprocess_installed f consts A fixed _ _ _ _ _ _ Touts Hf) as [J1 [_ [J3 _]]].
    assert (Hpa : p_actions p = new ++ map ff_action extra) by (rewrite Hp; exact Eacts).
    split; [rewrite Hp; exact Hcv|]. split; [rewrite Hp; exact Hcnd|].
    split; [rewrite Hp; apply (one_banks f fixed is_lower is_upper stmts cv consts Hcv Hte)|].
    split; [rewrite Hp; apply (one_defaulted f fixed is_lower is_upper stmts cv G FF consts)|].
    split; [|split].
    - intros n e Hne'.
      assert (Hn : In n (map fst A)) by (apply (in_map fst) in Hne'; exact Hne').
      assert (Hord : In n order) by (apply L2, P3, G3; exact Hn).
      destruct (Forall2_In_l _ _ _ _ HF Hord) as [a [Ha Hem]].
      destruct Hem as [[e' [w [we [E1 [E2 [_ [_ ->]]]]]]]|[E1 _]].
      + apply (assign_lookup f fixed is_lower is_upper stmts cv G FF) in E1.
        assert (e' = e).
        { symmetry. apply (NoDup_fst_fun A n e' e HA1 E1 Hne'). }
        subst e'. exists w. split; [rewrite <- HW; exact E2|].
        rewrite Hpa. apply in_or_app. left. exact Ha.
      + exfalso. apply lookup_None in E1. contradiction.
    - intros c Hc Hia. apply all_assigned_inputs in Hia. specialize (J1 c Hc Hia).
      rewrite Hpa. destruct (ff_out c) as [[o w]|] eqn:Eo.
      + destruct J1 as [Jl Jn]. specialize (Jn (Hins c Hc)).
        assert (Hord : In o order) by (apply L2; exact Jn).
        destruct (Forall2_In_l _ _ _ _ HF Hord) as [a [Ha Hem]].
        destruct Hem as [[e' [w' [we [E1 _]]]]|[_ [ff [E2 ->]]]].
        * exfalso. apply lookup_In in E1. apply (in_map fst) in E1. cbn [fst] in E1.
          unfold A in E1. rewrite assign_exprs_names in E1.
          exact (Hnotout o (In_fixed_out_names fixed c o w Hc Eo) E1).
        * rewrite Jl in E2. injection E2 as <-. apply in_or_app. left. exact Ha.
      + apply in_or_app. right. apply in_map. exact J1.
    - intros a Ha. rewrite Hpa in Ha. apply in_app_iff in Ha. destruct Ha as [Ha|Ha].
      + destruct (Forall2_In_r _ _ _ _ HF Ha) as [n [_ [[e [w [we [E1 [E2 [_ [_ ->]]]]]]]|[_ [ff [Hl ->]]]]]].
        * left. exists n, e, w. split; [reflexivity|]. split.
          -- apply (assign_lookup f fixed is_lower is_upper stmts cv G FF). exact E1.
          -- rewrite <- HW. exact E2.
        * right. destruct (Hby n ff Hl) as [Hx|[Hx [_ Hall]]]; [discriminate Hx|].
          exists ff. split; [exact Hx|]. split; [apply all_assigned_inputs; exact Hall | reflexivity].
      + right. apply in_map_iff in Ha. destruct Ha as [ff [<- Hff]].
        destruct (Hex ff Hff) as [Hin [_ Hall]].
        exists ff. split; [exact Hin|]. split; [apply all_assigned_inputs; exact Hall | reflexivity].
  Qed.
  Lemma banks_match_specials : forall bd banks, Forall2 bank_matches bd banks ->
    flat_map (fun b => [b_stall b; b_bubble b]) banks =
    flat_map (fun b => match bank_letters (fst b) with
                       | Some (_, o) => [("stall_" ++ o)%string; ("bubble_" ++ o)%string]
                       | None => []
                       end) bd.
  Proof.
    intros bd banks H. induction H as [|b bk bd banks [i [o [Hl [_ [Hst Hbu]]]]] _ IH]; [reflexivity|].
    cbn [flat_map]. rewrite IH, Hl, Hst, Hbu. reflexivity.
  Qed.

  Theorem program_banks_names :
    all_outs (p_banks p) = bank_outputs stmts /\ all_ins (p_banks p) = bank_inputs stmts /\
    flat_map (fun b => [b_stall b; b_bubble b]) (p_banks p) = bank_specials stmts /\
    Forall2 bank_matches (bank_decls stmts) (p_banks p) /\
    (forall n, widths_env fixed stmts p n = G n).
  Proof.
    destruct (one_facts f fixed is_lower is_upper stmts cv G FF p Hb)
      as [consts [acts [Hp [Hcv [Hcnd [Hte Hacts]]]]]].
    destruct (ph_d f fixed is_lower is_upper stmts cv G FF consts Hcv) as [banks [_ [Hbk Hm]]].
    pose proof (widths_lookup f fixed is_lower is_upper stmts cv G FF consts Hcv banks Hbk Hm Hcnd) as HW.
    rewrite Hp. cbn [p_banks]. rewrite Hbk.
    split; [|split; [|split; [|split]]].
    - change (all_out_names banks = bank_outputs stmts).
      apply (banks_outs stmts banks Hm).
    - change (all_in_names banks = bank_inputs stmts).
      apply (banks_ins stmts banks Hm).
    - rewrite (banks_match_specials _ _ Hm). reflexivity.
    - exact Hm.
    - intros n. rewrite <- HW. unfold widths_env, widths_of. cbn [p_consts p_banks]. rewrite Hbk. reflexivity.
  Qed.
End Shape.

(* ================================================================================== *)
(* Part 2: the constraint one action puts on a wire map; schedules                      *)
(* ================================================================================== *)
Definition enabled_in (v : wire_map) (en : option string) : bool :=
  match en with Some w => negb (v w =? 0) | None => true end.

(* the value the definition of action [a] yields from the wire map [v] and the start-of-cycle
   registers and memory of [s] *)
Definition den_value (f : features) (G : string -> option width) (s : mstate) (v : wire_map)
           (a : action) : N :=
  match a with
  | AAssign _ e w => den f G (env_of v) e mod 2 ^ nbits w
  | AReadReg num _ => reg_content (regs s) (v num)
  | AReadMemory en addr _ nb _ =>
      if enabled_in v en then le_bytes (byte_at (mem s)) (v addr) (N.to_nat nb) else 0
  | _ => 0
  end.

Definition sat (f : features) (G : string -> option width) (s : mstate) (v : wire_map) (a : action) : Prop :=
  forall w, written a = Some w -> v w = den_value f G s v a.

Lemma bits_of_env v n : bits_of (env_of v) n = v n.
Proof. reflexivity. Qed.

Lemma den_value_ext f G s v v' a :
  (forall n, In n (reads a) -> v n = v' n) -> den_value f G s v a = den_value f G s v' a.
Proof.
  intros H. destruct a as [name e w0|num outp|en addr outp n isi|num inp|en addr inp n|sw];
    cbn [den_value reads] in *; try reflexivity.
  - rewrite (den_ext f G G (env_of v) (env_of v') e); [reflexivity|].
    intros n Hn. split; [reflexivity|]. rewrite !bits_of_env. apply H. exact Hn.
  - rewrite (H num) by (left; reflexivity). reflexivity.
  - rewrite (H addr) by (left; reflexivity).
    assert (He : enabled_in v en = enabled_in v' en).
    { destruct en as [w|]; cbn [enabled_in]; [|reflexivity].
      rewrite (H w) by (right; left; reflexivity). reflexivity. }
    rewrite He. reflexivity.
Qed.

Section Sched.
  Variable f : features.
  Variable G : string -> option width.
  Variable s : mstate.

  (* two wire maps that satisfy every action of a valid schedule and agree on the known wires
     agree on every written wire *)
  Lemma sched_unique v1 v2 : forall acts known,
    valid_schedule known acts = true ->
    (forall k, In k known -> v1 k = v2 k) ->
    (forall a, In a acts -> sat f G s v1 a) -> (forall a, In a acts -> sat f G s v2 a) ->
    forall a w, In a acts -> written a = Some w -> v1 w = v2 w.
  Proof.
    induction acts as [|a r IH]; intros known Hv Hk H1 H2 a' w' Ha' Hw'; [destruct Ha'|].
    destruct (written a) as [w|] eqn:Ew.
    - destruct (valid_cons_pure _ _ _ _ Hv Ew) as (Hreads & Hnk & Hv').
      assert (Hw : v1 w = v2 w).
      { rewrite (H1 a (or_introl eq_refl) w Ew), (H2 a (or_introl eq_refl) w Ew).
        apply den_value_ext. intros n Hn. apply Hk, Hreads, Hn. }
      destruct Ha' as [<-|Ha'].
      + rewrite Ew in Hw'. injection Hw' as <-. exact Hw.
      + apply (IH (w :: known) Hv') with (a := a'); try assumption.
        * intros k [<-|Hkk]; [exact Hw | apply Hk, Hkk].
        * intros b Hb. apply H1. right. exact Hb.
        * intros b Hb. apply H2. right. exact Hb.
    - destruct (valid_cons_effect _ _ _ Hv Ew) as (_ & Heff & _).
      destruct Ha' as [<-|Ha']; [congruence|].
      apply written_pure in Hw'. rewrite (Heff a' Ha') in Hw'. discriminate Hw'.
  Qed.

  (* a wire map satisfying every action exists: evaluate along the schedule *)
  Definition set_wire (v : wire_map) (k : string) (x : N) : wire_map :=
    fun n => if String.eqb n k then x else v n.

  Fixpoint solve (acts : list action) (v : wire_map) : wire_map :=
    match acts with
    | [] => v
    | a :: r => solve r (match written a with
                         | Some w => set_wire v w (den_value f G s v a)
                         | None => v
                         end)
    end.

  Lemma solve_spec : forall acts known v,
    valid_schedule known acts = true ->
    (forall k, In k known -> solve acts v k = v k) /\
    (forall a, In a acts -> sat f G s (solve acts v) a).
  Proof.
    induction acts as [|a r IH]; intros known v Hv; cbn [solve].
    - split; [reflexivity | intros a []].
    - destruct (written a) as [w|] eqn:Ew.
      + destruct (valid_cons_pure _ _ _ _ Hv Ew) as (Hreads & Hnk & Hv').
        set (v' := set_wire v w (den_value f G s v a)).
        destruct (IH (w :: known) v' Hv') as (I1 & I2).
        assert (Hkeep : forall k, In k known -> solve r v' k = v k).
        { intros k Hk. rewrite (I1 k (or_intror Hk)). unfold v', set_wire.
          destruct (String.eqb k w) eqn:E; [|reflexivity].
          apply String.eqb_eq in E. subst k. contradiction. }
        split; [exact Hkeep|].
        intros a' [<-|Ha'] w' Hw'; [|exact (I2 a' Ha' w' Hw')].
        rewrite Ew in Hw'. injection Hw' as <-.
        rewrite (I1 w (or_introl eq_refl)). unfold v' at 1, set_wire. rewrite String.eqb_refl.
        apply den_value_ext. intros n Hn. symmetry. apply Hkeep, Hreads, Hn.
      + destruct (valid_cons_effect _ _ _ Hv Ew) as (_ & Heff & Hv').
        destruct (IH known v Hv') as (I1 & I2).
        split; [exact I1|].
        intros a' [<-|Ha'] w' Hw'; [congruence | exact (I2 a' Ha' w' Hw')].
  Qed.
End Sched.

(* ---- program_ok depends on the width environment pointwise ---------------------------------- *)
Lemma action_typed_ext f G G' p a : (forall n, G n = G' n) -> action_typed f G p a -> action_typed f G' p a.
Proof.
  intros HG. destruct a as [name e w0|num outp|en addr outp n isi|num inp|en addr inp n|sw];
    cbn [action_typed]; rewrite <- ?HG; try (intros H; exact H).
  - intros (H1 & H2 & H3 & we & H4 & H5). split; [exact H1|]. split; [exact H2|]. split; [exact H3|].
    exists we. split; [|exact H5]. rewrite <- H4. apply SchedProofs.check_ext. intros k _. symmetry. apply HG.
  - intros (H1 & H2 & H3 & H4). split; [exact H1|]. split; [exact H2|]. split; [exact H3|].
    intros w Hw. rewrite <- HG. apply H4. exact Hw.
  - intros (H1 & H2 & H3 & H4). split; [exact H1|]. split; [exact H2|]. split; [exact H3|].
    intros w Hw. rewrite <- HG. apply H4. exact Hw.
Qed.

Lemma program_ok_ext f G G' p : (forall n, G n = G' n) -> program_ok f G p -> program_ok f G' p.
Proof.
  intros HG (H1 & H2 & H3 & H4 & H5 & H6 & H7 & H8).
  split; [|split; [exact H2|split; [exact H3|split; [|split; [exact H5|split; [|split; [|exact H8]]]]]]].
  - intros a Ha. apply (action_typed_ext f G G' p a HG). apply H1. exact Ha.
  - intros n v Hin. rewrite <- HG. apply H4. exact Hin.
  - intros b i o w Hb Hs. rewrite <- !HG. apply (H6 b i o w Hb Hs).
  - intros b Hb. rewrite <- !HG. apply H7. exact Hb.
Qed.

(* ---- what the simulator computes satisfies every action of the program ---------------------- *)
Lemma rf_read_content r n : List.length r = 16%nat -> nth 15 r 0 = 0 -> n < 16 ->
  rf_read r n = reg_content r n.
Proof.
  intros HL H15 Hn. unfold rf_read, reg_content. rewrite HL.
  replace (n <? N.of_nat 16) with true by lia.
  destruct (n <? 15) eqn:E; [reflexivity|].
  assert (n = 15) by lia. subst n. exact H15.
Qed.

Lemma wire_bits s k v : lookup (values s) k = Some v -> wire s k = bits v.
Proof. intros H. unfold wire. rewrite H. reflexivity. Qed.

Section Computed.
  Variable f : features.
  Variable o : options.
  Variable G : string -> option width.
  Variable p : program.

  (* any valid schedule of typed actions, run from a well-typed state *)
  Lemma computed_sat_gen acts known s s1 t1 :
    (forall a, In a acts -> action_typed f G p a) -> valid_schedule known acts = true ->
    (forall k, In k known -> lookup (values s) k <> None) ->
    typed_vals G (values s) -> mach_ok (mem s) (regs s) -> nth 15 (regs s) 0 = 0 ->
    exec_actions f o acts s = Ok (s1, t1) ->
    typed_vals G (values s1) /\
    (forall k, In k known -> lookup (values s1) k = lookup (values s) k) /\
    (forall a n, In a acts -> In n (reads a) -> lookup (values s1) n <> None) /\
    (forall a w, In a acts -> written a = Some w -> lookup (values s1) w <> None) /\
    (forall a, In a acts -> sat f G s (wire s1) a).
  Proof.
    intros Hty Hvalid Hk0 HT (HL & HF & HW) H15 Hex.
    destruct (settles_lazy f o known acts s s1 t1 Hvalid Hex) as (HB & HA & _).
    pose proof (reads_valued f o acts known s s1 t1 Hvalid Hex Hk0) as Hrv.
    pose proof (exec_actions_safe f o G p acts known s Hty Hvalid Hk0 HT (conj HL (conj HF HW))) as Hsafe.
    rewrite Hex in Hsafe. destruct Hsafe as (HT1 & _ & _).
    split; [exact HT1|]. split; [exact HA|]. split; [exact Hrv|].
    split; [intros a w Ha Hw; exact (proj2 (HB a w Ha Hw))|].
    intros a Ha w Hw. destruct (HB a w Ha Hw) as (Hval & Hne).
    pose proof (Hty a Ha) as Hta.
    destruct a as [name e w0|num outp|en addr outp n isi|num inp|en addr inp n|sw];
      cbn [written] in Hw; try discriminate Hw; injection Hw as <-;
      cbn [exec_value] in Hval; cbn [action_typed] in Hta; cbn [den_value].
    - destruct Hta as (HGn & Hw0 & Hwf & we & Hck & _).
      destruct (eval f (lookup (values s1)) e) as [v0|es] eqn:Ee; [|contradiction].
      rewrite (wire_bits _ _ _ Hval).
      rewrite (proj1 (assign_truncates w0 v0 Hw0)). f_equal.
      set (Gr := fun k => if mem_str k (refs e) then G k else None).
      assert (Henv : env_ok Gr (lookup (values s1))).
      { intros k w Hk. unfold Gr in Hk. destruct (mem_str k (refs e)) eqn:Em; [|discriminate Hk].
        apply SchedProofs.mem_str_In in Em.
        destruct (valued_some _ _ (Hrv (AAssign name e w0) k Ha Em)) as (v & Hv).
        exists v. split; [exact Hv|]. exact (HT1 k v w Hv Hk). }
      assert (Hck' : check f Gr (consts_of p) e = Ok we).
      { rewrite <- Hck. apply SchedProofs.check_ext. intros k Hk. unfold Gr.
        apply SchedProofs.mem_str_In in Hk. rewrite Hk. reflexivity. }
      rewrite (eval_den f Gr (consts_of p) (lookup (values s1)) e we v0 Hwf Henv Hck' Ee).
      apply den_ext. intros k Hk. unfold Gr. apply SchedProofs.mem_str_In in Hk. rewrite Hk.
      split; reflexivity.
    - destruct Hta as (HGn & _).
      destruct (lookup (values s1) num) as [nv|] eqn:En; [|contradiction].
      rewrite (wire_bits _ _ _ Hval), (wire_bits _ _ _ En). cbn [bits].
      destruct (HT1 num nv (Bits 4) En HGn) as (Hwd & Hfit & _). rewrite Hwd in Hfit.
      cbn [bits_or_128] in Hfit. change (2 ^ 4) with 16 in Hfit.
      rewrite N.mod_small by (rewrite two64_lit; lia).
      apply rf_read_content; assumption.
    - destruct Hta as (HGa & _ & Hn16 & HGe).
      assert (Hen : enabled (values s1) en = Ok (enabled_in (wire s1) en)).
      { destruct en as [w|]; cbn [enabled enabled_in]; [|reflexivity].
        destruct (valued_some _ _ (Hrv _ w Ha (or_intror (or_introl eq_refl)))) as (v & Hv).
        rewrite (get_value_some _ _ _ Hv). cbn [bind]. rewrite (wire_bits _ _ _ Hv).
        unfold is_true. f_equal. lia. }
      rewrite Hen in Hval. destruct (enabled_in (wire s1) en).
      + destruct (lookup (values s1) addr) as [av|] eqn:Eav; [|contradiction].
        rewrite (wire_bits _ _ _ Hval), (wire_bits _ _ _ Eav).
        destruct (HT1 addr av (Bits 64) Eav HGa) as (Hwd & Hfit & _). rewrite Hwd in Hfit.
        cbn [bits_or_128] in Hfit. fold two64 in Hfit.
        rewrite (N.mod_small _ _ Hfit).
        rewrite (mem_read_ok (mem s) (bits av) n HW Hfit Hn16). reflexivity.
      + rewrite (wire_bits _ _ _ Hval). unfold as_width. cbn [bits]. apply N.land_0_l.
  Qed.

  Hypothesis Hp : program_ok f G p.

  Lemma known0_valued s : state_ok G p s -> forall k, In k (known0 p) -> lookup (values s) k <> None.
  Proof.
    intros (Hstart & _) k Hk. unfold known0 in Hk. apply filter_In in Hk. apply Hstart. exact (proj1 Hk).
  Qed.

  Lemma computed_sat s s1 t1 :
    state_ok G p s -> nth 15 (regs s) 0 = 0 ->
    exec_actions f o (p_actions p) s = Ok (s1, t1) ->
    typed_vals G (values s1) /\
    (forall k, In k (known0 p) -> lookup (values s1) k = lookup (values s) k) /\
    (forall a n, In a (p_actions p) -> In n (reads a) -> lookup (values s1) n <> None) /\
    (forall a w, In a (p_actions p) -> written a = Some w -> lookup (values s1) w <> None) /\
    (forall a, In a (p_actions p) -> sat f G s (wire s1) a).
  Proof.
    intros Hs H15 Hex.
    pose proof Hp as (Hty & Hvalid & _).
    pose proof Hs as (_ & HT & HL & HF & HW).
    exact (computed_sat_gen (p_actions p) (known0 p) s s1 t1 Hty Hvalid (known0_valued s Hs) HT
             (conj HL (conj HF HW)) H15 Hex).
  Qed.
End Computed.

(* ================================================================================== *)
(* Part 3: solutions of a cycle = wire maps satisfying every action of the program      *)
(* ================================================================================== *)
Lemma gen_ins_nonempty : forall c, In c gen_fixed -> fixed_in_names c <> [].
Proof.
  intros c Hc. cbn [gen_fixed In] in Hc.
  repeat (destruct Hc as [<-|Hc]; [discriminate|]). contradiction.
Qed.

Lemma gen_sched_ok : fixed_sched_ok gen_fixed = true.
Proof. vm_compute. reflexivity. Qed.

Lemma uses_iff stmts ins : uses stmts ins = true <-> forall i, In i ins -> In i (assigned_names stmts).
Proof.
  unfold uses. rewrite forallb_forall. split; intros H i Hi.
  - apply SchedProofs.mem_str_In. apply H. exact Hi.
  - apply SchedProofs.mem_str_In. apply H. exact Hi.
Qed.

Theorem ports_are_the_table_holds : stmt_ports_are_the_table.
Proof. repeat split; vm_compute; reflexivity. Qed.

Definition start_agree (stmts : list stmt) (s : mstate) (v : wire_map) : Prop :=
  (forall n, In n (const_names stmts) -> v n = wire s n) /\
  (forall n, In n (bank_outputs stmts) -> v n = wire s n) /\
  (forall n, defaulted stmts n -> v n = 0).

Section Gen.
  Variable f : features.
  Variable il iu : string -> bool.
  Variable stmts : list stmt.
  Variable cv : string -> option wval.
  Variable G : string -> option width.
  Hypothesis FF : fault_free_with f gen_fixed il iu cv G stmts.
  Variable p : program.
  Hypothesis Hb : build_program f gen_fixed il iu stmts = Ok p.

  Let shape := program_shape f gen_fixed il iu gen_sched_ok gen_ins_nonempty stmts cv G FF p Hb.
  Let names := program_banks_names f gen_fixed il iu stmts cv G FF p Hb.

  Lemma solution_iff_sat s v :
    cycle_solution f G stmts s v <->
    start_agree stmts s v /\ forall a, In a (p_actions p) -> sat f G s v a.
  Proof.
    destruct shape as (_ & _ & _ & _ & A1 & A2 & A3).
    split.
    - intros S. split; [split; [apply S | split; apply S]|].
      intros a Ha. destruct (A3 a Ha) as [(n & e & w & -> & Hne & HG)|(c & Hc & Hia & ->)].
      + intros w' Hw'. cbn [written] in Hw'. injection Hw' as <-. cbn [den_value].
        apply (sol_assign _ _ _ _ _ S n e w Hne HG).
      + cbn [gen_fixed In] in Hc.
        repeat (destruct Hc as [<-|Hc]; [cbn [ff_action]; intros w' Hw'; cbn [written] in Hw';
                                         try discriminate Hw'; injection Hw' as <-;
                                         cbn [den_value enabled_in]|]); try contradiction.
        * apply (sol_i10bytes _ _ _ _ _ S). apply uses_iff. exact Hia.
        * rewrite (sol_mem_output _ _ _ _ _ S) by (apply uses_iff; exact Hia).
          destruct (v "mem_readbit" =? 0); reflexivity.
        * apply (sol_reg_outputA _ _ _ _ _ S). apply uses_iff. exact Hia.
        * apply (sol_reg_outputB _ _ _ _ _ S). apply uses_iff. exact Hia.
    - intros ((S1 & S2 & S3) & Hsat).
      assert (Hport : forall c w, In c gen_fixed -> uses stmts (fixed_in_names c) = true ->
                written (ff_action c) = Some w -> v w = den_value f G s v (ff_action c)).
      { intros c w Hc Hu Hw. apply (Hsat (ff_action c)); [|exact Hw].
        apply A2; [exact Hc|]. unfold inputs_assigned. apply uses_iff. exact Hu. }
      constructor.
      + exact S1.
      + exact S2.
      + exact S3.
      + intros n e w Hne HG. destruct (A1 n e Hne) as (w' & HG' & Hin).
        rewrite HG in HG'. injection HG' as <-.
        exact (Hsat _ Hin n eq_refl).
      + intros Hu. apply (Hport (nth 4 gen_fixed (nth 0 gen_fixed (mkFixed "" [] None None false (ASetStatus ""))))
                             "reg_outputA"); [cbn; tauto | exact Hu | reflexivity].
      + intros Hu. apply (Hport (nth 5 gen_fixed (nth 0 gen_fixed (mkFixed "" [] None None false (ASetStatus ""))))
                             "reg_outputB"); [cbn; tauto | exact Hu | reflexivity].
      + intros Hu.
        rewrite (Hport (nth 2 gen_fixed (nth 0 gen_fixed (mkFixed "" [] None None false (ASetStatus ""))))
                       "mem_output"); [|cbn; tauto | exact Hu | reflexivity].
        cbn [nth gen_fixed ff_action den_value enabled_in]. destruct (v "mem_readbit" =? 0); reflexivity.
      + intros Hu. apply (Hport (nth 1 gen_fixed (nth 0 gen_fixed (mkFixed "" [] None None false (ASetStatus ""))))
                             "i10bytes"); [cbn; tauto | exact Hu | reflexivity].
  Qed.
End Gen.

(* ================================================================================== *)
(* Part 4: the wires known when the cycle starts; uniqueness; existence                 *)
(* ================================================================================== *)
Lemma assigned_has_expr stmts n : In n (assigned_names stmts) -> exists e, In (n, e) (assign_exprs stmts).
Proof.
  intros H. rewrite <- assign_exprs_names in H. apply in_map_iff in H.
  destruct H as [[n' e] [<- Hin]]. exists e. exact Hin.
Qed.

(* the component whose output is the given port *)
Lemma port_component ins k : In (ins, k) ports_with_output ->
  exists c w, In c gen_fixed /\ fixed_in_names c = ins /\ ff_out c = Some (k, w) /\
              written (ff_action c) = Some k.
Proof.
  unfold ports_with_output. cbn [In]. intros H.
  set (d := mkFixed "" [] None None false (ASetStatus "")).
  destruct H as [H|[H|[H|[H|[]]]]]; injection H as <- <-.
  - exists (nth 1 gen_fixed d), 80. cbn. tauto.
  - exists (nth 2 gen_fixed d), 64. cbn. tauto.
  - exists (nth 4 gen_fixed d), 64. cbn. tauto.
  - exists (nth 5 gen_fixed d), 64. cbn. tauto.
Qed.

Section Gen2.
  Variable f : features.
  Variable il iu : string -> bool.
  Variable stmts : list stmt.
  Variable cv : string -> option wval.
  Variable G : string -> option width.
  Hypothesis FF : fault_free_with f gen_fixed il iu cv G stmts.
  Variable p : program.
  Hypothesis Hb : build_program f gen_fixed il iu stmts = Ok p.

  Let shape := program_shape f gen_fixed il iu gen_sched_ok gen_ins_nonempty stmts cv G FF p Hb.
  Let names := program_banks_names f gen_fixed il iu stmts cv G FF p Hb.

  Lemma const_keys n : In n (map fst (p_consts p)) <-> In n (const_names stmts).
  Proof.
    destruct shape as (Hcv & _).
    rewrite <- (ff_cv_domain _ _ _ _ _ _ _ FF n), <- Hcv.
    split.
    - intros H Hn. apply BuildProofs.lookup_None in Hn. contradiction.
    - intros H. destruct (in_dec string_dec n (map fst (p_consts p))) as [Hi|Hi]; [exact Hi|].
      apply BuildProofs.lookup_None in Hi. contradiction.
  Qed.

  Lemma assigned_written n : In n (assigned_names stmts) ->
    exists a, In a (p_actions p) /\ written a = Some n.
  Proof.
    destruct shape as (_ & _ & _ & _ & A1 & _).
    intros H. destruct (assigned_has_expr stmts n H) as [e He].
    destruct (A1 n e He) as (w & _ & Hin). exists (AAssign n e w). split; [exact Hin | reflexivity].
  Qed.

  Lemma known0_exact k :
    In k (known0 p) <-> In k (const_names stmts) \/ In k (bank_outputs stmts) \/ defaulted stmts k.
  Proof.
    destruct names as (Nout & Nin & Nsp & _).
    rewrite known0_In. unfold start_wires. rewrite !in_app_iff, Nout, Nin, Nsp, const_keys.
    split.
    - intros [[H|[H|[H|H]]] Hnw].
      + left. exact H.
      + right. left. exact H.
      + exfalso. assert (Ha : In k (assigned_names stmts)).
        { apply (ff_all_driven _ _ _ _ _ _ _ FF). apply in_or_app. right. exact H. }
        destruct (assigned_written k Ha) as (a & Hin & Hw). exact (Hnw a Hin Hw).
      + right. right. split; [exact H|]. intros Ha.
        destruct (assigned_written k Ha) as (a & Hin & Hw). exact (Hnw a Hin Hw).
    - intros H.
      assert (Hnw : ~ In k (assigned_names stmts) /\ ~ In k (fixed_names gen_fixed)).
      { destruct H as [H|[H|[H1 H2]]].
        - split.
          + intros Ha. destruct (ff_no_driver _ _ _ _ _ _ _ FF k Ha) as (_ & Hc & _). exact (Hc H).
          + apply (ff_not_builtin _ _ _ _ _ _ _ FF). apply in_or_app. left. exact H.
        - split.
          + intros Ha. destruct (ff_no_driver _ _ _ _ _ _ _ FF k Ha) as (_ & _ & Hc). exact (Hc H).
          + intros Hf. exact (proj1 (gen_name_not_bank stmts k Hf) H).
        - split; [exact H2|]. intros Hf. exact (proj2 (gen_name_not_bank stmts k Hf) H1). }
      split.
      + destruct H as [H|[H|[H _]]]; tauto.
      + intros a Ha Hw.
        destruct (built_writes f gen_fixed il iu stmts p gen_fixed_ok Hb a k Ha Hw) as [Hx|Hx].
        * exact (proj1 Hnw Hx).
        * apply (proj2 Hnw). apply fixed_out_in_names. exact Hx.
  Qed.

  Lemma schedule_valid : valid_schedule (known0 p) (p_actions p) = true.
  Proof. exact (build_valid_schedule_gen f il iu gen_fixed_ok stmts p Hb). Qed.

  Lemma start_agree_known s v1 v2 :
    start_agree stmts s v1 -> start_agree stmts s v2 -> forall k, In k (known0 p) -> v1 k = v2 k.
  Proof.
    intros (A1 & A2 & A3) (B1 & B2 & B3) k Hk. apply known0_exact in Hk.
    destruct Hk as [H|[H|H]].
    - rewrite (A1 k H), (B1 k H). reflexivity.
    - rewrite (A2 k H), (B2 k H). reflexivity.
    - rewrite (A3 k H), (B3 k H). reflexivity.
  Qed.

  (* a constrained wire is known at the start of the cycle or written by an action *)
  Lemma constrained_cases k : constrained stmts k ->
    In k (known0 p) \/ exists a, In a (p_actions p) /\ written a = Some k.
  Proof.
    destruct shape as (_ & _ & _ & _ & _ & A2 & _).
    intros [H|[H|[H|[H|(ins & Hp & Hu)]]]].
    - left. apply known0_exact. tauto.
    - left. apply known0_exact. tauto.
    - destruct (in_dec string_dec k (assigned_names stmts)) as [Ha|Ha].
      + right. apply assigned_written. exact Ha.
      + left. apply known0_exact. right. right. split; assumption.
    - right. apply assigned_written. exact H.
    - right. destruct (port_component ins k Hp) as (c & w & Hc & Hi & _ & Hw).
      exists (ff_action c). split; [|exact Hw]. apply A2; [exact Hc|].
      unfold inputs_assigned. rewrite Hi. apply uses_iff. exact Hu.
  Qed.

  Lemma solutions_agree s v1 v2 :
    cycle_solution f G stmts s v1 -> cycle_solution f G stmts s v2 ->
    forall k, constrained stmts k -> v1 k = v2 k.
  Proof.
    intros S1 S2 k Hk.
    apply (solution_iff_sat f il iu stmts cv G FF p Hb) in S1, S2.
    destruct S1 as (St1 & Sa1). destruct S2 as (St2 & Sa2).
    destruct (constrained_cases k Hk) as [Hkn|(a & Ha & Hw)].
    - apply (start_agree_known s v1 v2 St1 St2 k Hkn).
    - apply (sched_unique f G s v1 v2 (p_actions p) (known0 p) schedule_valid
               (start_agree_known s v1 v2 St1 St2) Sa1 Sa2 a k Ha Hw).
  Qed.

  (* existence, whatever the state: evaluate ExprSpec.den along the schedule *)
  Definition start_map (s : mstate) : wire_map :=
    fun k => if mem_str k (bank_specials stmts) && negb (mem_str k (assigned_names stmts))
             then 0 else wire s k.

  Lemma solution_exists s : cycle_solution f G stmts s (solve f G s (p_actions p) (start_map s)).
  Proof.
    destruct (solve_spec f G s (p_actions p) (known0 p) (start_map s) schedule_valid) as (Hk & Hsat).
    apply (solution_iff_sat f il iu stmts cv G FF p Hb). split; [|exact Hsat].
    assert (Hns : forall n, In n (const_names stmts) \/ In n (bank_outputs stmts) ->
                            mem_str n (bank_specials stmts) = false).
    { intros n Hn. apply SchedProofs.mem_str_false. intros Hsp. destruct Hn as [Hn|Hn].
      - apply (ff_bank_signals_undeclared _ _ _ _ _ _ _ FF n).
        + apply in_or_app. right. exact Hsp.
        + apply in_or_app. left. exact Hn.
      - pose proof (bank_signal_like stmts n (In_bank_outputs_sig stmts n Hn)) as H1.
        pose proof (bank_special_unlike stmts n Hsp) as H2. congruence. }
    split; [|split].
    - intros n Hn. rewrite Hk by (apply known0_exact; tauto).
      unfold start_map. rewrite (Hns n (or_introl Hn)). reflexivity.
    - intros n Hn. rewrite Hk by (apply known0_exact; tauto).
      unfold start_map. rewrite (Hns n (or_intror Hn)). reflexivity.
    - intros n Hn. rewrite Hk by (apply known0_exact; tauto).
      destruct Hn as (H1 & H2). unfold start_map.
      apply SchedProofs.mem_str_In in H1. apply SchedProofs.mem_str_false in H2.
      rewrite H1, H2. reflexivity.
  Qed.
End Gen2.

Theorem cycle_solution_unique_holds : stmt_cycle_solution_unique.
Proof.
  intros f il iu stmts cv G s v1 v2 FF S1 S2 k Hk.
  destruct (fault_free_accepted_gen_holds f il iu stmts) as [p Hb]; [exists cv, G; exact FF|].
  exact (solutions_agree f il iu stmts cv G FF p Hb s v1 v2 S1 S2 k Hk).
Qed.

Theorem cycle_solution_always_exists_holds : stmt_cycle_solution_always_exists.
Proof.
  intros f il iu stmts cv G s FF.
  destruct (fault_free_accepted_gen_holds f il iu stmts) as [p Hb]; [exists cv, G; exact FF|].
  eexists. exact (solution_exists f il iu stmts cv G FF p Hb s).
Qed.

Theorem den_division_by_zero_is_zero_holds : stmt_den_division_by_zero_is_zero.
Proof.
  intros f G rho l r H. cbn [den den_bin]. rewrite H.
  destruct (den f G rho l); reflexivity.
Qed.

(* ================================================================================== *)
(* Part 5: what the simulator computes is the solution                                  *)
(* ================================================================================== *)
Section Gen3.
  Variable f : features.
  Variable il iu : string -> bool.
  Variable stmts : list stmt.
  Variable cv : string -> option wval.
  Variable G : string -> option width.
  Hypothesis FF : fault_free_with f gen_fixed il iu cv G stmts.
  Variable p : program.
  Hypothesis Hb : build_program f gen_fixed il iu stmts = Ok p.
  Hypothesis Hwf : Forall wf_stmt stmts.

  Let shape := program_shape f gen_fixed il iu gen_sched_ok gen_ins_nonempty stmts cv G FF p Hb.
  Let names := program_banks_names f gen_fixed il iu stmts cv G FF p Hb.

  Lemma declared_program_ok : program_ok f G p.
  Proof.
    destruct names as (_ & _ & _ & _ & HW).
    apply (program_ok_ext f (widths_env gen_fixed stmts p) G p HW).
    exact (accepted_program_ok_explicit f gen_fixed il iu stmts p gen_fixed_ok gen_fixed_ok2
             gen_fixed_widths_ok Hwf Hb).
  Qed.

  Lemma constrained_declared k : constrained stmts k -> G k <> None.
  Proof.
    assert (Hd : forall w, In (k, w) (declared_widths gen_fixed cv stmts) -> G k <> None).
    { intros w Hin. apply (ff_widths _ _ _ _ _ _ _ FF) in Hin. rewrite Hin. discriminate. }
    unfold declared_widths in Hd.
    intros [H|[H|[H|[H|(ins & Hp & Hu)]]]].
    - apply (ff_cv_domain _ _ _ _ _ _ _ FF) in H. destruct (cv k) as [c|] eqn:E; [|contradiction H; reflexivity].
      apply (Hd (wd c)). apply in_or_app. right. apply in_or_app. right. apply in_or_app. right.
      unfold const_widths. apply in_flat_map. exists k. split.
      + apply (ff_cv_domain _ _ _ _ _ _ _ FF). rewrite E. discriminate.
      + rewrite E. left. reflexivity.
    - unfold bank_outputs in H. apply in_map_iff in H. destruct H as [x [<- Hx]].
      apply (Hd (reg_width x)). apply in_or_app. right. apply in_or_app. right. apply in_or_app. left.
      unfold bank_widths. apply in_or_app. left. apply in_flat_map. exists x. split; [exact Hx|].
      left. reflexivity.
    - apply (Hd (Bits 1)). apply in_or_app. right. apply in_or_app. right. apply in_or_app. left.
      unfold bank_widths. apply in_or_app. right. apply in_map_iff. exists k. split; [reflexivity | exact H].
    - apply (ff_assigned_declared _ _ _ _ _ _ _ FF). exact H.
    - destruct (port_component ins k Hp) as (c & w & Hc & _ & Ho & _).
      apply (Hd (Bits w)). apply in_or_app. left. unfold fixed_wires. apply in_flat_map.
      exists c. split; [exact Hc|]. apply in_or_app. right. rewrite Ho. left. reflexivity.
  Qed.

  Lemma computed_solution o s s1 t1 :
    state_ok G p s -> cycle_start stmts cv s ->
    exec_actions f o (p_actions p) s = Ok (s1, t1) ->
    cycle_solution f G stmts s (wire s1) /\
    (forall k, constrained stmts k ->
       exists x w, lookup (values s1) k = Some x /\ G k = Some w /\ wd x = w /\ bits x < 2 ^ nbits w).
  Proof.
    intros Hs (Hdfl & H15 & _) Hex.
    destruct (computed_sat f o G p declared_program_ok s s1 t1 Hs H15 Hex) as (HT1 & HA & _ & Hwv & Hsat).
    assert (Hkeep : forall k, In k (known0 p) -> wire s1 k = wire s k).
    { intros k Hk. unfold wire. rewrite (HA k Hk). reflexivity. }
    split.
    - apply (solution_iff_sat f il iu stmts cv G FF p Hb). split; [|exact Hsat].
      split; [|split].
      + intros n Hn. apply Hkeep. apply (known0_exact f il iu stmts cv G FF p Hb). tauto.
      + intros n Hn. apply Hkeep. apply (known0_exact f il iu stmts cv G FF p Hb). tauto.
      + intros n Hn. rewrite Hkeep by (apply (known0_exact f il iu stmts cv G FF p Hb); tauto).
        apply Hdfl. exact Hn.
    - intros k Hk.
      assert (Hv : lookup (values s1) k <> None).
      { destruct (constrained_cases f il iu stmts cv G FF p Hb k Hk) as [Hkn|(a & Ha & Hw)].
        - rewrite (HA k Hkn). destruct Hs as (Hstart & _). apply Hstart.
          unfold known0 in Hkn. apply filter_In in Hkn. exact (proj1 Hkn).
        - exact (Hwv a k Ha Hw). }
      destruct (valued_some _ _ Hv) as (x & Hx).
      pose proof (constrained_declared k Hk) as HG.
      destruct (G k) as [w|] eqn:EG; [|contradiction HG; reflexivity].
      exists x, w. split; [exact Hx|]. split; [reflexivity|].
      destruct (HT1 k x w Hx EG) as (Hwd & Hfit & _). split; [exact Hwd|].
      rewrite Hwd in Hfit. exact Hfit.
  Qed.

  Lemma bank_outputs_all_outs : all_outs (p_banks p) = bank_outputs stmts.
  Proof. exact (proj1 names). Qed.
End Gen3.

Theorem declared_widths_type_the_program_holds : stmt_declared_widths_type_the_program.
Proof.
  intros f il iu stmts p cv G Hwf Hb FF. exact (declared_program_ok f il iu stmts cv G FF p Hb Hwf).
Qed.

Theorem accepted_has_declared_widths_holds : stmt_accepted_has_declared_widths.
Proof.
  intros f il iu stmts p Hwf Hb.
  destruct (accepted_fault_free_gen_holds f il iu stmts p Hb) as (cv & G & FF).
  exists cv, G. split; [exact FF|]. exact (declared_program_ok f il iu stmts cv G FF p Hb Hwf).
Qed.

Theorem cycle_solution_exists_and_is_computed_holds : stmt_cycle_solution_exists_and_is_computed.
Proof.
  intros f il iu o stmts p cv G s s' t Hwf Hb FF Hs Hcs Hstep.
  destruct (step_inv f o p s s' t Hstep) as (s1 & t1 & v2 & Ha & Hpb & ->).
  exists s1, t1. split; [exact Ha|].
  destruct (computed_solution f il iu stmts cv G FF p Hb Hwf o s s1 t1 Hs Hcs Ha) as (Hsol & Hty).
  split; [exact Hsol|]. split; [|exact Hty].
  intros k Hk. cbn [values].
  pose proof (declared_program_ok f il iu stmts cv G FF p Hb Hwf) as (_ & _ & Hbwf & _).
  apply (proj2 (clock_edge_ok (p_banks p) (values s1) v2 Hbwf Hpb)).
  rewrite (bank_outputs_all_outs f il iu stmts cv G FF p Hb). exact Hk.
Qed.

Theorem computed_is_the_solution_holds : stmt_computed_is_the_solution.
Proof.
  intros f il iu o stmts p cv G s s1 t1 v Hwf Hb FF Hs Hcs Hex Hv k Hk.
  destruct (computed_solution f il iu stmts cv G FF p Hb Hwf o s s1 t1 Hs Hcs Hex) as (Hsol & _).
  exact (solutions_agree f il iu stmts cv G FF p Hb s (wire s1) v Hsol Hv k Hk).
Qed.

(* ================================================================================== *)
(* Part 6: the start-of-cycle invariant; the next state from the solution               *)
(* ================================================================================== *)
Lemma sapp_inj_l (a b c : string) : (a ++ b = a ++ c)%string -> b = c.
Proof. induction a as [|x a IH]; cbn; intros H; [exact H | injection H as H; apply IH, H]. Qed.

Lemma NoDup_flat_map_In {A B} (g : A -> list B) (l : list A) a :
  NoDup (flat_map g l) -> In a l -> NoDup (g a).
Proof.
  induction l as [|x l IH]; cbn [flat_map]; intros Hnd Hin; [destruct Hin|].
  destruct Hin as [<-|Hin].
  - exact (BuildProofs.NoDup_app_l _ _ Hnd).
  - apply IH; [exact (NoDup_app_r _ _ Hnd) | exact Hin].
Qed.

Lemma bool_eq_iff (a b : bool) : (a = true <-> b = true) -> a = b.
Proof. destruct a, b; intros [H1 H2]; try reflexivity; [symmetry; apply H1 | apply H2]; reflexivity. Qed.

(* the defaults table of a bank *)
Section Defaults.
  Variable f : features.
  Variable rho : string -> option wval.
  Variable o : string.

  Definition reg_key (r : string * width * expr) : string := (o ++ "_" ++ fst (fst r))%string.

  Lemma dfl_keep key x : forall regs dfl,
    lookup dfl key = Some x ->
    (forall r d, In r regs -> reg_key r = key -> eval f rho (snd r) = Ok d -> as_width (snd (fst r)) d = x) ->
    lookup (fold_left (dfl_step f rho o) regs dfl) key = Some x.
  Proof.
    induction regs as [|r regs IH]; intros dfl Hl Hsame; cbn [fold_left]; [exact Hl|].
    apply IH; [|intros r' d Hr'; apply Hsame; right; exact Hr'].
    unfold dfl_step. destruct (eval f rho (snd r)) as [d|es] eqn:Ee; [|exact Hl].
    rewrite lookup_upd. destruct (String.eqb key (o ++ "_" ++ fst (fst r))) eqn:E; [|exact Hl].
    apply String.eqb_eq in E. f_equal. apply (Hsame r d (or_introl eq_refl)); [symmetry; exact E | exact Ee].
  Qed.

  Lemma dfl_lookup r d : forall regs dfl,
    In r regs -> eval f rho (snd r) = Ok d ->
    (forall r', In r' regs -> reg_key r' = reg_key r -> r' = r) ->
    lookup (fold_left (dfl_step f rho o) regs dfl) (reg_key r) = Some (as_width (snd (fst r)) d).
  Proof.
    induction regs as [|r0 regs IH]; intros dfl Hin He Huniq; [destruct Hin|].
    cbn [fold_left]. destruct Hin as [->|Hin].
    - apply dfl_keep.
      + unfold dfl_step. rewrite He. apply lookup_upd_same.
      + intros r' d' Hr' Hk He'. rewrite (Huniq r' (or_intror Hr') Hk) in He' |- *.
        rewrite He in He'. injection He' as <-. reflexivity.
    - apply IH; [exact Hin | exact He |]. intros r' Hr'. apply Huniq. right. exact Hr'.
  Qed.
End Defaults.

Lemma apply_effect_keeps_status W st a :
  is_status a = false -> snd (apply_effect W st a) = snd st.
Proof.
  destruct st as [[m r] ls].
  destruct a as [name e w0|num outp|en addr outp n isi|num inp|en addr inp n|sw];
    cbn [is_status apply_effect]; intros H; try reflexivity; try discriminate H.
  - destruct (lookup W num); [|reflexivity]. destruct (lookup W inp); reflexivity.
  - destruct (enabled W en) as [[|]|]; try reflexivity.
    destruct (lookup W addr); [|reflexivity]. destruct (lookup W inp); reflexivity.
Qed.

Lemma fold_effects_keep_status W : forall l st,
  (forall a, In a l -> is_status a = false) ->
  snd (fold_left (apply_effect W) l st) = snd st.
Proof.
  induction l as [|a l IH]; intros st H; [reflexivity|]. cbn [fold_left].
  rewrite IH by (intros b Hb; apply H; right; exact Hb).
  apply apply_effect_keeps_status. apply H. left. reflexivity.
Qed.

Lemma gen_action_inj c c' : In c gen_fixed -> In c' gen_fixed -> ff_action c = ff_action c' -> c = c'.
Proof.
  cbn [gen_fixed In]. intros Hc Hc'.
  repeat (destruct Hc as [<-|Hc]); try contradiction;
    repeat (destruct Hc' as [<-|Hc']); try contradiction; cbn [ff_action]; intros H;
    try reflexivity; discriminate H.
Qed.

Section Gen4.
  Variable f : features.
  Variable il iu : string -> bool.
  Variable stmts : list stmt.
  Variable cv : string -> option wval.
  Variable G : string -> option width.
  Hypothesis FF : fault_free_with f gen_fixed il iu cv G stmts.
  Variable p : program.
  Hypothesis Hb : build_program f gen_fixed il iu stmts = Ok p.
  Hypothesis Hwf : Forall wf_stmt stmts.

  Let shape := program_shape f gen_fixed il iu gen_sched_ok gen_ins_nonempty stmts cv G FF p Hb.
  Let names := program_banks_names f gen_fixed il iu stmts cv G FF p Hb.
  Let Hp : program_ok f G p := declared_program_ok f il iu stmts cv G FF p Hb Hwf.

  Lemma uses_table_p : uses_table p.
  Proof. exact (proj1 (proj2 (accepted_program_runs_holds f il iu stmts p Hwf Hb))). Qed.

  Lemma port_in_use c : In c gen_fixed ->
    (In (ff_action c) (p_actions p) <-> uses stmts (fixed_in_names c) = true).
  Proof.
    destruct shape as (_ & _ & _ & _ & _ & A2 & A3).
    intros Hc. split.
    - intros Hin. destruct (A3 _ Hin) as [(n & e & w & He & _)|(c' & Hc' & Hia & He)].
      + exfalso. cbn [gen_fixed In] in Hc.
        repeat (destruct Hc as [<-|Hc]; [discriminate He|]). contradiction.
      + rewrite (gen_action_inj c c' Hc Hc' He). apply uses_iff. exact Hia.
    - intros Hu. apply A2; [exact Hc|]. unfold inputs_assigned. apply uses_iff. exact Hu.
  Qed.

  Lemma special_not_output k : In k (bank_specials stmts) -> ~ In k (bank_outputs stmts).
  Proof.
    intros H1 H2. pose proof (bank_signal_like stmts k (In_bank_outputs_sig stmts k H2)) as E1.
    pose proof (bank_special_unlike stmts k H1) as E2. congruence.
  Qed.

  Lemma const_not_output k : In k (const_names stmts) -> ~ In k (bank_outputs stmts).
  Proof.
    intros H1 H2. apply (ff_bank_signals_undeclared _ _ _ _ _ _ _ FF k).
    - apply in_or_app. left. apply In_bank_outputs_sig. exact H2.
    - apply in_or_app. left. exact H1.
  Qed.

  (* ---- the invariant ---- *)
  Lemma cycle_start_initial s0 img :
    initial_state p = Ok s0 -> wf_mem img ->
    state_ok G p (load_image s0 img) /\ cycle_start stmts cv (load_image s0 img).
  Proof.
    intros Hi Himg.
    destruct (initial_state_safe_ok f G p Hp) as (s0' & Hi' & Hs0). rewrite Hi in Hi'. injection Hi' as <-.
    split; [apply load_image_ok; assumption|].
    pose proof Hp as (_ & _ & Hbwf & _ & _ & _ & _ & Hcb).
    destruct (initial_state_ok p s0 Hbwf Hi) as (_ & _ & Hregs & _ & _ & Hsp).
    destruct names as (Nout & Nin & Nsp & _). destruct shape as (Hcv & _).
    unfold cycle_start, load_image, wire. cbn [values regs]. split; [|split].
    - intros x (Hx & _). rewrite <- Nsp in Hx. apply in_flat_map in Hx. destruct Hx as (b & Hbk & Hx).
      destruct (Hsp b Hbk) as (E1 & E2). destruct Hx as [<-|[<-|[]]]; [rewrite E1 | rewrite E2]; reflexivity.
    - rewrite Hregs. reflexivity.
    - intros n c Hc.
      assert (Hn : In n (map fst (p_consts p))).
      { apply (const_keys f il iu stmts cv G FF p Hb). apply (ff_cv_domain _ _ _ _ _ _ _ FF).
        rewrite Hc. discriminate. }
      destruct (Hcb n Hn) as (C1 & C2 & C3).
      unfold initial_state in Hi.
      destruct (init_banks (p_consts p) (p_banks p)) as [v0|e] eqn:E; cbn [bind] in Hi; [|discriminate Hi].
      injection Hi as <-. cbn [values].
      destruct (init_banks_spec _ _ _ Hbwf E) as (_ & _ & I3 & _).
      rewrite (I3 n C1 C2 C3), Hcv. exact Hc.
  Qed.

  Lemma cycle_start_step o s s' t :
    state_ok G p s -> cycle_start stmts cv s -> step f o p s = Ok (s', t) ->
    state_ok G p s' /\ cycle_start stmts cv s'.
  Proof.
    intros Hs (Hdfl & H15 & Hcs) Hstep.
    pose proof (step_safe_ok f o G p s Hp Hs) as Hsafe. rewrite Hstep in Hsafe.
    split; [exact Hsafe|].
    destruct (cycle_facts f o G p Hp s s' t Hs Hstep)
      as (_ & s1 & t1 & _ & _ & _ & _ & Hsame & _ & _ & Hknown & _).
    rewrite (bank_outputs_all_outs f il iu stmts cv G FF p Hb) in Hsame.
    assert (Hkeep : forall k, In k (known0 p) -> ~ In k (bank_outputs stmts) ->
                              lookup (values s') k = lookup (values s) k).
    { intros k Hk Hno. rewrite (Hsame k Hno). apply Hknown. exact Hk. }
    split; [|split].
    - intros x Hx. unfold wire. rewrite Hkeep.
      + apply Hdfl. exact Hx.
      + apply (known0_exact f il iu stmts cv G FF p Hb). tauto.
      + apply special_not_output. exact (proj1 Hx).
    - destruct (cycle_mem_regs f o G p Hp uses_table_p s s' t Hs Hstep) as (_ & _ & Hr & _).
      destruct Hs as (_ & _ & HL & _).
      pose proof (rf_apply_15 (reg_writes_of p s') (regs s) HL) as H.
      unfold rf_read in H. rewrite HL in H. cbn in H. specialize (H H15).
      rewrite Hr.
      assert (HL' : List.length (rf_apply (regs s) (reg_writes_of p s')) = 16%nat)
        by (apply rf_apply_length; exact HL).
      unfold rf_read in H. rewrite HL' in H. exact H.
    - intros n c Hc. rewrite Hkeep; [exact (Hcs n c Hc)| |].
      + apply (known0_exact f il iu stmts cv G FF p Hb). left.
        apply (ff_cv_domain _ _ _ _ _ _ _ FF). rewrite Hc. discriminate.
      + apply const_not_output. apply (ff_cv_domain _ _ _ _ _ _ _ FF). rewrite Hc. discriminate.
  Qed.
End Gen4.

Theorem cycle_start_invariant_holds : stmt_cycle_start_invariant.
Proof.
  intros f il iu o stmts p cv G Hwf Hb FF. split.
  - intros s0 img Hi Himg. exact (cycle_start_initial f il iu stmts cv G FF p Hb Hwf s0 img Hi Himg).
  - intros s s' t Hs Hcs Hstep. exact (cycle_start_step f il iu stmts cv G FF p Hb Hwf o s s' t Hs Hcs Hstep).
Qed.

Section Gen5.
  Variable f : features.
  Variable il iu : string -> bool.
  Variable stmts : list stmt.
  Variable cv : string -> option wval.
  Variable G : string -> option width.
  Hypothesis FF : fault_free_with f gen_fixed il iu cv G stmts.
  Variable p : program.
  Hypothesis Hb : build_program f gen_fixed il iu stmts = Ok p.
  Hypothesis Hwf : Forall wf_stmt stmts.
  Variable o : options.
  Variables s s' : mstate.
  Variable t : string.
  Hypothesis Hs : state_ok G p s.
  Hypothesis Hcs : cycle_start stmts cv s.
  Hypothesis Hstep : step f o p s = Ok (s', t).
  Variable v : wire_map.
  Hypothesis Hv : cycle_solution f G stmts s v.

  Let shape := program_shape f gen_fixed il iu gen_sched_ok gen_ins_nonempty stmts cv G FF p Hb.
  Let names := program_banks_names f gen_fixed il iu stmts cv G FF p Hb.
  Let Hp : program_ok f G p := declared_program_ok f il iu stmts cv G FF p Hb Hwf.
  Let Ht : uses_table p := uses_table_p f il iu stmts p Hb Hwf.

  (* after the clock edge every constrained wire that is not a bank output shows its solution value *)
  Lemma after_edge_value k : constrained stmts k -> ~ In k (bank_outputs stmts) ->
    wire s' k = v k /\ exists x w, lookup (values s') k = Some x /\ G k = Some w /\ wd x = w /\ bits x < 2 ^ nbits w.
  Proof.
    intros Hk Hno.
    destruct (cycle_solution_exists_and_is_computed_holds f il iu o stmts p cv G s s' t Hwf Hb FF Hs Hcs Hstep)
      as (s1 & t1 & Hex & Hsol & Hsame & Hty).
    split.
    - unfold wire. rewrite (Hsame k Hno).
      exact (solutions_agree f il iu stmts cv G FF p Hb s (wire s1) v Hsol Hv k Hk).
    - rewrite (Hsame k Hno). exact (Hty k Hk).
  Qed.

  Lemma used_wire ins k : uses stmts ins = true -> In k ins -> In k (fixed_names gen_fixed) -> wire s' k = v k.
  Proof.
    intros Hu Hin Hfx. apply after_edge_value.
    - right. right. right. left. apply (proj1 (uses_iff stmts ins) Hu k Hin).
    - exact (proj1 (gen_name_not_bank stmts k Hfx)).
  Qed.

  Lemma has_mem_write_uses : has_mem_write p = uses stmts ["mem_addr"; "mem_input"; "mem_writebit"].
  Proof.
    apply bool_eq_iff. rewrite (proj1 (port_tests_hold p Ht)).
    apply (port_in_use f il iu stmts cv G FF p Hb
             (nth 3 gen_fixed (mkFixed "" [] None None false (ASetStatus "")))). cbn. tauto.
  Qed.

  Lemma has_writeE_uses : has_reg_write "reg_dstE" p = uses stmts ["reg_dstE"; "reg_inputE"].
  Proof.
    apply bool_eq_iff. rewrite (proj1 (proj2 (port_tests_hold p Ht))).
    apply (port_in_use f il iu stmts cv G FF p Hb
             (nth 6 gen_fixed (mkFixed "" [] None None false (ASetStatus "")))). cbn. tauto.
  Qed.

  Lemma has_writeM_uses : has_reg_write "reg_dstM" p = uses stmts ["reg_dstM"; "reg_inputM"].
  Proof.
    apply bool_eq_iff. rewrite (proj2 (proj2 (port_tests_hold p Ht))).
    apply (port_in_use f il iu stmts cv G FF p Hb
             (nth 7 gen_fixed (mkFixed "" [] None None false (ASetStatus "")))). cbn. tauto.
  Qed.

  Lemma next_regs_ok : regs s' = next_regs stmts v (regs s).
  Proof.
    destruct (cycle_mem_regs f o G p Hp Ht s s' t Hs Hstep) as (_ & _ & Hr & _).
    rewrite Hr. unfold reg_writes_of, next_regs, rf_apply. rewrite has_writeE_uses, has_writeM_uses.
    destruct (uses stmts ["reg_dstE"; "reg_inputE"]) eqn:EE;
      destruct (uses stmts ["reg_dstM"; "reg_inputM"]) eqn:EM; cbn [app fold_left fst snd];
      rewrite ?(used_wire _ "reg_dstE" EE), ?(used_wire _ "reg_inputE" EE),
              ?(used_wire _ "reg_dstM" EM), ?(used_wire _ "reg_inputM" EM);
      try reflexivity; cbn; tauto.
  Qed.

  Lemma next_mem_ok : mem s' = next_mem stmts v (mem s).
  Proof.
    destruct (cycle_mem_regs f o G p Hp Ht s s' t Hs Hstep) as (Hm & _).
    rewrite Hm. unfold mem_write_of, next_mem. rewrite has_mem_write_uses.
    destruct (uses stmts ["mem_addr"; "mem_input"; "mem_writebit"]) eqn:EU; cbn [andb]; [|reflexivity].
    rewrite (used_wire _ "mem_writebit" EU), (used_wire _ "mem_addr" EU), (used_wire _ "mem_input" EU);
      try (cbn; tauto).
    replace (0 <? v "mem_writebit") with (negb (v "mem_writebit" =? 0)) by lia.
    destruct (negb (v "mem_writebit" =? 0)); reflexivity.
  Qed.

  Lemma stat_used : uses stmts ["Stat"] = true.
  Proof.
    apply uses_iff.
    apply (ff_mandatory_driven _ _ _ _ _ _ _ FF
             (nth 0 gen_fixed (mkFixed "" [] None None false (ASetStatus "")))); [cbn; tauto | reflexivity].
  Qed.

  Lemma next_status_ok : last_status s' = Some (v "Stat").
  Proof.
    destruct (step_inv f o p s s' t Hstep) as (s1 & t1 & v2 & Ha & Hpb & Es').
    pose proof Hp as (Hty & Hvalid & _).
    destruct (settles_lazy f o (known0 p) (p_actions p) s s1 t1 Hvalid Ha) as (_ & _ & HC).
    rewrite (effects_shape p (proj1 Ht)) in HC.
    assert (Hin : In port_status (p_actions p)).
    { apply (port_in_use f il iu stmts cv G FF p Hb
               (nth 0 gen_fixed (mkFixed "" [] None None false (ASetStatus "")))); [cbn; tauto | exact stat_used]. }
    assert (Hhs : existsb is_status (p_actions p) = true).
    { apply existsb_exists. exists port_status. split; [exact Hin | reflexivity]. }
    rewrite Hhs in HC. cbn [opt1 app fold_left] in HC.
    assert (Hst : last_status s1 = snd (apply_effect (values s1) (mem s, regs s, last_status s) port_status)).
    { apply (f_equal snd) in HC. cbn [snd] in HC. rewrite HC.
      apply fold_effects_keep_status. intros a Hain.
      apply in_app_iff in Hain. destruct Hain as [Hain|Hain];
        [|apply in_app_iff in Hain; destruct Hain as [Hain|Hain]];
        match goal with H : In a (opt1 ?h _) |- _ => destruct h; cbn [opt1 In] in H;
          [destruct H as [<-|[]]; reflexivity | destruct H] end. }
    assert (Hstat : constrained stmts "Stat").
    { right. right. right. left. apply (proj1 (uses_iff stmts ["Stat"]) stat_used). left. reflexivity. }
    destruct (computed_solution f il iu stmts cv G FF p Hb Hwf o s s1 t1 Hs Hcs Ha) as (Hsol & Htyp).
    destruct (Htyp "Stat" Hstat) as (x & w & Hx & HGw & Hwd & Hlt).
    pose proof (Hty port_status Hin) as HG3. cbn [action_typed port_status] in HG3.
    rewrite HG3 in HGw. injection HGw as <-. cbn [nbits bits_or_128] in Hlt. change (2 ^ 3) with 8 in Hlt.
    rewrite Es'. cbn [last_status]. rewrite Hst. cbn [apply_effect port_status]. rewrite Hx. cbn [snd].
    rewrite <- (solutions_agree f il iu stmts cv G FF p Hb s (wire s1) v Hsol Hv "Stat" Hstat).
    rewrite (wire_bits _ _ _ Hx). f_equal. apply N.mod_small. lia.
  Qed.

  Lemma next_bank_ok b i o0 name w init :
    In b (bank_decls stmts) -> bank_letters (fst b) = Some (i, o0) -> In (name, w, init) (snd b) ->
    exists d, eval f cv init = Ok d /\
      wire s' (o0 ++ "_" ++ name)%string =
        if negb (v ("bubble_" ++ o0)%string =? 0) then bits d mod 2 ^ nbits w
        else if negb (v ("stall_" ++ o0)%string =? 0) then wire s (o0 ++ "_" ++ name)%string
        else v (i ++ "_" ++ name)%string.
  Proof.
    intros Hbd Hl Hr.
    pose proof (In_bank_regs stmts b i o0 (name, w, init) Hbd Hl Hr) as Hx. cbn [fst snd] in Hx.
    destruct (ff_init_eval _ _ _ _ _ _ _ FF _ Hx) as (d & Hd & _). cbn [reg_init snd] in Hd.
    exists d. split; [exact Hd|].
    destruct shape as (_ & _ & Hbanks & _).
    set (bk := bank_of f cv b).
    assert (Hbk : In bk (p_banks p)) by (rewrite Hbanks; apply in_map; exact Hbd).
    assert (Ebk : bk = mkBank (fst b) (map (reg_sig i o0) (snd b)) (fold_left (dfl_step f cv o0) (snd b) [])
                              ("stall_" ++ o0)%string ("bubble_" ++ o0)%string).
    { unfold bk, bank_of. rewrite Hl. reflexivity. }
    assert (Hsig : In ((i ++ "_" ++ name)%string, (o0 ++ "_" ++ name)%string, w) (b_signals bk)).
    { rewrite Ebk. cbn [b_signals]. apply in_map_iff. exists (name, w, init). split; [reflexivity | exact Hr]. }
    (* names of one bank are distinct *)
    assert (Hnd : NoDup (flat_map (reg_names i o0) (snd b))).
    { pose proof (ff_bank_signals_distinct _ _ _ _ _ _ _ FF) as H. rewrite bank_signal_names_eq in H.
      pose proof (NoDup_flat_map_In bank_names (bank_decls stmts) b H Hbd) as H'.
      unfold bank_names in H'. rewrite Hl in H'. exact H'. }
    assert (Hdfl : lookup (b_defaults bk) (o0 ++ "_" ++ name)%string = Some (as_width w d)).
    { rewrite Ebk. cbn [b_defaults].
      apply (dfl_lookup f cv o0 (name, w, init) d (snd b) [] Hr Hd).
      intros r' Hr' Hk. apply (flat_map_NoDup_unique (reg_names i o0) (snd b) r' (name, w, init)
                                 (o0 ++ "_" ++ name)%string Hnd Hr' Hr).
      - unfold reg_names. left. exact Hk.
      - left. reflexivity. }
    destruct (step_inv f o p s s' t Hstep) as (s1 & t1 & v2 & Ha & Hpb & Es').
    pose proof Hp as (_ & _ & Hbwf & _ & _ & Hsigs & _).
    destruct (proj1 (clock_edge_ok (p_banks p) (values s1) v2 Hbwf Hpb) bk _ _ w Hbk Hsig)
      as (st & bu & Est & Ebu & Eout).
    destruct (Hsigs bk _ _ w Hbk Hsig) as (_ & _ & Hww & _).
    destruct (computed_solution f il iu stmts cv G FF p Hb Hwf o s s1 t1 Hs Hcs Ha) as (Hsol & Htyp).
    assert (Hagree : forall k, constrained stmts k -> wire s1 k = v k)
      by (intros k Hk; exact (solutions_agree f il iu stmts cv G FF p Hb s (wire s1) v Hsol Hv k Hk)).
    assert (Hsp : forall k, In k [("stall_" ++ o0)%string; ("bubble_" ++ o0)%string] -> constrained stmts k).
    { intros k Hk. right. right. left. unfold bank_specials. apply in_flat_map. exists b.
      split; [exact Hbd|]. rewrite Hl. exact Hk. }
    rewrite Ebk in Est, Ebu. cbn [b_stall b_bubble] in Est, Ebu.
    rewrite <- (Hagree _ (Hsp _ (or_intror (or_introl eq_refl)))).
    rewrite <- (Hagree _ (Hsp _ (or_introl eq_refl))).
    rewrite (wire_bits _ _ _ Est), (wire_bits _ _ _ Ebu).
    rewrite Es'. unfold wire at 1. cbn [values]. rewrite Eout. unfold is_true.
    replace (negb (bits bu =? 0)) with (0 <? bits bu) by lia.
    replace (negb (bits st =? 0)) with (0 <? bits st) by lia.
    destruct (0 <? bits bu).
    - rewrite Hdfl. exact (proj1 (assign_truncates w d Hww)).
    - destruct (0 <? bits st).
      + fold (wire s1 (o0 ++ "_" ++ name)%string).
        assert (Hout : In (o0 ++ "_" ++ name)%string (bank_outputs stmts)).
        { unfold bank_outputs. apply in_map_iff. eexists. split; [|exact Hx]. reflexivity. }
        rewrite (Hagree _ (or_intror (or_introl Hout))).
        apply (sol_bank_output _ _ _ _ _ Hv). exact Hout.
      + fold (wire s1 (i ++ "_" ++ name)%string). apply Hagree.
        right. right. right. left. apply (ff_all_driven _ _ _ _ _ _ _ FF). apply in_or_app. right.
        unfold bank_inputs. apply in_map_iff. eexists. split; [|exact Hx]. reflexivity.
  Qed.
End Gen5.

Theorem next_state_from_solution_holds : stmt_next_state_from_solution.
Proof.
  intros f il iu o stmts p cv G s s' t v Hwf Hb FF Hs Hcs Hstep Hv.
  split; [exact (next_regs_ok f il iu stmts cv G FF p Hb Hwf o s s' t Hs Hcs Hstep v Hv)|].
  split; [exact (next_mem_ok f il iu stmts cv G FF p Hb Hwf o s s' t Hs Hcs Hstep v Hv)|].
  split; [exact (next_status_ok f il iu stmts cv G FF p Hb Hwf o s s' t Hs Hcs Hstep v Hv)|].
  split; [exact (step_cycle_ok f o p s s' t Hstep)|].
  split.
  - intros b i o0 name w init Hbd Hl Hr.
    exact (next_bank_ok f il iu stmts cv G FF p Hb Hwf o s s' t Hs Hcs Hstep v Hv b i o0 name w init Hbd Hl Hr).
  - intros k Hk Hno.
    exact (proj1 (after_edge_value f il iu stmts cv G FF p Hb Hwf o s s' t Hs Hcs Hstep v Hv k Hk Hno)).
Qed.

(* ================================================================================== *)
(* Part 7: statement order; division by zero                                            *)
(* ================================================================================== *)
Lemma solution_perm f G stmts stmts' s v :
  Permutation stmts stmts' -> cycle_solution f G stmts s v -> cycle_solution f G stmts' s v.
Proof.
  intros HP S. pose proof (Permutation_sym HP) as HP'.
  assert (Hu : forall ins, uses stmts' ins = true -> uses stmts ins = true).
  { intros ins H. apply uses_iff. intros i Hi.
    apply (Permutation_in _ (perm_assigned_names _ _ HP')). apply (proj1 (uses_iff stmts' ins) H i Hi). }
  constructor.
  - intros n Hn. apply (sol_const _ _ _ _ _ S). exact (Permutation_in _ (perm_const_names _ _ HP') Hn).
  - intros n Hn. apply (sol_bank_output _ _ _ _ _ S). exact (Permutation_in _ (perm_bank_outputs _ _ HP') Hn).
  - intros n (H1 & H2). apply (sol_unassigned_control _ _ _ _ _ S). split.
    + exact (Permutation_in _ (perm_bank_specials _ _ HP') H1).
    + intros H. apply H2. exact (Permutation_in _ (perm_assigned_names _ _ HP) H).
  - intros n e w Hne HG. apply (sol_assign _ _ _ _ _ S n e w); [|exact HG].
    exact (Permutation_in _ (perm_assign_exprs _ _ HP') Hne).
  - intros H. apply (sol_reg_outputA _ _ _ _ _ S). apply Hu. exact H.
  - intros H. apply (sol_reg_outputB _ _ _ _ _ S). apply Hu. exact H.
  - intros H. apply (sol_mem_output _ _ _ _ _ S). apply Hu. exact H.
  - intros H. apply (sol_i10bytes _ _ _ _ _ S). apply Hu. exact H.
Qed.

Theorem solution_order_free_holds : stmt_solution_order_free.
Proof.
  intros f G stmts stmts' s v HP. split.
  - apply solution_perm. exact HP.
  - apply solution_perm. apply Permutation_sym. exact HP.
Qed.

(* a failing run of actions: the first action that fails *)
Lemma exec_actions_fail f o : forall acts s es,
  exec_actions f o acts s = Err es ->
  exists acts1 a acts2 sm tm,
    acts = acts1 ++ a :: acts2 /\ exec_actions f o acts1 s = Ok (sm, tm) /\ exec_action f o a sm = Err es.
Proof.
  induction acts as [|a r IH]; intros s es H; cbn [exec_actions] in H; [discriminate H|].
  destruct (exec_action f o a s) as [[s1 t1]|e1] eqn:E1; cbn [bind fst snd] in H.
  - destruct (exec_actions f o r s1) as [[s2 t2]|e2] eqn:E2; cbn [bind] in H; [discriminate H|].
    injection H as <-. destruct (IH s1 e2 E2) as (acts1 & a' & acts2 & sm & tm & -> & Hex & Hf).
    exists (a :: acts1), a', acts2, sm, (t1 ++ tm)%string. split; [reflexivity|]. split; [|exact Hf].
    cbn [exec_actions]. rewrite E1. cbn [bind fst snd]. rewrite Hex. reflexivity.
  - injection H as <-. exists [], a, r, s, "". split; [reflexivity|]. split; [reflexivity | exact E1].
Qed.

(* only an assignment can report a division by zero *)
Lemma exec_action_div_zero f o a s :
  exec_action f o a s = Err [mkErr DivisionByZero []] ->
  exists n e w, a = AAssign n e w /\ eval f (lookup (values s)) e = Err [mkErr DivisionByZero []].
Proof.
  intros H.
  destruct a as [name e w0|num outp|en addr outp n isi|num inp|en addr inp n|sw].
  - exists name, e, w0. split; [reflexivity|]. unfold exec_action in H.
    destruct (eval f (lookup (values s)) e) as [v0|es]; cbn [bind] in H; [discriminate H|].
    injection H as ->. reflexivity.
  - exfalso. revert H. unfold exec_action, get_value, err1.
    destruct (lookup (values s) num); cbn [bind]; [|intros H; discriminate H].
    destruct (_ <? _); intros H; discriminate H.
  - exfalso. revert H. unfold exec_action, enabled, get_value, err1.
    destruct en as [w|]; cbn [bind].
    + destruct (lookup (values s) w); cbn [bind]; [|intros H; discriminate H].
      destruct (is_true _); [|intros H; discriminate H].
      destruct (lookup (values s) addr); cbn [bind]; [|intros H; discriminate H].
      destruct (16 <? n); intros H; discriminate H.
    + destruct (lookup (values s) addr); cbn [bind]; [|intros H; discriminate H].
      destruct (16 <? n); intros H; discriminate H.
  - exfalso. revert H. unfold exec_action, get_value, err1.
    destruct (lookup (values s) num); cbn [bind]; [|intros H; discriminate H].
    destruct (_ && _); [|intros H; discriminate H].
    destruct (lookup (values s) inp); cbn [bind]; intros H; discriminate H.
  - exfalso. revert H. unfold exec_action, enabled, get_value, err1.
    destruct en as [w|]; cbn [bind].
    + destruct (lookup (values s) w); cbn [bind]; [|intros H; discriminate H].
      destruct (is_true _); [|intros H; discriminate H].
      destruct (lookup (values s) addr); cbn [bind]; [|intros H; discriminate H].
      destruct (lookup (values s) inp); cbn [bind]; [|intros H; discriminate H].
      destruct (16 <? n); intros H; discriminate H.
    + destruct (lookup (values s) addr); cbn [bind]; [|intros H; discriminate H].
      destruct (lookup (values s) inp); cbn [bind]; [|intros H; discriminate H].
      destruct (16 <? n); intros H; discriminate H.
  - exfalso. revert H. unfold exec_action, get_value, err1.
    destruct (lookup (values s) sw); cbn [bind]; intros H; discriminate H.
Qed.

(* a prefix of a valid schedule is valid, and what follows reads only known or written wires *)
Lemma valid_split : forall l1 known l2,
  valid_schedule known (l1 ++ l2) = true ->
  valid_schedule known l1 = true /\
  exists known', (forall k, In k known' <-> In k known \/ exists a, In a l1 /\ written a = Some k) /\
                 valid_schedule known' l2 = true.
Proof.
  induction l1 as [|a l1 IH]; intros known l2 H.
  - split; [reflexivity|]. exists known. split; [|exact H].
    intros k. split; [intros Hk; left; exact Hk | intros [Hk|(a & [] & _)]; exact Hk].
  - cbn [app] in H. destruct (written a) as [w|] eqn:Ew.
    + destruct (valid_cons_pure _ _ _ _ H Ew) as (Hr & Hnk & Hv').
      destruct (IH (w :: known) l2 Hv') as (I1 & known' & I2 & I3).
      split.
      * cbn [valid_schedule]. rewrite Ew, I1.
        apply SchedProofs.mem_str_false in Hnk. rewrite Hnk. cbn [negb andb].
        rewrite andb_true_r. apply forallb_forall. intros n Hn. apply SchedProofs.mem_str_In. apply Hr, Hn.
      * exists known'. split; [|exact I3]. intros k. rewrite I2. cbn [In]. split.
        -- intros [[<-|Hk]|(b & Hb & Hw)].
           ++ right. exists a. split; [left; reflexivity | exact Ew].
           ++ left. exact Hk.
           ++ right. exists b. split; [right; exact Hb | exact Hw].
        -- intros [Hk|(b & [<-|Hb] & Hw)].
           ++ left. right. exact Hk.
           ++ left. left. congruence.
           ++ right. exists b. split; assumption.
    + destruct (valid_cons_effect _ _ _ H Ew) as (Hr & Heff & Hv').
      destruct (IH known l2 Hv') as (I1 & known' & I2 & I3).
      split.
      * cbn [valid_schedule]. rewrite Ew.
        apply andb_true_iff. split.
        -- apply forallb_forall. intros n Hn. apply SchedProofs.mem_str_In. apply Hr, Hn.
        -- cbn [valid_schedule] in H. rewrite Ew in H. apply andb_true_iff in H. destruct H as (_ & H).
           rewrite forallb_forall in H. apply forallb_forall. intros b Hb. apply H.
           apply in_or_app. left. exact Hb.
      * exists known'. split; [|exact I3]. intros k. rewrite I2. split.
        -- intros [Hk|(b & Hb & Hw)]; [left; exact Hk|]. right. exists b. split; [right; exact Hb | exact Hw].
        -- intros [Hk|(b & [<-|Hb] & Hw)]; [left; exact Hk | congruence |].
           right. exists b. split; assumption.
Qed.

Lemma gen_output_port c k w : In c gen_fixed -> ff_out c = Some (k, w) ->
  In (fixed_in_names c, k) ports_with_output.
Proof.
  cbn [gen_fixed In]. intros Hc.
  repeat (destruct Hc as [<-|Hc]; [cbn [ff_out]; intros H; try discriminate H; injection H as <- _; cbn; tauto|]).
  contradiction.
Qed.

Section Gen6.
  Variable f : features.
  Variable il iu : string -> bool.
  Variable stmts : list stmt.
  Variable cv : string -> option wval.
  Variable G : string -> option width.
  Hypothesis FF : fault_free_with f gen_fixed il iu cv G stmts.
  Variable p : program.
  Hypothesis Hb : build_program f gen_fixed il iu stmts = Ok p.
  Hypothesis Hwf : Forall wf_stmt stmts.
  Variable o : options.
  Variable s : mstate.
  Hypothesis Hs : state_ok G p s.
  Hypothesis Hcs : cycle_start stmts cv s.
  Variable v : wire_map.
  Hypothesis Hv : cycle_solution f G stmts s v.

  Let shape := program_shape f gen_fixed il iu gen_sched_ok gen_ins_nonempty stmts cv G FF p Hb.
  Let Hp : program_ok f G p := declared_program_ok f il iu stmts cv G FF p Hb Hwf.

  Lemma reads_constrained n e k : In (n, e) (assign_exprs stmts) -> In k (refs e) -> constrained stmts k.
  Proof.
    intros Hne Hk.
    destruct (ff_reads_driven _ _ _ _ _ _ _ FF n e k Hne Hk) as [H|[H|[H|[H|(c & w & Hc & Ho & Hia)]]]].
    - left. exact H.
    - right. left. exact H.
    - right. right. left. exact H.
    - right. right. right. left. exact H.
    - right. right. right. right. exists (fixed_in_names c). split.
      + exact (gen_output_port c k w Hc Ho).
      + apply uses_iff. exact Hia.
  Qed.

  (* a state reached by running a prefix of the schedule shows the solution's values, at the
     declared widths, on every wire that is known or already written *)
  Lemma prefix_shows_solution acts1 acts2 sm tm :
    p_actions p = acts1 ++ acts2 -> exec_actions f o acts1 s = Ok (sm, tm) ->
    forall k, constrained stmts k ->
      (In k (known0 p) \/ exists a, In a acts1 /\ written a = Some k) ->
      lookup (values sm) k = typed_env G v k.
  Proof.
    intros Esplit Hex k Hk Hwhere.
    pose proof Hp as (Hty & Hvalid & _).
    rewrite Esplit in Hvalid. destruct (valid_split _ _ _ Hvalid) as (Hv1 & _).
    pose proof Hs as (_ & HT & HL & HF & HW).
    destruct Hcs as (Hdfl & H15 & _).
    assert (Hty1 : forall a, In a acts1 -> action_typed f G p a).
    { intros a Ha. apply Hty. rewrite Esplit. apply in_or_app. left. exact Ha. }
    destruct (computed_sat_gen f o G p acts1 (known0 p) s sm tm Hty1 Hv1 (known0_valued G p s Hs) HT
                (conj HL (conj HF HW)) H15 Hex) as (HTm & HA & _ & Hwv & Hsat).
    apply (solution_iff_sat f il iu stmts cv G FF p Hb) in Hv. destruct Hv as (Hst & Hsatv).
    assert (Hkn : forall k0, In k0 (known0 p) -> wire sm k0 = v k0).
    { intros k0 Hk0. unfold wire. rewrite (HA k0 Hk0). fold (wire s k0).
      destruct Hst as (S1 & S2 & S3).
      apply (known0_exact f il iu stmts cv G FF p Hb) in Hk0. destruct Hk0 as [H|[H|H]].
      - symmetry. apply S1, H.
      - symmetry. apply S2, H.
      - rewrite (S3 k0 H). apply Hdfl, H. }
    assert (Hval : wire sm k = v k /\ lookup (values sm) k <> None).
    { destruct Hwhere as [Hk0|(a & Ha & Hw)].
      - split; [apply Hkn, Hk0|]. rewrite (HA k Hk0). apply (known0_valued G p s Hs), Hk0.
      - split; [|exact (Hwv a k Ha Hw)].
        apply (sched_unique f G s (wire sm) v acts1 (known0 p) Hv1 Hkn Hsat) with (a := a); try assumption.
        intros b Hb0. apply Hsatv. rewrite Esplit. apply in_or_app. left. exact Hb0. }
    destruct Hval as (Hbits & Hne). destruct (valued_some _ _ Hne) as (x & Hx).
    pose proof (constrained_declared f il iu stmts cv G FF k Hk) as HG.
    unfold typed_env. destruct (G k) as [w|] eqn:EG; [|contradiction HG; reflexivity].
    destruct (HTm k x w Hx EG) as (Hwd & _).
    rewrite Hx. rewrite (wire_bits _ _ _ Hx) in Hbits. destruct x as [xb xw]. cbn [bits wd] in *.
    subst. reflexivity.
  Qed.

  Theorem step_fails_iff_division_by_zero :
    match step f o p s with
    | Ok _ => ~ divides_by_zero f G stmts v
    | Err es => es = [mkErr DivisionByZero []] /\ divides_by_zero f G stmts v
    end.
  Proof.
    destruct shape as (_ & _ & _ & _ & A1 & _ & A3).
    pose proof Hp as (Hty & Hvalid & _).
    destruct (step f o p s) as [[s' t]|es] eqn:Hstep.
    - intros (n & e & Hne & Hev).
      destruct (step_inv f o p s s' t Hstep) as (s1 & t1 & v2 & Ha & _ & _).
      destruct (A1 n e Hne) as (w & HGn & Hin).
      destruct (settles_lazy f o (known0 p) (p_actions p) s s1 t1 Hvalid Ha) as (HB & _ & _).
      destruct (HB _ n Hin eq_refl) as (Hval & Hnn). cbn [exec_value] in Hval.
      rewrite (eval_ext_ok f (lookup (values s1)) (typed_env G v) e) in Hval.
      + rewrite Hev in Hval. contradiction.
      + intros k Hk. apply (prefix_shows_solution (p_actions p) [] s1 t1).
        * rewrite app_nil_r. reflexivity.
        * exact Ha.
        * exact (reads_constrained n e k Hne Hk).
        * apply (constrained_cases f il iu stmts cv G FF p Hb). exact (reads_constrained n e k Hne Hk).
    - pose proof (step_safe_ok f o G p s Hp Hs) as Hsafe. rewrite Hstep in Hsafe.
      unfold div_zero_only in Hsafe. subst es. split; [reflexivity|].
      destruct (exec_actions f o (p_actions p) s) as [[s1 t1]|es] eqn:Hex.
      + exfalso. destruct (step_completes f o G p s s1 t1 Hp Hs Hex) as (v2 & tbl & _ & Hok).
        rewrite Hok in Hstep. discriminate Hstep.
      + pose proof (step_fails f o G p s es Hp Hs Hex) as _.
        destruct (exec_actions_fail f o _ _ _ Hex) as (acts1 & a & acts2 & sm & tm & Esplit & Hpre & Hfail).
        assert (Hes : es = [mkErr DivisionByZero []]).
        { unfold step in Hstep. rewrite Hex in Hstep. cbn [bind] in Hstep. injection Hstep as ->. reflexivity. }
        subst es.
        destruct (exec_action_div_zero f o a sm Hfail) as (n & e & w & -> & Hev).
        assert (Hin : In (AAssign n e w) (p_actions p))
          by (rewrite Esplit; apply in_or_app; right; left; reflexivity).
        destruct (A3 _ Hin) as [(n' & e' & w' & Heq & Hne & _)|(c & Hc & _ & Heq)].
        * injection Heq as <- <- <-. exists n, e. split; [exact Hne|].
          rewrite <- Hev. symmetry. apply eval_ext_ok. intros k Hk.
          apply (prefix_shows_solution acts1 (AAssign n e w :: acts2) sm tm Esplit Hpre).
          -- exact (reads_constrained n e k Hne Hk).
          -- rewrite Esplit in Hvalid. destruct (valid_split _ _ _ Hvalid) as (_ & known' & Hk' & Hv2).
             destruct (valid_cons_pure _ _ _ n Hv2 eq_refl) as (Hr & _).
             apply Hk'. apply Hr. exact Hk.
        * exfalso. cbn [gen_fixed In] in Hc.
          repeat (destruct Hc as [<-|Hc]; [discriminate Heq|]). contradiction.
  Qed.
End Gen6.

Theorem step_fails_iff_division_by_zero_holds : stmt_step_fails_iff_division_by_zero.
Proof.
  intros f il iu o stmts p cv G s v Hwf Hb FF Hs Hcs Hv.
  exact (step_fails_iff_division_by_zero f il iu stmts cv G FF p Hb Hwf o s Hs Hcs v Hv).
Qed.

(* ---- reordering the statements: the same values, wire by wire -------------------------------- *)
(* two accepted programs whose texts are permutations of each other, run (under any options) from
   the same state, compute the same value for every constrained wire: both compute THE solution *)
Theorem reordered_program_same_cycle_values_holds : stmt_reordered_program_same_cycle_values.
Proof.
  intros f il iu o o' stmts stmts' p p' cv G s s1 t1 s1' t1' Hwf HP Hb Hb' FF Hs Hs' Hcs Hex Hex' k Hk.
  pose proof (fault_free_with_perm f gen_fixed il iu cv G stmts stmts' HP FF) as FF'.
  assert (Hwf' : Forall wf_stmt stmts').
  { apply Forall_forall. intros x Hx. rewrite Forall_forall in Hwf. apply Hwf.
    exact (Permutation_in _ (Permutation_sym HP) Hx). }
  assert (Hcs' : cycle_start stmts' cv s).
  { destruct Hcs as (H1 & H2 & H3). split; [|split; assumption].
    intros x (X1 & X2). apply H1. split.
    - exact (Permutation_in _ (Permutation_sym (perm_bank_specials _ _ HP)) X1).
    - intros X. apply X2. exact (Permutation_in _ (perm_assigned_names _ _ HP) X). }
  destruct (computed_solution f il iu stmts cv G FF p Hb Hwf o s s1 t1 Hs Hcs Hex) as (Hsol & _).
  destruct (computed_solution f il iu stmts' cv G FF' p' Hb' Hwf' o' s s1' t1' Hs' Hcs' Hex') as (Hsol' & _).
  apply (solution_perm f G stmts' stmts s (wire s1') (Permutation_sym HP)) in Hsol'.
  exact (solutions_agree f il iu stmts cv G FF p Hb s (wire s1) (wire s1') Hsol Hsol' k Hk).
Qed.

(* ================================================================================== *)
(* Part 8: non-vacuity - a concrete accepted program (HCL text), two cycles             *)
(* ================================================================================== *)
(* a counter C_n; the register file read port selecting %rbx, its content added to the address of
   the data memory read port (disabled in cycle 1); a case expression one arm of which divides
   by zero: not selected in cycle 0 (the cycle succeeds), selected in cycle 1 (the cycle stops
   with the explicit report); the memory write port is given mem_addr and a constant-0
   mem_writebit only, so it is not in use *)
Definition sem_src : string :=
"const K = 6;
register cC { n : 64 = 0; }
wire d : 8, q : 8, big : 1;
c_n = C_n + 1;
pc = C_n * 2;
reg_srcA = 3;
mem_addr = 0x100 + reg_outputA;
mem_readbit = C_n != 1;
d = mem_output[0..8] + K;
big = d > 200;
q = [ C_n == 0 : d / K; 1 : 255 / (d - d) ];
mem_writebit = 0;
reg_dstE = 3;
reg_inputE = reg_outputA + 7;
Stat = [ q == 255 : 2; 1 : 1 ];
".

Definition sem_stmts : list stmt := hcl_text sem_src.
Definition sem_prog : program :=
  match build_program gen_features gen_fixed ascii_lower ascii_upper sem_stmts with
  | Ok p => p
  | Err _ => mkProgram [] [] [] [] []
  end.
Definition sem_img : memory := [(0x100, 50); (0x101, 0xBE)].
Definition sem_s0 : mstate :=
  load_image (match initial_state sem_prog with Ok s => s | Err _ => mkState [] [] [] None 0 end) sem_img.
Definition sem_s1 : mstate :=
  match step gen_features default_options sem_prog sem_s0 with Ok (s', _) => s' | Err _ => sem_s0 end.
(* the wire values after the actions of cycle 0 *)
Definition sem_mid : mstate :=
  match exec_actions gen_features default_options (p_actions sem_prog) sem_s0 with
  | Ok (s1, _) => s1 | Err _ => sem_s0 end.

Example sem_accepted :
  build_program gen_features gen_fixed ascii_lower ascii_upper sem_stmts = Ok sem_prog /\
  List.length (p_actions sem_prog) = 17%nat /\ List.length sem_stmts = 15%nat /\
  initial_state sem_prog <> Err [].
Proof. vm_compute. repeat split; try reflexivity. discriminate. Qed.

Example sem_wf : Forall wf_stmt sem_stmts.
Proof.
  vm_compute.
  repeat (constructor; [repeat (constructor; try (split; [|split]); try (cbv; intros; discriminate);
                                 try exact Logic.I) |]).
  constructor.
Qed.

Example sem_img_wf : wf_mem sem_img.
Proof.
  split.
  - repeat (apply Sorted.SSorted_cons; [|repeat constructor; unfold key_lt; cbn [fst]; lia]).
    apply Sorted.SSorted_nil.
  - repeat constructor; cbn [fst snd]; rewrite ?two64_lit; lia.
Qed.

(* cycle 0, computed by the model: the step succeeds although the unselected arm 255 / (d - d)
   has divisor 0; the values of all constrained wires *)
Example sem_cycle0_computed :
  (exists t, step gen_features default_options sem_prog sem_s0 = Ok (sem_s1, t)) /\
  (exists t, exec_actions gen_features default_options (p_actions sem_prog) sem_s0 = Ok (sem_mid, t)) /\
  map (fun k => (k, wire sem_mid k))
      ["K"; "C_n"; "c_n"; "stall_C"; "bubble_C"; "pc"; "i10bytes"; "reg_srcA"; "reg_outputA"; "mem_addr";
       "mem_readbit"; "mem_output"; "d"; "big"; "q"; "mem_writebit"; "reg_dstE"; "reg_inputE"; "Stat"] =
    [("K", 6); ("C_n", 0); ("c_n", 1); ("stall_C", 0); ("bubble_C", 0); ("pc", 0); ("i10bytes", 0);
     ("reg_srcA", 3); ("reg_outputA", 0); ("mem_addr", 0x100); ("mem_readbit", 1); ("mem_output", 0xBE32);
     ("d", 56); ("big", 0); ("q", 9); ("mem_writebit", 0); ("reg_dstE", 3); ("reg_inputE", 7); ("Stat", 1)] /\
  (wire sem_s1 "C_n", nth 3 (regs sem_s1) 0, last_status sem_s1, cycle sem_s1) = (1, 7, Some 1, 1).
Proof.
  split; [eexists; vm_compute; reflexivity|]. split; [eexists; vm_compute; reflexivity|].
  vm_compute. split; reflexivity.
Qed.

(* cycle 1, computed by the model: the selected arm divides by zero; the step stops with the
   explicit report and nothing else *)
Example sem_cycle1_computed :
  step gen_features default_options sem_prog sem_s1 = Err [mkErr DivisionByZero []].
Proof. vm_compute. reflexivity. Qed.

(* every hypothesis of the theorems holds for this program and these states, and their
   conclusions are about the values listed above *)
Example sem_theorems_apply :
  exists cv G,
    fault_free_with gen_features gen_fixed ascii_lower ascii_upper cv G sem_stmts /\
    program_ok gen_features G sem_prog /\
    state_ok G sem_prog sem_s0 /\ cycle_start sem_stmts cv sem_s0 /\
    (* cycle 0: the computed map is a solution, the only one on the constrained wires ... *)
    cycle_solution gen_features G sem_stmts sem_s0 (wire sem_mid) /\
    (forall v, cycle_solution gen_features G sem_stmts sem_s0 v ->
       v "q" = 9 /\ v "d" = 56 /\ v "mem_output" = 0xBE32 /\ v "Stat" = 1 /\
       ~ divides_by_zero gen_features G sem_stmts v /\
       (* ... and the next state is read off it *)
       regs sem_s1 = next_regs sem_stmts v (regs sem_s0) /\ nth 3 (regs sem_s1) 0 = 7 /\
       mem sem_s1 = mem sem_s0 /\ last_status sem_s1 = Some 1 /\ wire sem_s1 "C_n" = v "c_n") /\
    (* cycle 1: a solution exists (ExprSpec.den reads 255 / 0 as 0), and under it an evaluated
       division has divisor 0: the simulator reports it *)
    state_ok G sem_prog sem_s1 /\ cycle_start sem_stmts cv sem_s1 /\
    exists v, cycle_solution gen_features G sem_stmts sem_s1 v /\
              divides_by_zero gen_features G sem_stmts v.
Proof.
  destruct sem_accepted as (Hb & _).
  destruct (accepted_has_declared_widths_holds _ _ _ _ _ sem_wf Hb) as (cv & G & FF & Hp).
  exists cv, G. split; [exact FF|]. split; [exact Hp|].
  destruct (cycle_start_invariant_holds gen_features ascii_lower ascii_upper default_options
              sem_stmts sem_prog cv G sem_wf Hb FF) as (Hinit & Hstepinv).
  assert (H0 : state_ok G sem_prog sem_s0 /\ cycle_start sem_stmts cv sem_s0).
  { unfold sem_s0. destruct (initial_state sem_prog) as [s0|es] eqn:Ei; [|vm_compute in Ei; discriminate Ei].
    apply Hinit; [reflexivity | exact sem_img_wf]. }
  destruct H0 as (Hs0 & Hc0). split; [exact Hs0|]. split; [exact Hc0|].
  destruct sem_cycle0_computed as ((t & Hstep) & (tm & Hex) & Hvals & Hnext).
  destruct (cycle_solution_exists_and_is_computed_holds _ _ _ _ _ _ _ _ _ _ _ sem_wf Hb FF Hs0 Hc0 Hstep)
    as (s1 & t1 & Hex' & Hsol & _).
  assert (Es : sem_mid = s1).
  { exact (f_equal (fun r : result (mstate * string) => match r with Ok (a, _) => a | Err _ => sem_mid end)
                   (eq_trans (eq_sym Hex) Hex')). }
  subst s1.
  split; [exact Hsol|]. split.
  - intros v Hv.
    assert (Hag : forall k, In k (assigned_names sem_stmts) -> wire sem_mid k = v k).
    { intros k Hk. apply (computed_is_the_solution_holds _ _ _ _ _ _ _ _ _ _ _ v sem_wf Hb FF Hs0 Hc0 Hex Hv).
      right. right. right. left. exact Hk. }
    assert (Hmo : wire sem_mid "mem_output" = v "mem_output").
    { apply (computed_is_the_solution_holds _ _ _ _ _ _ _ _ _ _ _ v sem_wf Hb FF Hs0 Hc0 Hex Hv).
      right. right. right. right. exists ["mem_addr"; "mem_readbit"]. split; [cbn; tauto | vm_compute; reflexivity]. }
    pose proof (step_fails_iff_division_by_zero_holds _ _ _ default_options _ _ _ _ _ v sem_wf Hb FF Hs0 Hc0 Hv) as Hdz.
    rewrite Hstep in Hdz.
    destruct (next_state_from_solution_holds _ _ _ _ _ _ _ _ _ _ _ v sem_wf Hb FF Hs0 Hc0 Hstep Hv)
      as (Hr & Hm & Hst & _ & _ & Hw).
    rewrite <- (Hag "q"), <- (Hag "d"), <- Hmo, <- (Hag "Stat") by (vm_compute; tauto).
    split; [vm_compute; reflexivity|]. split; [vm_compute; reflexivity|].
    split; [vm_compute; reflexivity|]. split; [vm_compute; reflexivity|].
    split; [exact Hdz|]. split; [exact Hr|]. split; [vm_compute; reflexivity|].
    split; [vm_compute; reflexivity|]. split; [vm_compute; reflexivity|].
    rewrite <- (Hag "c_n") by (vm_compute; tauto). vm_compute. reflexivity.
  - destruct (Hstepinv sem_s0 sem_s1 t Hs0 Hc0 Hstep) as (Hs1 & Hc1).
    split; [exact Hs1|]. split; [exact Hc1|].
    destruct (cycle_solution_always_exists_holds _ _ _ _ _ _ sem_s1 FF) as (v & Hv).
    exists v. split; [exact Hv|].
    pose proof (step_fails_iff_division_by_zero_holds _ _ _ default_options _ _ _ _ _ v sem_wf Hb FF Hs1 Hc1 Hv) as Hdz.
    rewrite sem_cycle1_computed in Hdz. exact (proj2 Hdz).
Qed.

(* the same text with its statements in reverse order: accepted, scheduled differently, and the
   same values on every wire (an instance of reordered_program_same_cycle_values_holds, computed) *)
Definition sem_rev_prog : program :=
  match build_program gen_features gen_fixed ascii_lower ascii_upper (rev sem_stmts) with
  | Ok p => p
  | Err _ => mkProgram [] [] [] [] []
  end.
Definition sem_rev_mid : mstate :=
  match exec_actions gen_features default_options (p_actions sem_rev_prog) sem_s0 with
  | Ok (s1, _) => s1 | Err _ => sem_s0 end.

Example sem_reordered :
  Permutation sem_stmts (rev sem_stmts) /\
  build_program gen_features gen_fixed ascii_lower ascii_upper (rev sem_stmts) = Ok sem_rev_prog /\
  map written (p_actions sem_rev_prog) <> map written (p_actions sem_prog) /\
  (exists t, exec_actions gen_features default_options (p_actions sem_rev_prog) sem_s0 = Ok (sem_rev_mid, t)) /\
  forall k, In k ["K"; "C_n"; "c_n"; "stall_C"; "bubble_C"; "pc"; "i10bytes"; "reg_srcA"; "reg_outputA";
                  "mem_addr"; "mem_readbit"; "mem_output"; "d"; "big"; "q"; "mem_writebit"; "reg_dstE";
                  "reg_inputE"; "Stat"] -> wire sem_rev_mid k = wire sem_mid k.
Proof.
  split; [apply Permutation_rev|]. split; [vm_compute; reflexivity|].
  split; [vm_compute; intros H; discriminate H|]. split; [eexists; vm_compute; reflexivity|].
  intros k Hk. cbn [In] in Hk.
  repeat (destruct Hk as [<-|Hk]; [vm_compute; reflexivity|]). destruct Hk.
Qed.

(* ---- the draft of 2 without [cycle_start] is false ---------------------------------------------- *)
(* the initial state of the example, except that the unassigned control signal stall_C shows 1 *)
Definition sem_bad : mstate :=
  mkState (upd (values sem_s0) "stall_C" (mkV 1 (Bits 1))) (mem sem_s0) (regs sem_s0)
          (last_status sem_s0) (cycle sem_s0).
Definition sem_bad_mid : mstate :=
  match exec_actions gen_features default_options (p_actions sem_prog) sem_bad with
  | Ok (s1, _) => s1 | Err _ => sem_bad end.

Lemma sem_bad_ok G : program_ok gen_features G sem_prog -> state_ok G sem_prog sem_s0 ->
  state_ok G sem_prog sem_bad.
Proof.
  intros Hp (H1 & H2 & H3 & H4 & H5). unfold sem_bad, state_ok. cbn [values regs mem].
  split; [|split; [|split; [exact H3 | split; [exact H4 | exact H5]]]].
  - intros k Hk. apply valued_upd. apply H1, Hk.
  - apply typed_upd; [exact H2|]. intros w Hw.
    destruct Hp as (_ & _ & _ & _ & _ & _ & H7 & _).
    assert (Hin : In (nth 0 (p_banks sem_prog) (mkBank "" [] [] "" "")) (p_banks sem_prog))
      by (vm_compute; left; reflexivity).
    destruct (H7 _ Hin) as (Hst & _). vm_compute in Hst. rewrite Hst in Hw. injection Hw as <-.
    split; [reflexivity|]. split; [vm_compute; reflexivity | cbn [wd wf_width]; lia].
Qed.

Theorem cycle_solution_computed_draft_refuted : ~ stmt_cycle_solution_computed_draft.
Proof.
  intros H.
  destruct sem_accepted as (Hb & _).
  destruct (accepted_has_declared_widths_holds _ _ _ _ _ sem_wf Hb) as (cv & G & FF & Hp).
  destruct (cycle_start_invariant_holds gen_features ascii_lower ascii_upper default_options
              sem_stmts sem_prog cv G sem_wf Hb FF) as (Hinit & _).
  assert (Hs0 : state_ok G sem_prog sem_s0).
  { unfold sem_s0. destruct (initial_state sem_prog) as [s0|es] eqn:Ei; [|vm_compute in Ei; discriminate Ei].
    apply Hinit; [reflexivity | exact sem_img_wf]. }
  pose proof (sem_bad_ok G Hp Hs0) as Hbad.
  destruct (step gen_features default_options sem_prog sem_bad) as [[s' t]|es] eqn:Hstep;
    [|vm_compute in Hstep; discriminate Hstep].
  destruct (H _ _ _ _ _ _ _ _ _ _ _ sem_wf Hb FF Hbad Hstep) as (s1 & t1 & Hex & Hsol).
  assert (Hex' : exists tm, exec_actions gen_features default_options (p_actions sem_prog) sem_bad = Ok (sem_bad_mid, tm))
    by (eexists; vm_compute; reflexivity).
  destruct Hex' as (tm & Hex').
  assert (Es : sem_bad_mid = s1).
  { exact (f_equal (fun r : result (mstate * string) => match r with Ok (a, _) => a | Err _ => sem_bad_mid end)
                   (eq_trans (eq_sym Hex') Hex)). }
  subst s1.
  assert (Hd : defaulted sem_stmts "stall_C").
  { split; [vm_compute; tauto|]. vm_compute. intros Hc.
    repeat (destruct Hc as [Hc|Hc]; [discriminate Hc|]). exact Hc. }
  pose proof (sol_unassigned_control _ _ _ _ _ Hsol "stall_C" Hd) as H0.
  vm_compute in H0. discriminate H0.
Qed.

Print Assumptions ports_are_the_table_holds.
Print Assumptions cycle_solution_computed_draft_refuted.
Print Assumptions accepted_has_declared_widths_holds.
Print Assumptions declared_widths_type_the_program_holds.
Print Assumptions cycle_start_invariant_holds.
Print Assumptions cycle_solution_exists_and_is_computed_holds.
Print Assumptions cycle_solution_unique_holds.
Print Assumptions computed_is_the_solution_holds.
Print Assumptions solution_order_free_holds.
Print Assumptions reordered_program_same_cycle_values_holds.
Print Assumptions den_division_by_zero_is_zero_holds.
Print Assumptions cycle_solution_always_exists_holds.
Print Assumptions step_fails_iff_division_by_zero_holds.
Print Assumptions next_state_from_solution_holds.
Print Assumptions sem_theorems_apply.
