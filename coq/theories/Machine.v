(* Model of the simulator half of src/program.rs: Action, FixedFunction, RegisterBank,
   Program, Memory, RunOptions, RunningProgram (step_with_output, run, done/halted/timed_out)
   and the state dump (dump_y86 and friends). *)
From HclV Require Import Base Expr Disasm.
Open Scope string_scope.
Open Scope N_scope.

Inductive action :=
| AAssign (name : string) (e : expr) (w : width)
| AReadReg (number out_port : string)
| AReadMemory (is_read : option string) (address out_port : string) (nbytes : N) (is_instruction : bool)
| AWriteReg (number in_port : string)
| AWriteMemory (is_write : option string) (address in_port : string) (nbytes : N)
| ASetStatus (in_wire : string).

Record fixed_fn := mkFixed {
  ff_name : string;
  ff_ins : list (string * N);
  ff_out : option (string * N);
  ff_enable : option string;          (* disabled_if_false *)
  ff_mandatory : bool;
  ff_action : action
}.

Record bank := mkBank {
  b_label : string;
  b_signals : list (string * string * width);     (* in, out, width *)
  b_defaults : list (string * wval);              (* keyed by out name; a HashMap in Rust: any order *)
  b_stall : string;
  b_bubble : string
}.

Inductive wtype := TConstant | TBuiltinInput | TBuiltinOutput | TRegisterBankInput
                 | TRegisterBankOutput | TRegisterBankSpecial | TNormal.

Record program := mkProgram {
  p_consts : list (string * wval);
  p_actions : list action;
  p_banks : list bank;
  p_defaulted : list string;
  p_types : list (string * wtype)
}.

Record options := mkOpts {
  o_trace_assignments : bool;
  o_trace_fixed : bool;
  o_show_wire_values : bool;
  o_group_wire_values : bool;
  o_show_banks : bool;              (* show_register_banks_with_registers *)
  o_show_regs_mem : bool;           (* show_registers_and_memory *)
  o_show_disassembly : bool;
  o_timeout : N
}.

Definition default_options : options := mkOpts false false false true true true true 9999.
Definition set_quiet (o : options) : options :=
  mkOpts (o_trace_assignments o) (o_trace_fixed o) false (o_group_wire_values o) (o_show_banks o)
         false false (o_timeout o).
Definition set_test (o : options) : options :=
  mkOpts (o_trace_assignments o) (o_trace_fixed o) (o_show_wire_values o) (o_group_wire_values o) false
         (o_show_regs_mem o) (o_show_disassembly o) (o_timeout o).
Definition set_debug (o : options) : options :=
  mkOpts (o_trace_assignments o) true true (o_group_wire_values o) (o_show_banks o)
         (o_show_regs_mem o) (o_show_disassembly o) (o_timeout o).
Definition set_no_group (o : options) : options :=
  mkOpts (o_trace_assignments o) (o_trace_fixed o) (o_show_wire_values o) false (o_show_banks o)
         (o_show_regs_mem o) (o_show_disassembly o) (o_timeout o).
Definition set_trace_assignments (o : options) : options :=
  mkOpts true (o_trace_fixed o) (o_show_wire_values o) (o_group_wire_values o) (o_show_banks o)
         (o_show_regs_mem o) (o_show_disassembly o) (o_timeout o).
Definition set_timeout (o : options) (t : N) : options :=
  mkOpts (o_trace_assignments o) (o_trace_fixed o) (o_show_wire_values o) (o_group_wire_values o)
         (o_show_banks o) (o_show_regs_mem o) (o_show_disassembly o) t.

(* ---- Memory: BTreeMap<u64, u8> as a list sorted by strictly ascending address --------- *)
Definition memory := list (N * N).

Fixpoint mem_get (m : memory) (a : N) : option N :=
  match m with
  | [] => None
  | (k, v) :: r => if a =? k then Some v else if a <? k then None else mem_get r a
  end.

Fixpoint mem_put (m : memory) (a v : N) : memory :=
  match m with
  | [] => [(a, v)]
  | (k, v') :: r =>
      if a =? k then (k, v) :: r
      else if a <? k then (a, v) :: (k, v') :: r
      else (k, v') :: mem_put r a v
  end.

Definition byte_at (m : memory) (a : N) : N := match mem_get m a with Some v => v | None => 0 end.
Definition addr_succ (a : N) : N := (a + 1) mod two64.       (* u64::wrapping_add(1) *)

(* Memory::read: little-endian, `count` bytes, count <= 16 asserted by the caller *)
Fixpoint mem_read_loop (m : memory) (cur : N) (i : N) (count : nat) (acc : N) : N :=
  match count with
  | O => acc
  | S c => mem_read_loop m (addr_succ cur) (i + 1) c (N.lor acc (N.shiftl (byte_at m cur) (i * 8)))
  end.

Definition mem_read (m : memory) (address nbytes : N) : wval :=
  mkV (mem_read_loop m address 0 (N.to_nat nbytes) 0) (Bits (nbytes * 8)).

Fixpoint mem_write_loop (m : memory) (cur : N) (value : N) (i : N) (count : nat) : memory :=
  match count with
  | O => m
  | S c => mem_write_loop (mem_put m cur ((N.shiftr value (i * 8)) mod 256)) (addr_succ cur) value (i + 1) c
  end.

Definition mem_write (m : memory) (address value nbytes : N) : memory :=
  mem_write_loop m address value 0 (N.to_nat nbytes).

(* ---- machine state ----------------------------------------------------------------------- *)
Record mstate := mkState {
  values : list (string * wval);
  mem : memory;
  regs : list N;
  last_status : option N;
  cycle : N
}.

Definition set_values (s : mstate) (v : list (string * wval)) : mstate :=
  mkState v (mem s) (regs s) (last_status s) (cycle s).

Definition zero_register : N := 15.

(* `.unwrap()` on a missing wire panics *)
Definition get_value (vals : list (string * wval)) (name : string) : result wval :=
  match lookup vals name with
  | Some v => Ok v
  | None => err1 Panicked [name]
  end.

Fixpoint set_nth (l : list N) (i : nat) (v : N) : list N :=
  match l, i with
  | [], _ => []
  | _ :: r, O => v :: r
  | x :: r, S k => x :: set_nth r k v
  end.

(* Program::initial_state *)
Fixpoint init_signals (vals : list (string * wval)) (defaults : list (string * wval))
         (sigs : list (string * string * width)) : result (list (string * wval)) :=
  match sigs with
  | [] => Ok vals
  | (i, o, _) :: r =>
      match lookup defaults o with
      | Some d => init_signals (upd (upd vals i d) o d) defaults r
      | None => err1 Panicked [o]
      end
  end.

Fixpoint init_banks (vals : list (string * wval)) (banks : list bank) : result (list (string * wval)) :=
  match banks with
  | [] => Ok vals
  | b :: r =>
      do v1 <- init_signals vals (b_defaults b) (b_signals b);
      init_banks (upd (upd v1 (b_bubble b) false_value) (b_stall b) false_value) r
  end.

Definition initial_state (p : program) : result mstate :=
  do v <- init_banks (p_consts p) (p_banks p);
  Ok (mkState v [] (repeat 0 16) None 0).

(* Program::process_register_banks *)
Fixpoint set_defaults (vals : list (string * wval)) (defaults : list (string * wval))
  : result (list (string * wval)) :=
  match defaults with
  | [] => Ok vals
  | (k, v) :: r => if has vals k then set_defaults (upd vals k v) r else err1 Panicked [k]
  end.

Fixpoint copy_signals (vals : list (string * wval)) (sigs : list (string * string * width))
  : result (list (string * wval)) :=
  match sigs with
  | [] => Ok vals
  | (i, o, _) :: r =>
      do nv <- get_value vals i;
      if has vals o then copy_signals (upd vals o nv) r else err1 Panicked [o]
  end.

Fixpoint process_banks (vals : list (string * wval)) (banks : list bank) : result (list (string * wval)) :=
  match banks with
  | [] => Ok vals
  | b :: r =>
      do st <- get_value vals (b_stall b);
      do bu <- get_value vals (b_bubble b);
      do v1 <- (if is_true bu then set_defaults vals (b_defaults b)
                else if negb (is_true st) then copy_signals vals (b_signals b)
                else Ok vals);
      process_banks v1 r
  end.

(* ---- debug tables (dump_values and friends) ----------------------------------------------- *)
Definition is_upper_ascii (n : N) : bool := (65 <=? n) && (n <=? 90).
Definition is_lower_ascii (n : N) : bool := (97 <=? n) && (n <=? 122).
Definition to_upper_ascii (c : ascii) : ascii :=
  let n := N_of_ascii c in if is_lower_ascii n then ascii_of_N (n - 32) else c.
Fixpoint map_string (g : ascii -> ascii) (s : string) : string :=
  match s with EmptyString => EmptyString | String c r => String (g c) (map_string g r) end.

Fixpoint string_ltb (a b : string) : bool :=         (* byte-wise lexicographic < *)
  match a, b with
  | EmptyString, EmptyString => false
  | EmptyString, _ => true
  | _, EmptyString => false
  | String x r, String y t =>
      let nx := N_of_ascii x in let ny := N_of_ascii y in
      if nx <? ny then true else if ny <? nx then false else string_ltb r t
  end.

(* a.to_ascii_uppercase().cmp(b.to_ascii_uppercase()).then(a.cmp(b)) < *)
Definition key_ltb (a b : string) : bool :=
  let ua := map_string to_upper_ascii a in
  let ub := map_string to_upper_ascii b in
  if string_ltb ua ub then true else if string_ltb ub ua then false else string_ltb a b.

Fixpoint insert_sorted (ltb : string -> string -> bool) (x : string) (l : list string) : list string :=
  match l with
  | [] => [x]
  | y :: r => if ltb y x then y :: insert_sorted ltb x r else x :: l
  end.
Definition sort_strings (ltb : string -> string -> bool) (l : list string) : list string :=
  fold_right (insert_sorted ltb) [] l.

Definition spaces (n : N) : string := repeat_char " "%char (N.to_nat n).

Definition value_width_len (v : wval) : N :=
  let b := match wd v with Unl => 64 | Bits x => x end in
  (b + 3) / 4 + 2.

Fixpoint find_table_widths (vals : list (string * wval)) (keys : list string) (mn mv : N) : result (N * N) :=
  match keys with
  | [] => Ok (mn, mv)
  | k :: r =>
      do v <- get_value vals k;
      find_table_widths vals r (N.max (slen k) mn) (N.max (value_width_len v) mv)
  end.

(* "{:width$}  {empty:extra_len$}{:#0value_width_len$x}" *)
Definition table_row (key : string) (v : wval) (mn mv : N) : string :=
  let vl := value_width_len v in
  key ++ spaces (mn - clen key) ++ "  " ++ repeat_char " "%char (N.to_nat (mv - vl)) ++
  "0x" ++ pad_left "0"%char (vl - 2) (hex (bits v)) ++ nl.

Fixpoint table_rows (vals : list (string * wval)) (keys : list string) (mn mv : N) : result string :=
  match keys with
  | [] => Ok ""
  | k :: r =>
      do v <- get_value vals k;
      do rest <- table_rows vals r mn mv;
      Ok (table_row k v mn mv ++ rest)
  end.

Definition dump_wire_subtable (vals : list (string * wval)) (keys : list string) (label : string)
           (header : bool) : result string :=
  match keys with
  | [] => Ok ""
  | _ =>
      do w <- find_table_widths vals keys 15 22;
      let '(mn, mv) := w in
      do rows <- table_rows vals (sort_strings key_ltb keys) mn mv;
      Ok (label ++ nl ++
          (if header then pad_right " "%char mn "Wire" ++ "  " ++ pad_left " "%char mv "Value" ++ nl else "") ++
          rows ++ nl)
  end.

Definition type_of (p : program) (k : string) : wtype :=
  match lookup (p_types p) k with Some t => t | None => TNormal end.

Definition dump_values_ungrouped (p : program) (vals : list (string * wval)) : result string :=
  let keys := filter (fun k => negb (has (p_consts p) k) && negb (mem_str k (p_defaulted p)))
                     (map fst vals) in
  dump_wire_subtable vals keys "Values of wires:" true.

Definition dump_values_grouped (p : program) (vals : list (string * wval)) : result string :=
  let keys := filter (fun k => negb (mem_str k (p_defaulted p))) (map fst vals) in
  let sel (g : wtype -> bool) := filter (fun k => g (type_of p k)) keys in
  do t1 <- dump_wire_subtable vals (sel (fun t => match t with TBuiltinInput => true | _ => false end))
             "Values of inputs to built-in components:" false;
  do t2 <- dump_wire_subtable vals (sel (fun t => match t with TBuiltinOutput => true | _ => false end))
             "Values of outputs of built-in components:" false;
  do t3 <- dump_wire_subtable vals
             (sel (fun t => match t with
                            | TRegisterBankInput | TRegisterBankOutput | TRegisterBankSpecial => true
                            | _ => false end))
             "Values of register bank signals:" false;
  do t4 <- dump_wire_subtable vals (sel (fun t => match t with TNormal => true | _ => false end))
             "Values of other wires:" false;
  Ok (nl ++ t1 ++ t2 ++ t3 ++ t4).

Definition dump_values (o : options) (p : program) (vals : list (string * wval)) : result string :=
  if o_group_wire_values o then dump_values_grouped p vals else dump_values_ungrouped p vals.

(* ---- one action -------------------------------------------------------------------------- *)
Definition enabled (vals : list (string * wval)) (en : option string) : result bool :=
  match en with
  | None => Ok true
  | Some w => do v <- get_value vals w; Ok (is_true v)
  end.

Definition opt_string (o : option string) : string := match o with Some s => s | None => "" end.

Definition exec_action (f : features) (o : options) (a : action) (s : mstate) : result (mstate * string) :=
  let vals := values s in
  match a with
  | AAssign name e w =>
      do r0 <- eval f (lookup vals) e;
      let r := as_width w r0 in
      Ok (set_values s (upd vals name r),
          if o_trace_assignments o then name ++ " set to 0x" ++ hex (bits r) ++ nl else "")
  | AReadMemory is_read address out_port nbytes is_instr =>
      do do_read <- enabled vals is_read;
      if do_read then
        do av <- get_value vals address;
        if 16 <? nbytes then err1 Panicked ["assert bytes <= 16"] else
        let v := mem_read (mem s) (bits av mod two64) nbytes in
        let t1 := if o_trace_fixed o then
                    out_port ++ " set to 0x" ++ hex (bits v) ++ " (reading " ++ dec nbytes ++
                    " bytes from memory at " ++ address ++ "=0x" ++ hex (bits av) ++ ")" ++ nl
                  else "" in
        let t2 := if is_instr && o_show_disassembly o then trace_line (bits av) (bits v) else "" in
        Ok (set_values s (upd vals out_port v), t1 ++ t2)
      else
        Ok (set_values s (upd vals out_port (as_width (Bits ((nbytes * 8) mod 256)) (mkV 0 Unl))),
            if o_trace_fixed o then "not reading from memory since " ++ opt_string is_read ++ " is 0" ++ nl
            else "")
  | AWriteMemory is_write address in_port nbytes =>
      do do_write <- enabled vals is_write;
      if do_write then
        do av <- get_value vals address;
        do iv <- get_value vals in_port;
        if 16 <? nbytes then err1 Panicked ["assert bytes <= 16"] else
        Ok (mkState vals (mem_write (mem s) (bits av mod two64) (bits iv) nbytes) (regs s)
                    (last_status s) (cycle s),
            if o_trace_fixed o then
              "writing " ++ in_port ++ "=" ++ dec (bits iv) ++ " to memory at " ++ address ++
              "=0x" ++ hex (bits av) ++ nl
            else "")
      else
        Ok (s, if o_trace_fixed o then "not writing to memory since " ++ opt_string is_write ++ " is 0" ++ nl
               else "")
  | ASetStatus in_wire =>
      do v <- get_value vals in_wire;
      Ok (mkState vals (mem s) (regs s) (Some (bits v mod 256)) (cycle s), "")
  | AReadReg number out_port =>
      do nv <- get_value vals number;
      let n := bits nv mod two64 in
      if n <? N.of_nat (List.length (regs s)) then
        let r := nth (N.to_nat n) (regs s) 0 in
        Ok (set_values s (upd vals out_port (mkV r (Bits 64))),
            if o_trace_fixed o then
              "set " ++ out_port ++ " to 0x" ++ hex r ++ " from register " ++ number ++ "=" ++ dec n ++
              " (" ++ name_register n ++ ")" ++ nl
            else "")
      else Ok (set_values s (upd vals out_port (mkV 0 (Bits 64))), "")
  | AWriteReg number in_port =>
      do nv <- get_value vals number;
      let n := bits nv mod two64 in
      if (n <? N.of_nat (List.length (regs s))) && negb (n =? zero_register) then
        do iv <- get_value vals in_port;
        let r := bits iv mod two64 in
        Ok (mkState vals (mem s) (set_nth (regs s) (N.to_nat n) r) (last_status s) (cycle s),
            if o_trace_fixed o then
              "writing " ++ in_port ++ "=0x" ++ hex r ++ " into register " ++ number ++ "=" ++ dec n ++
              " (" ++ name_register n ++ ")" ++ nl
            else "")
      else Ok (s, "")
  end.

Fixpoint exec_actions (f : features) (o : options) (acts : list action) (s : mstate)
  : result (mstate * string) :=
  match acts with
  | [] => Ok (s, "")
  | a :: r =>
      do x <- exec_action f o a s;
      do y <- exec_actions f o r (fst x);
      Ok (fst y, snd x ++ snd y)
  end.

(* RunningProgram::step_with_output *)
Definition step (f : features) (o : options) (p : program) (s : mstate) : result (mstate * string) :=
  do x <- exec_actions f o (p_actions p) s;
  let s1 := fst x in
  do tbl <- (if o_show_wire_values o then dump_values o p (values s1) else Ok "");
  do v2 <- process_banks (values s1) (p_banks p);
  Ok (mkState v2 (mem s1) (regs s1) (last_status s1) (cycle s1 + 1), snd x ++ tbl).

(* ---- termination tests ------------------------------------------------------------------- *)
Definition status_or_default (s : mstate) (d : N) : N :=
  match lookup (values s) "Stat" with
  | Some v => bits v mod 256
  | None => d
  end.

Definition timed_out (o : options) (s : mstate) : bool := o_timeout o <=? cycle s.
Definition halted (s : mstate) : bool := status_or_default s 1 =? 2.
Definition done (o : options) (s : mstate) : bool :=
  (negb (status_or_default s 1 =? 1) && negb (status_or_default s 1 =? 0)) || timed_out o s.

(* ---- the state dump ---------------------------------------------------------------------- *)
Definition reg_field (label : string) (v : N) : string := label ++ pad_left " "%char 16 (hex v).

Definition dump_program_registers (r : list N) : string :=
  let g i := nth i r 0 in
  "| " ++ reg_field "RAX: " (g 0%nat) ++ "   " ++ reg_field "RCX: " (g 1%nat) ++ "   " ++ reg_field "RDX: " (g 2%nat) ++ " |" ++ nl ++
  "| " ++ reg_field "RBX: " (g 3%nat) ++ "   " ++ reg_field "RSP: " (g 4%nat) ++ "   " ++ reg_field "RBP: " (g 5%nat) ++ " |" ++ nl ++
  "| " ++ reg_field "RSI: " (g 6%nat) ++ "   " ++ reg_field "RDI: " (g 7%nat) ++ "   " ++ reg_field "R8:  " (g 8%nat) ++ " |" ++ nl ++
  "| " ++ reg_field "R9:  " (g 9%nat) ++ "   " ++ reg_field "R10: " (g 10%nat) ++ "   " ++ reg_field "R11: " (g 11%nat) ++ " |" ++ nl ++
  "| " ++ reg_field "R12: " (g 12%nat) ++ "   " ++ reg_field "R13: " (g 13%nat) ++ "   " ++ reg_field "R14: " (g 14%nat) ++ " |" ++ nl.

(* the part of a register-bank input name after its first '_' (the register's own name) *)
Fixpoint after_underscore (s : string) : string :=
  match s with
  | EmptyString => EmptyString
  | String c r => if (N_of_ascii c =? 95) then r else after_underscore r
  end.

(* dump_bank: returns the text; line_loc threading as in the code *)
Fixpoint dump_bank_signals (vals : list (string * wval)) (sigs : list (string * string * width))
         (line_loc : N) : result (string * N) :=
  match sigs with
  | [] => Ok ("", line_loc)
  | (i, o, w) :: r =>
      let name := after_underscore i in
      let hex_width := (bits_or_128 w + 3) / 4 in
      let wrap := 71 <=? line_loc + 2 + hex_width + slen name in
      let pre := if wrap then spaces (71 - line_loc) ++ " |" ++ nl ++ "| " else "" in
      let loc1 := if wrap then 2 else line_loc in
      do v <- get_value vals o;
      let item := " " ++ name ++ "=" ++ pad_left "0"%char hex_width (hex (bits v)) in
      do rest <- dump_bank_signals vals r (loc1 + 2 + hex_width + slen name);
      Ok (pre ++ item ++ fst rest, snd rest)
  end.

Definition dump_bank (vals : list (string * wval)) (b : bank) : result string :=
  do st <- get_value vals (b_stall b);
  do bu <- get_value vals (b_bubble b);
  let status := if is_true bu then "B" else if is_true st then "S" else "N" in
  let head := "| register " ++ b_label b ++ "(" ++ status ++ ") {" in
  do body <- dump_bank_signals vals (b_signals b) 18;
  let loc := snd body in
  let wrap := 71 <=? loc + 2 in
  let pre := if wrap then spaces (71 - loc) ++ " |" ++ nl ++ "| " else "" in
  let loc1 := (if wrap then 2 else loc) + 2 in
  Ok (head ++ fst body ++ pre ++ " }" ++ spaces (71 - loc1) ++ " |" ++ nl).

(* the bank's output prefix letter: what follows "stall_" *)
Definition bank_letter (b : bank) : string := after_underscore (b_stall b).

(* HashMap<char, Vec<&RegisterBank>>: all banks with that output prefix letter, in declaration order *)
Definition banks_with (banks : list bank) (letter : string) : list bank :=
  filter (fun b => String.eqb (bank_letter b) letter) banks.

Definition fixed_letters : list string := ["P"; "F"; "D"; "E"; "M"; "W"].

Fixpoint dedup (l : list string) : list string :=
  match l with
  | [] => []
  | x :: r => if mem_str x r then dedup r else x :: dedup r
  end.

Fixpoint dump_bank_list (vals : list (string * wval)) (bs : list bank) : result string :=
  match bs with
  | [] => Ok ""
  | b :: r =>
      do t <- dump_bank vals b;
      do rest <- dump_bank_list vals r;
      Ok (t ++ rest)
  end.

Fixpoint dump_banks_in (vals : list (string * wval)) (banks : list bank) (letters : list string)
  : result string :=
  match letters with
  | [] => Ok ""
  | l :: r =>
      do t <- dump_bank_list vals (banks_with banks l);
      do rest <- dump_banks_in vals banks r;
      Ok (t ++ rest)
  end.

Definition dump_custom_registers (vals : list (string * wval)) (banks : list bank) : result string :=
  let others := filter (fun l => negb (mem_str l fixed_letters)) (dedup (map bank_letter banks)) in
  do t1 <- dump_banks_in vals banks fixed_letters;
  do t2 <- dump_banks_in vals banks (sort_strings string_ltb others);
  Ok (t1 ++ t2).

(* dump_memory_y86: the cur_addr walk.  [cells] = the sorted (address, byte) list still to print. *)
Definition mem_cell_sep (a : N) : string :=
  match a mod 16 with
  | 3 | 11 => " "
  | 7 => "  "
  | _ => ""
  end.

(* one iteration of `while cur_addr <= k`, for the byte (k, v) *)
Fixpoint dump_mem_walk (fuel : nat) (cur k v : N) : string * N * bool :=
  (* returns text, new cur_addr, whether the walk stopped because cur wrapped to 0 *)
  match fuel with
  | O => ("", cur, false)
  | S fu =>
      if cur <=? k then
        let jump := cur mod 16 =? 0 in
        let cur1 := if jump then (k / 16) * 16 else cur in
        let t0 := if jump then "|  0x" ++ pad_left "0"%char 7 (hex (cur1 / 16)) ++ "_:  " else "" in
        let t1 := if cur1 =? k then " " ++ hex2 v else "   " in
        let t2 := mem_cell_sep cur1 in
        let t3 := if cur1 mod 16 =? 15 then "    |" ++ nl else "" in
        let cur2 := addr_succ cur1 in
        if cur2 =? 0 then (t0 ++ t1 ++ t2 ++ t3, cur2, true)
        else let '(rest, c, w) := dump_mem_walk fu cur2 k v in (t0 ++ t1 ++ t2 ++ t3 ++ rest, c, w)
      else ("", cur, false)
  end.

Fixpoint dump_mem_cells (cells : memory) (cur : N) : string * N :=
  match cells with
  | [] => ("", cur)
  | (k, v) :: r =>
      let '(t, c, _) := dump_mem_walk 40 cur k v in
      let '(rest, c2) := dump_mem_cells r c in
      (t ++ rest, c2)
  end.

Fixpoint dump_mem_tail (fuel : nat) (cur : N) : string :=
  match fuel with
  | O => ""
  | S fu =>
      if cur mod 16 =? 0 then ""
      else (match cur mod 16 with
            | 15 => "       |" ++ nl
            | 3 | 11 => "    "
            | 7 => "     "
            | _ => "   "
            end) ++ dump_mem_tail fu (addr_succ cur)
  end.

Definition mem_header : string :=
  "| used memory:   _0 _1 _2 _3  _4 _5 _6 _7   _8 _9 _a _b  _c _d _e _f    |" ++ nl.

Definition dump_memory (m : memory) : string :=
  match m with
  | [] => mem_header
  | (k0, _) :: _ =>
      let '(t, cur) := dump_mem_cells m ((k0 / 16) * 16) in
      mem_header ++ t ++ dump_mem_tail 16 cur
  end.

Definition name_status (statuses : list string) (s : mstate) : string :=
  nth (N.to_nat (status_or_default s 255)) statuses "<unknown>".

Definition y86_statuses : list string :=
  ["0 (Bubble)"; "1 (OK)"; "2 (Halt)"; "3 (Invalid Address)"; "4 (Invalid Instruction)"; "5 (Pipeline Error)"].

Definition dump_y86 (o : options) (p : program) (s : mstate) : result string :=
  let header :=
    if halted s then
      "+----------------------- halted in state: ------------------------------+"
    else if timed_out o s then
      "+------------ timed out after " ++ pad_left " "%char 5 (dec (cycle s)) ++ " cycles in state: -------------------+"
    else if done o s then
      "+------------------- error caused in state: ----------------------------+"
    else
      "+------------------- between cycles " ++ pad_left " "%char 4 (dec (cycle s)) ++ " and " ++
      pad_left " "%char 4 (dec (cycle s + 1)) ++ " ----------------------+" in
  do banks <- (if o_show_banks o then dump_custom_registers (values s) (p_banks p) else Ok "");
  let footer :=
    if halted s then
      "+--------------------- (end of halted state) ---------------------------+"
    else if done o s && negb (timed_out o s) then
      "+-------------------- (end of error state) -----------------------------+"
    else
      "+-----------------------------------------------------------------------+" in
  let tail :=
    if done o s && negb (timed_out o s) then
      "Cycles run: " ++ dec (cycle s) ++ nl ++
      (if negb (halted s) && negb (timed_out o s)
       then "Error code: " ++ name_status y86_statuses s ++ nl else "")
    else "" in
  Ok (header ++ nl ++ dump_program_registers (regs s) ++ banks ++ dump_memory (mem s) ++ footer ++ nl ++ tail).

(* RunningProgram::run, fuelled: one unit of fuel per executed cycle *)
Fixpoint run (fuel : nat) (f : features) (o : options) (p : program) (s : mstate)
  : result (mstate * string) :=
  if done o s then Ok (s, "")
  else match fuel with
       | O => err1 OutOfFuel []
       | S fu =>
           do d <- (if o_show_regs_mem o then dump_y86 o p s else Ok "");
           do x <- step f o p s;
           do y <- run fu f o p (fst x);
           Ok (fst y, d ++ snd x ++ snd y)
       end.
