(* C14 / C13: what the diagnostic renderer must do. Statements about Region.show_region. *)
From HclV Require Import Base Yo Region.
Open Scope list_scope.
Open Scope N_scope.

(* a String is valid UTF-8; all the renderer relies on is that a continuation byte never
   follows an ASCII byte and never starts the text *)
Definition wf_text (l : list N) : Prop :=
  forall i, (i < List.length l)%nat -> is_cont (nth i l 0) = true ->
    (0 < i)%nat /\ 128 <= nth (i - 1) l 0.

(* ---- the property's own vocabulary, on the user's text ---------------------------------- *)
Definition is_lf (b : N) : bool := b =? 10.
Definition count_lf (l : list N) : nat := List.length (filter is_lf l).

(* the part of l after its last LF (all of l if there is none) *)
Fixpoint after_last_lf (l : list N) (cur : list N) : list N :=
  match l with
  | [] => rev cur
  | b :: r => if is_lf b then after_last_lf r [] else after_last_lf r (b :: cur)
  end.
(* the part of l before its first LF (all of l if there is none), and whether an LF was found *)
Fixpoint before_first_lf (l : list N) : list N * bool :=
  match l with
  | [] => ([], false)
  | b :: r => if is_lf b then ([], true) else let '(x, f) := before_first_lf r in (b :: x, f)
  end.

Definition line_no (user : list N) (o : nat) : nat := S (count_lf (firstn o user)).
Definition col_of (user : list N) (o : nat) : nat := List.length (after_last_lf (firstn o user) []).
(* the text of the line containing offset o: without its LF, and without the CR of a CRLF *)
Definition line_text (user : list N) (o : nat) : list N :=
  let '(rest, terminated) := before_first_lf (skipn o user) in
  let line := after_last_lf (firstn o user) [] ++ rest in
  if terminated then strip_cr line else line.

Definition sp (n : nat) : list N := repeat_byte 32 n.

Definition one_line_region (fname : list N) (number : nat) (text : list N) (col count : nat) : list N :=
  sp 5 ++ [45; 62; 32] ++ fname ++ [58] ++ dec_bytes number ++ [10] ++
  sp 5 ++ [124; 10] ++
  pad4 (dec_bytes number) ++ [32; 124; 32] ++ text ++ [10] ++
  sp 5 ++ [124; 32] ++ sp col ++ repeat_byte 94 count ++ [10].

(* C14: a span [s, e) of the user's own text that lies on one line is shown with the user's
   file name, the 1-based line number counted in the user's text (whatever the preamble is),
   that line's text, and carets under exactly the span *)
Definition stmt_locate_one_line : Prop :=
  forall pre user fname s e,
    wf_text pre -> wf_text user ->
    (s <= e)%nat -> (e <= List.length user)%nat ->
    count_lf (firstn (e - s) (skipn s user)) = O ->
    skipn (s - col_of user s) user <> [] ->          (* the line is not an empty line at end of text *)
    show_region (new_from_data pre user fname) (List.length pre + s) (List.length pre + e) =
    Some (one_line_region fname (line_no user s) (line_text user s) (col_of user s) (e - s)).

(* C14: faults in user code are never attributed to the preamble: any region starting at or
   after the preamble's end is headed by the user's file name *)
Definition stmt_never_preamble : Prop :=
  forall pre user fname s e out,
    (List.length pre <= s)%nat ->
    show_region (new_from_data pre user fname) s e = Some out ->
    exists rest, out = sp 5 ++ [45; 62; 32] ++ fname ++ [58] ++ rest.

(* C13: rendering never panics, for ARBITRARY offsets (the offsets the parser's error recovery
   hands over are not modelled): every slice is in range and on a character boundary, no
   subtraction underflows *)
Definition stmt_show_region_total : Prop :=
  forall pre user fname s e,
    wf_text pre -> wf_text user ->
    show_region (new_from_data pre user fname) s e <> None.
