(* Proofs of DiagSpec.v: the diagnostic renderer (Diag.v). *)
From Coq Require Import Sorted Permutation Lia ZifyBool ZifyNat ZifyN.
From HclV Require Import Base Expr Machine Yo Region RegionSpec RegionProofs Lexer Generated TriviaSpec
                         TriviaProofs LexLocSpec LexLocProofs SpanParser SpanParserSpec SpanParserProofs Diag DiagSpec.
Open Scope list_scope.
Open Scope N_scope.
Open Scope string_scope.

(* ====================================================================================== *)
(* 0. strings                                                                             *)
(* ====================================================================================== *)
Lemma string_of_bytes_app (a b : list N) :
  string_of_bytes (a ++ b)%list = string_of_bytes a ++ string_of_bytes b.
Proof. induction a as [|x a IH]; cbn; [reflexivity | now rewrite IH]. Qed.

Lemma str_bytes_app (a b : string) : str_bytes (a ++ b) = (str_bytes a ++ str_bytes b)%list.
Proof. induction a as [|x a IH]; cbn; [reflexivity | now rewrite IH]. Qed.

Lemma string_of_str_bytes (s : string) : string_of_bytes (str_bytes s) = s.
Proof. induction s as [|c s IH]; cbn; [reflexivity | now rewrite IH, ascii_N_embedding]. Qed.

Lemma str_bytes_length (s : string) : List.length (str_bytes s) = String.length s.
Proof. induction s as [|c s IH]; cbn; [reflexivity | now rewrite IH]. Qed.

Lemma sapp_eq_app (a b c d : string) :
  a ++ b = c ++ d ->
  exists l, (a = c ++ l /\ d = l ++ b) \/ (c = a ++ l /\ b = l ++ d).
Proof.
  revert c. induction a as [|x a IH]; intros c H.
  - exists c. right. split; [reflexivity | exact H].
  - destruct c as [|y c].
    + exists (String x a). left. split; [reflexivity | symmetry; exact H].
    + cbn in H. injection H as Hxy H. subst y.
      destruct (IH c H) as [l [[H1 H2] | [H1 H2]]]; exists l; [left | right]; split; cbn; congruence.
Qed.

Lemma sapp_inv_head (a b c : string) : a ++ b = a ++ c -> b = c.
Proof. induction a as [|x a IH]; cbn; intros H; [exact H | injection H as H; exact (IH H)]. Qed.

Lemma sapp_eq_nil (a b : string) : a ++ b = "" -> a = "" /\ b = "".
Proof. destruct a; cbn; intros H; [split; [reflexivity | exact H] | discriminate H]. Qed.

(* ---- contains / starts_with / ends_with -------------------------------------------------- *)
Lemma contains_app_l x a b : contains x a -> contains x (a ++ b).
Proof. intros (p & q & ->). exists p, (q ++ b). now rewrite !sapp_assoc. Qed.

Lemma contains_app_r x a b : contains x b -> contains x (a ++ b).
Proof. intros (p & q & ->). exists (a ++ p), q. now rewrite !sapp_assoc. Qed.

Lemma contains_cons x c r : contains x r -> contains x (String c r).
Proof. apply (contains_app_r x (String c "") r). Qed.

Lemma contains_here x b : contains x (x ++ b).
Proof. exists "", b. reflexivity. Qed.

Lemma contains_refl x : contains x x.
Proof. exists "", "". cbn. now rewrite sapp_nil_r. Qed.

Lemma contains_trans x y z : contains x y -> contains y z -> contains x z.
Proof. intros H (p & q & ->). apply contains_app_r, contains_app_l, H. Qed.

Lemma contains_nil_inv x : contains x "" -> x = "".
Proof.
  intros (p & q & H). symmetry in H. apply sapp_eq_nil in H. destruct H as [_ H].
  apply sapp_eq_nil in H. tauto.
Qed.

(* an occurrence in a ++ b lies in a, lies in b, or straddles the seam *)
Lemma contains_app_inv x a b :
  contains x (a ++ b) ->
  contains x a \/ contains x b \/
  exists x1 x2, x = x1 ++ x2 /\ x1 <> "" /\ x2 <> "" /\ ends_with x1 a /\ starts_with x2 b.
Proof.
  intros (p & q & H).
  destruct (sapp_eq_app a b p (x ++ q) H) as [l [[H1 H2] | [H1 H2]]].
  - destruct (sapp_eq_app x q l b H2) as [m [[H3 H4] | [H3 H4]]].
    + destruct l as [|c l].
      * right. left. cbn in H3. subst x. exists "", q. exact H4.
      * destruct m as [|d m].
        -- left. rewrite sapp_nil_r in H3. subst x. exists p, "". now rewrite sapp_nil_r.
        -- right. right. exists (String c l), (String d m).
           split; [exact H3 |]. split; [discriminate |]. split; [discriminate |].
           split; [exists p; exact H1 | exists q; exact H4].
    + left. subst l. exists p, m. exact H1.
  - right. left. exists l, q. exact H2.
Qed.

(* a character that does not occur in x cuts every occurrence of x *)
Fixpoint has_char (c : ascii) (s : string) : bool :=
  match s with EmptyString => false | String d r => Ascii.eqb c d || has_char c r end.

Lemma has_char_app c a b : has_char c (a ++ b) = has_char c a || has_char c b.
Proof. induction a as [|d a IH]; cbn; [reflexivity | now rewrite IH, orb_assoc]. Qed.

Lemma contains_has_char x s c : contains x s -> has_char c x = true -> has_char c s = true.
Proof. intros (p & q & ->) H. rewrite !has_char_app, H. now rewrite orb_true_r. Qed.

Lemma contains_cut x a c b :
  has_char c x = false -> contains x (a ++ String c b) -> contains x a \/ contains x b.
Proof.
  intros Hc H. destruct (contains_app_inv _ _ _ H) as [Ha | [Hb | (x1 & x2 & Hx & _ & Hn2 & _ & (r & Hr))]].
  - left. exact Ha.
  - destruct Hb as (p & q & Hb). destruct p as [|d p].
    + cbn in Hb. destruct x as [|e x]; [right; exists "", b; reflexivity |].
      cbn in Hb. injection Hb as He _. subst e. cbn in Hc. now rewrite Ascii.eqb_refl in Hc.
    + cbn in Hb. injection Hb as _ Hb. right. exists p, q. exact Hb.
  - destruct x2 as [|e x2]; [congruence |]. cbn in Hr. injection Hr as He _. subst e.
    subst x. rewrite has_char_app in Hc. cbn in Hc. rewrite Ascii.eqb_refl in Hc.
    now rewrite orb_true_r in Hc.
Qed.

(* ---- boolean tests ------------------------------------------------------------------------- *)
Fixpoint sprefix (x s : string) : bool :=
  match x, s with
  | EmptyString, _ => true
  | String c x', String d s' => Ascii.eqb c d && sprefix x' s'
  | _, _ => false
  end.

Lemma sprefix_here x b : sprefix x (x ++ b) = true.
Proof. induction x as [|c x IH]; cbn; [reflexivity | now rewrite Ascii.eqb_refl, IH]. Qed.

Lemma starts_with_sprefix x s : starts_with x s -> sprefix x s = true.
Proof. intros (r & ->). apply sprefix_here. Qed.

Lemma sprefix_starts_with x s : sprefix x s = true -> starts_with x s.
Proof.
  revert s. induction x as [|c x IH]; intros s H; [exists s; reflexivity |].
  destruct s as [|d s]; [discriminate H |]. cbn in H. apply andb_prop in H. destruct H as [Hc H].
  apply Ascii.eqb_eq in Hc. subst d. destruct (IH s H) as (r & ->). exists r. reflexivity.
Qed.

Fixpoint has_sub (x s : string) : bool :=
  sprefix x s || match s with EmptyString => false | String _ r => has_sub x r end.

Lemma contains_has_sub x s : contains x s -> has_sub x s = true.
Proof.
  intros (p & q & ->). induction p as [|c p IH].
  - cbn [append]. destruct (x ++ q) eqn:E; cbn [has_sub]; rewrite <- E, sprefix_here; reflexivity.
  - cbn [append has_sub]. rewrite IH. apply orb_true_r.
Qed.

Lemma has_sub_contains x s : has_sub x s = true -> contains x s.
Proof.
  induction s as [|c s IH]; cbn [has_sub]; intros H.
  - rewrite orb_false_r in H. destruct (sprefix_starts_with _ _ H) as (r & Hr). exists "", r. exact Hr.
  - apply orb_prop in H. destruct H as [H | H].
    + destruct (sprefix_starts_with _ _ H) as (r & Hr). exists "", r. exact Hr.
    + apply contains_cons, IH, H.
Qed.

(* ends_with, through reversal *)
Fixpoint srev (s : string) : string :=
  match s with EmptyString => "" | String c r => srev r ++ String c "" end.

Lemma srev_app a b : srev (a ++ b) = srev b ++ srev a.
Proof.
  induction a as [|c a IH]; cbn; [now rewrite sapp_nil_r | now rewrite IH, sapp_assoc].
Qed.

Definition ssuffix (x s : string) : bool := sprefix (srev x) (srev s).

Lemma ends_with_ssuffix x s : ends_with x s -> ssuffix x s = true.
Proof. intros (r & ->). unfold ssuffix. rewrite srev_app. apply sprefix_here. Qed.

(* two prefixes of the same text: one is a prefix of the other *)
Lemma prefix_of_app x c u : starts_with x (c ++ u) -> sprefix x c = true \/ sprefix c x = true.
Proof.
  intros (r & H). destruct (sapp_eq_app c u x r H) as [l [[H1 _] | [H1 _]]].
  - left. subst c. apply sprefix_here.
  - right. subst x. apply sprefix_here.
Qed.

(* ---- texts made of literal pieces and holes ----------------------------------------------- *)
Inductive frag := Lit (s : string) | Hole (s : string).
Definition frag_text (f : frag) : string := match f with Lit s | Hole s => s end.
Fixpoint cat (fs : list frag) : string :=
  match fs with [] => "" | f :: r => frag_text f ++ cat r end.

(* the ways to cut x into two non-empty parts *)
Fixpoint splits_from (pre x : string) : list (string * string) :=
  match x with
  | EmptyString => []
  | String c r =>
      let pre' := pre ++ String c "" in
      (match r with EmptyString => [] | _ => [(pre', r)] end ++ splits_from pre' r)%list
  end.
Definition splits (x : string) : list (string * string) := splits_from "" x.

Lemma splits_from_in x1 : forall pre x2, x1 <> "" -> x2 <> "" ->
  In ((pre ++ x1), x2) (splits_from pre (x1 ++ x2)).
Proof.
  induction x1 as [|c x1 IH]; intros pre x2 H1 H2; [congruence |].
  change (String c x1 ++ x2) with (String c (x1 ++ x2)). cbn [splits_from].
  apply in_or_app. destruct x1 as [|d x1].
  - left. cbn [append]. destruct x2; [congruence |]. left. reflexivity.
  - right.
    assert (E : pre ++ String c (String d x1) = (pre ++ String c "") ++ String d x1)
      by (rewrite sapp_assoc; reflexivity).
    rewrite E. apply IH; [discriminate | exact H2].
Qed.

Lemma splits_in x1 x2 : x1 <> "" -> x2 <> "" -> In (x1, x2) (splits (x1 ++ x2)).
Proof. intros H1 H2. exact (splits_from_in x1 "" x2 H1 H2). Qed.

(* a literal piece c: x does not occur in it and no occurrence of x can begin in it and go on
   [lit_ok]; none can begin before it and end in it or cover it [lit_after_hole_ok] *)
Definition lit_ok (x c : string) : bool :=
  negb (has_sub x c) && forallb (fun p : string * string => negb (ssuffix (fst p) c)) (splits x).
Definition lit_after_hole_ok (x c : string) : bool :=
  forallb (fun p : string * string => negb (sprefix (snd p) c) && negb (sprefix c (snd p))) (splits x).

Fixpoint frags_ok (x : string) (fs : list frag) : bool :=
  match fs with
  | [] => true
  | Lit c :: r => lit_ok x c && frags_ok x r
  | Hole _ :: r =>
      match r with
      | [] => true
      | Lit c :: _ => lit_after_hole_ok x c && frags_ok x r
      | Hole _ :: _ => false
      end
  end.

Lemma lit_ok_split x c x1 x2 :
  lit_ok x c = true -> x = x1 ++ x2 -> x1 <> "" -> x2 <> "" -> ssuffix x1 c = false.
Proof.
  intros H -> H1 H2. unfold lit_ok in H. apply andb_prop in H. destruct H as [_ H].
  rewrite forallb_forall in H. specialize (H _ (splits_in x1 x2 H1 H2)). cbn [fst snd] in H.
  apply negb_true_iff; assumption.
Qed.

Lemma lit_after_hole_split x c x1 x2 :
  lit_after_hole_ok x c = true -> x = x1 ++ x2 -> x1 <> "" -> x2 <> "" ->
  sprefix x2 c = false /\ sprefix c x2 = false.
Proof.
  intros H -> H1 H2. unfold lit_after_hole_ok in H.
  rewrite forallb_forall in H. specialize (H _ (splits_in x1 x2 H1 H2)). cbn [fst snd] in H.
  apply andb_prop in H. destruct H as [Ha Hb]. split; apply negb_true_iff; assumption.
Qed.

Theorem frags_free (x : string) (fs : list frag) :
  x <> "" ->
  frags_ok x fs = true ->
  (forall h, In (Hole h) fs -> ~ contains x h) ->
  ~ contains x (cat fs).
Proof.
  intros Hx. induction fs as [|f r IH]; intros Hok Hh Hc.
  - cbn in Hc. apply contains_nil_inv in Hc. contradiction.
  - destruct f as [c|h]; cbn [cat frag_text] in Hc.
    + cbn [frags_ok] in Hok. apply andb_prop in Hok. destruct Hok as [Hl Hr].
      destruct (contains_app_inv _ _ _ Hc) as [H | [H | (x1 & x2 & Hx12 & H1 & H2 & He & _)]].
      * apply contains_has_sub in H. unfold lit_ok in Hl. rewrite H in Hl. discriminate Hl.
      * apply (IH Hr); [intros h Hin; apply Hh; right; exact Hin | exact H].
      * pose proof (lit_ok_split _ _ _ _ Hl Hx12 H1 H2) as Hs.
        rewrite (ends_with_ssuffix _ _ He) in Hs. discriminate Hs.
    + assert (Hr : frags_ok x r = true).
      { cbn [frags_ok] in Hok. destruct r as [|[c|h'] r']; [reflexivity | | discriminate Hok].
        apply andb_prop in Hok. tauto. }
      destruct (contains_app_inv _ _ _ Hc) as [H | [H | (x1 & x2 & Hx12 & H1 & H2 & _ & Hs)]].
      * apply (Hh h); [left; reflexivity | exact H].
      * apply (IH Hr); [intros h' Hin; apply Hh; right; exact Hin | exact H].
      * destruct r as [|[c|h'] r'].
        -- cbn in Hs. destruct Hs as (t & Ht). symmetry in Ht. apply sapp_eq_nil in Ht. tauto.
        -- cbn [cat frag_text] in Hs. cbn [frags_ok] in Hok. apply andb_prop in Hok. destruct Hok as [Hl _].
           destruct (lit_after_hole_split _ _ _ _ Hl Hx12 H1 H2) as (Ha & Hb).
           destruct (prefix_of_app _ _ _ Hs) as [H | H]; congruence.
        -- cbn in Hok. discriminate Hok.
Qed.

(* ====================================================================================== *)
(* 1. str::lines, error and error_continue                                                *)
(* ====================================================================================== *)
Definition lcontains (x l : list N) : Prop := exists p q, l = (p ++ x ++ q)%list.

Lemma lcontains_cut (x a b : list N) (c : N) :
  ~ In c x -> lcontains x (a ++ c :: b)%list -> lcontains x a \/ lcontains x b.
Proof.
  intros Hc (p & q & H).
  destruct (app_eq_app _ _ _ _ H) as [m [[H1 H2] | [H1 H2]]].
  - symmetry in H2. destruct (app_eq_app _ _ _ _ H2) as [n [[H3 H4] | [H3 H4]]].
    + left. subst m. exists p, n. rewrite H1. now rewrite app_assoc.
    + destruct n as [|d n].
      * left. rewrite app_nil_r in H3. subst m. exists p, []. now rewrite app_nil_r.
      * cbn in H4. injection H4 as Hd _. subst d. exfalso. apply Hc. rewrite H3.
        apply in_or_app. right. left. reflexivity.
  - destruct m as [|d m].
    + cbn in H2. destruct x as [|e x]; [left; exists a, []; now rewrite app_nil_r |].
      cbn in H2. injection H2 as He _. subst e. exfalso. apply Hc. left. reflexivity.
    + cbn in H2. injection H2 as _ H2. right. exists m, q. exact H2.
Qed.

Lemma strip_cr_cons (x : N) (r : list N) :
  strip_cr (x :: r) =
  if (x =? 13)%N && match r with [] => true | _ => false end then [] else x :: strip_cr r.
Proof.
  destruct r as [|y r].
  - destruct x as [|p]; [reflexivity |].
    destruct p as [p | p |]; try reflexivity.
    destruct p as [p | p |]; try reflexivity.
    destruct p as [p | p |]; try reflexivity.
    destruct p as [p | p |]; reflexivity.
  - rewrite andb_false_r.
    destruct x as [|p]; [reflexivity |].
    destruct p as [p | p |]; try reflexivity.
    destruct p as [p | p |]; try reflexivity.
    destruct p as [p | p |]; try reflexivity.
    destruct p as [p | p |]; reflexivity.
Qed.

Lemma strip_cr_cases (l : list N) : strip_cr l = l \/ l = (strip_cr l ++ [13])%list.
Proof.
  induction l as [|x r IH]; [left; reflexivity |].
  rewrite strip_cr_cons. destruct r as [|y r].
  - destruct (N.eqb_spec x 13) as [-> | Hx]; cbn [andb]; [right; reflexivity | left; reflexivity].
  - rewrite andb_false_r. destruct IH as [IH | IH]; [left; now rewrite IH |].
    right. cbn [app]. now rewrite <- IH.
Qed.

Lemma strip_cr_incl (l : list N) (b : N) : In b (strip_cr l) -> In b l.
Proof.
  destruct (strip_cr_cases l) as [H | H]; [now rewrite H |].
  intros Hb. rewrite H. apply in_or_app. left. exact Hb.
Qed.

(* every line is a stretch of the text *)
Lemma lines_sub (data : list N) : forall cur l,
  In l (split_lines data cur) -> exists p q, (rev cur ++ data = p ++ l ++ q)%list.
Proof.
  induction data as [|b r IH]; intros cur l Hl.
  - cbn [split_lines] in Hl. destruct cur as [|c cur]; [destruct Hl |].
    destruct Hl as [<- | []]. exists [], []. now rewrite !app_nil_r.
  - rewrite split_lines_cons in Hl. destruct (N.eqb_spec b 10) as [-> | Hb].
    + destruct Hl as [<- | Hl].
      * destruct (strip_cr_cases (rev cur)) as [H | H].
        -- exists [], (10 :: r). now rewrite H.
        -- exists [], (13 :: 10 :: r). rewrite H at 1. now rewrite <- app_assoc.
      * destruct (IH [] l Hl) as (p & q & H). cbn [rev app] in H.
        exists (rev cur ++ 10 :: p)%list, q. rewrite H. rewrite <- app_assoc. reflexivity.
    + destruct (IH (b :: cur) l Hl) as (p & q & H). exists p, q. rewrite <- H.
      cbn [rev]. now rewrite <- app_assoc.
Qed.

(* no line contains a line feed *)
Lemma lines_nolf (data : list N) : forall cur l,
  In l (split_lines data cur) -> ~ In 10 cur -> ~ In 10 l.
Proof.
  induction data as [|b r IH]; intros cur l Hl Hc.
  - cbn [split_lines] in Hl. destruct cur as [|c cur]; [destruct Hl |].
    destruct Hl as [<- | []]. intros H. apply Hc. now apply in_rev.
  - rewrite split_lines_cons in Hl. destruct (N.eqb_spec b 10) as [-> | Hb].
    + destruct Hl as [<- | Hl].
      * intros H. apply strip_cr_incl in H. apply Hc. now apply in_rev.
      * apply (IH [] l Hl). intros [].
    + apply (IH (b :: cur) l Hl). intros [H | H]; [congruence | contradiction].
Qed.

Lemma split_lines_nonempty (data cur : list N) :
  (rev cur ++ data <> [])%list -> split_lines data cur <> [].
Proof.
  revert cur. induction data as [|b r IH]; intros cur H.
  - rewrite app_nil_r in H. destruct cur; [cbn in H; congruence | cbn [split_lines]; discriminate].
  - rewrite split_lines_cons. destruct (b =? 10)%N; [discriminate |].
    apply IH. cbn [rev]. rewrite <- app_assoc. cbn [app]. intros E. apply app_eq_nil in E. destruct E; discriminate.
Qed.

(* a stretch of the text without line feed that does not end with CR lies in one line *)
Lemma lines_keep (x : list N) (data : list N) : forall cur,
  x <> [] -> ~ In 10 x -> List.last x 0 <> 13 ->
  lcontains x (rev cur ++ data)%list ->
  exists l, In l (split_lines data cur) /\ lcontains x l.
Proof.
  intros cur Hne Hlf Hcr. revert cur.
  assert (Hstrip : forall l, lcontains x l -> lcontains x (strip_cr l)).
  { intros l (p & q & Hl). destruct (strip_cr_cases l) as [H | H]; [rewrite H; exists p, q; exact Hl |].
    rewrite Hl in H at 1. destruct q as [|z0 q0].
    - exfalso. rewrite app_nil_r in H.
      destruct (exists_last Hne) as (x' & y & Hx). rewrite Hx in H. rewrite app_assoc in H.
      apply app_inj_tail in H. destruct H as [_ Hy]. apply Hcr. rewrite Hx, Hy. apply last_last.
    - destruct (@exists_last _ (z0 :: q0)) as (q' & z & Hq); [discriminate |].
      rewrite Hq in H. rewrite !app_assoc in H. apply app_inj_tail in H. destruct H as [H _].
      exists p, q'. rewrite <- H. now rewrite app_assoc. }
  induction data as [|b r IH]; intros cur Hc.
  - rewrite app_nil_r in Hc. destruct cur as [|c cur].
    + destruct Hc as (p & q & Hc). cbn in Hc. symmetry in Hc. apply app_eq_nil in Hc. destruct Hc as [_ Hc].
      apply app_eq_nil in Hc. destruct Hc as [Hc _]. contradiction.
    + exists (rev (c :: cur)). split; [left; reflexivity | exact Hc].
  - rewrite split_lines_cons. destruct (N.eqb_spec b 10) as [-> | Hb].
    + destruct (lcontains_cut _ _ _ _ Hlf Hc) as [H | H].
      * exists (strip_cr (rev cur)). split; [left; reflexivity | apply Hstrip, H].
      * destruct (IH [] H) as (l & Hl & Hx). exists l. split; [right; exact Hl | exact Hx].
    + apply IH. cbn [rev]. rewrite <- app_assoc. exact Hc.
Qed.

(* ---- the same for strings ------------------------------------------------------------------ *)
Definition lt256 (b : N) : Prop := b < 256.

Lemma lt256_str_bytes (s : string) : Forall lt256 (str_bytes s).
Proof.
  induction s as [|c s IH]; cbn [str_bytes]; constructor; [| exact IH].
  unfold lt256. apply N_ascii_bounded.
Qed.

Lemma no_lf_string_of_bytes (l : list N) : Forall lt256 l -> ~ In 10 l -> no_lf (string_of_bytes l) = true.
Proof.
  induction l as [|b l IH]; intros Hb Hl; [reflexivity |].
  inversion Hb as [|? ? Hb1 Hb2]; subst. cbn [string_of_bytes no_lf].
  rewrite N_ascii_embedding by exact Hb1. rewrite IH; [| exact Hb2 | intros H; apply Hl; right; exact H].
  destruct (N.eqb_spec b 10) as [-> | _]; [exfalso; apply Hl; left; reflexivity | reflexivity].
Qed.

Lemma no_lf_str_bytes (s : string) : no_lf s = true -> ~ In 10 (str_bytes s).
Proof.
  induction s as [|c s IH]; cbn [no_lf str_bytes]; intros H; [intros [] |].
  apply andb_prop in H. destruct H as [H1 H2]. intros [E | E]; [| exact (IH H2 E)].
  rewrite E in H1. discriminate H1.
Qed.

Lemma no_lf_app (a b : string) : no_lf (a ++ b) = no_lf a && no_lf b.
Proof. induction a as [|c a IH]; cbn; [reflexivity | now rewrite IH, andb_assoc]. Qed.

Definition LF : ascii := ascii_of_N 10.

Lemma no_lf_has_char (x : string) : no_lf x = true -> has_char LF x = false.
Proof.
  induction x as [|c x IH]; cbn [no_lf has_char]; intros H; [reflexivity |].
  apply andb_prop in H. destruct H as [H1 H2]. rewrite (IH H2), orb_false_r.
  destruct (Ascii.eqb_spec LF c) as [<- | _]; [discriminate H1 | reflexivity].
Qed.

Lemma sub_lt256 (l p x q : list N) : Forall lt256 l -> l = (p ++ x ++ q)%list -> Forall lt256 x.
Proof.
  intros H ->. apply Forall_app in H. destruct H as [_ H]. apply Forall_app in H. tauto.
Qed.

Lemma lines_of_no_lf (m l : string) : In l (lines_of m) -> no_lf l = true.
Proof.
  unfold lines_of, str_lines. intros H. apply in_map_iff in H. destruct H as (l' & <- & Hl).
  apply no_lf_string_of_bytes.
  - destruct (lines_sub _ _ _ Hl) as (p & q & E). cbn [rev app] in E.
    exact (sub_lt256 _ _ _ _ (lt256_str_bytes m) E).
  - apply (lines_nolf _ _ _ Hl). intros [].
Qed.

Lemma lines_of_sub (m l : string) : In l (lines_of m) -> contains l m.
Proof.
  unfold lines_of, str_lines. intros H. apply in_map_iff in H. destruct H as (l' & <- & Hl).
  destruct (lines_sub _ _ _ Hl) as (p & q & E). cbn [rev app] in E.
  exists (string_of_bytes p), (string_of_bytes q).
  rewrite <- !string_of_bytes_app, <- E. symmetry. apply string_of_str_bytes.
Qed.

Lemma lines_of_keep (x m : string) :
  x <> "" -> no_lf x = true -> List.last (str_bytes x) 0 <> 13 -> contains x m ->
  exists l, In l (lines_of m) /\ contains x l.
Proof.
  intros Hne Hlf Hcr (p & q & ->).
  assert (Hx : str_bytes x <> []) by (destruct x; [congruence | discriminate]).
  destruct (lines_keep (str_bytes x) (str_bytes (p ++ x ++ q)) [] Hx (no_lf_str_bytes _ Hlf) Hcr)
    as (l & Hl & (a & b & E)).
  { exists (str_bytes p), (str_bytes q). cbn [rev app]. now rewrite !str_bytes_app. }
  exists (string_of_bytes l). split.
  - unfold lines_of, str_lines. apply in_map. exact Hl.
  - exists (string_of_bytes a), (string_of_bytes b). rewrite E, !string_of_bytes_app.
    now rewrite string_of_str_bytes.
Qed.

Lemma lines_of_nonempty (c : ascii) (m : string) : lines_of (String c m) <> [].
Proof.
  unfold lines_of, str_lines. intros H. apply map_eq_nil in H. revert H.
  apply split_lines_nonempty. cbn. discriminate.
Qed.

(* ---- error / error_continue ---------------------------------------------------------------- *)
Lemma message_lines_continue (ls : list string) :
  Forall (fun l => no_lf l = true) ls -> message_lines (continue_lines ls).
Proof.
  induction 1 as [|l ls Hl _ IH]; cbn [continue_lines]; [constructor |].
  apply ml_line; [right; reflexivity | exact Hl | exact IH].
Qed.

Lemma lines_of_all_no_lf (m : string) : Forall (fun l => no_lf l = true) (lines_of m).
Proof. apply Forall_forall. intros l. apply lines_of_no_lf. Qed.

Lemma message_lines_error (m : string) : message_lines (error_text m).
Proof.
  unfold error_text. pose proof (lines_of_all_no_lf m) as H. destruct (lines_of m) as [|l r]; [constructor |].
  inversion H; subst. apply ml_line; [left; reflexivity | assumption | apply message_lines_continue; assumption].
Qed.

Lemma message_lines_cont (m : string) : message_lines (error_continue_text m).
Proof. apply message_lines_continue, lines_of_all_no_lf. Qed.

Lemma error_text_starts (c : ascii) (m : string) : starts_with "error: " (error_text (String c m)).
Proof.
  unfold error_text. pose proof (lines_of_nonempty c m) as H.
  destruct (lines_of (String c m)) as [|l r]; [congruence |]. eexists. reflexivity.
Qed.

Lemma continue_text_starts (m : string) :
  error_continue_text m = "" \/ starts_with blanks7 (error_continue_text m).
Proof.
  unfold error_continue_text. destruct (lines_of m) as [|l r]; [left; reflexivity |].
  right. cbn [continue_lines]. eexists. reflexivity.
Qed.

Lemma contains_continue_lines (L : string) (ls : list string) : In L ls -> contains L (continue_lines ls).
Proof.
  induction ls as [|l r IH]; intros H; [destruct H |]. cbn [continue_lines].
  destruct H as [-> | H].
  - apply contains_app_r, contains_here.
  - apply contains_app_r, contains_app_r, contains_app_r, IH, H.
Qed.

Lemma contains_line_error (L m : string) : In L (lines_of m) -> contains L (error_text m).
Proof.
  unfold error_text. destruct (lines_of m) as [|l r]; intros H; [destruct H |].
  destruct H as [-> | H].
  - apply contains_app_r, contains_here.
  - apply contains_app_r, contains_app_r, contains_app_r, contains_continue_lines, H.
Qed.

(* a text without line feed, not ending with CR, that occurs in the message occurs in what is
   written *)
Lemma keep_error (x m : string) :
  x <> "" -> no_lf x = true -> List.last (str_bytes x) 0 <> 13 -> contains x m ->
  contains x (error_text m) /\ contains x (error_continue_text m).
Proof.
  intros H1 H2 H3 H4. destruct (lines_of_keep x m H1 H2 H3 H4) as (l & Hl & Hx). split.
  - exact (contains_trans _ _ _ Hx (contains_line_error _ _ Hl)).
  - exact (contains_trans _ _ _ Hx (contains_continue_lines _ _ Hl)).
Qed.

(* conversely: what occurs in the written lines and cannot begin inside the line prefix occurs
   in the message *)
Lemma skip_prefix (c : ascii) (x' pfx l : string) :
  has_char c pfx = false -> contains (String c x') (pfx ++ l) -> contains (String c x') l.
Proof.
  intros Hc H. destruct (contains_app_inv _ _ _ H) as [Ha | [Hb | (x1 & x2 & Hx & H1 & _ & He & _)]].
  - apply (contains_has_char _ _ c) in Ha; [congruence | cbn; now rewrite Ascii.eqb_refl].
  - exact Hb.
  - destruct x1 as [|d x1]; [congruence |]. cbn in Hx. injection Hx as <- _.
    destruct He as (r & ->). rewrite has_char_app in Hc. cbn in Hc. rewrite Ascii.eqb_refl in Hc.
    now rewrite orb_true_r in Hc.
Qed.

Lemma back_continue_lines (c : ascii) (x' : string) (ls : list string) :
  has_char c blanks7 = false -> no_lf (String c x') = true ->
  contains (String c x') (continue_lines ls) -> exists L, In L ls /\ contains (String c x') L.
Proof.
  intros Hc Hlf. induction ls as [|l r IH]; cbn [continue_lines]; intros H.
  - apply contains_nil_inv in H. discriminate H.
  - rewrite <- sapp_assoc in H. unfold nl in H. cbn [append] in H.
    change (String (ascii_of_N 10) (continue_lines r)) with (String LF (continue_lines r)) in H.
    destruct (contains_cut _ _ _ _ (no_lf_has_char _ Hlf) H) as [H1 | H1].
    + exists l. split; [left; reflexivity | exact (skip_prefix _ _ _ _ Hc H1)].
    + destruct (IH H1) as (L & HL & HL'). exists L. split; [right; exact HL | exact HL'].
Qed.

Lemma back_error (c : ascii) (x' m : string) :
  has_char c "error: " = false -> no_lf (String c x') = true ->
  (contains (String c x') (error_text m) -> contains (String c x') m) /\
  (contains (String c x') (error_continue_text m) -> contains (String c x') m).
Proof.
  intros Hc Hlf.
  assert (Hb : has_char c blanks7 = false).
  { cbn in Hc. cbn. destruct (Ascii.eqb c " "); [| reflexivity]. rewrite !orb_true_r in Hc. discriminate Hc. }
  split.
  - unfold error_text. intros H. destruct (lines_of m) as [|l r] eqn:E.
    + apply contains_nil_inv in H. discriminate H.
    + assert (H' : contains (String c x') (("error: " ++ l) ++ String LF (continue_lines r))).
      { rewrite sapp_assoc. exact H. }
      destruct (contains_cut _ _ _ _ (no_lf_has_char _ Hlf) H') as [H1 | H1].
      * apply (contains_trans _ l); [exact (skip_prefix _ _ _ _ Hc H1) |].
        apply lines_of_sub. rewrite E. left. reflexivity.
      * destruct (back_continue_lines c x' r Hb Hlf H1) as (L & HL & HL').
        apply (contains_trans _ L); [exact HL' |]. apply lines_of_sub. rewrite E. right. exact HL.
  - unfold error_continue_text. intros H.
    destruct (back_continue_lines c x' _ Hb Hlf H) as (L & HL & HL').
    apply (contains_trans _ L); [exact HL' | apply lines_of_sub, HL].
Qed.

(* ====================================================================================== *)
(* 2. the shape of a diagnostic: (b)                                                      *)
(* ====================================================================================== *)
Definition cont_part (p : part) : Prop := (exists m, p = p_continue m) \/ (exists s e, p = Rgn s e).

Lemma cont_part_hint (name : string) (close : option string) : cont_part (undeclared_hint name close).
Proof.
  unfold undeclared_hint. destruct close; [left; eexists; reflexivity |].
  destruct (looks_like_register_wire name); left; eexists; reflexivity.
Qed.

Lemma cont_part_mux (g : list (N * list dspan)) : Forall cont_part (flat_map mux_group_parts g).
Proof.
  induction g as [|[w l] g IH]; [constructor |]. cbn [flat_map]. apply Forall_app. split; [| exact IH].
  unfold mux_group_parts. constructor; [left; eexists; reflexivity |].
  apply Forall_forall. intros p Hp. apply in_map_iff in Hp. destruct Hp as (sp & <- & _).
  right. eexists _, _. reflexivity.
Qed.

Lemma cont_part_loop (lst : list string) (l : list nat) : Forall cont_part (map (loop_line lst) l).
Proof.
  apply Forall_forall. intros p Hp. apply in_map_iff in Hp. destruct Hp as (i & <- & _).
  left. eexists. reflexivity.
Qed.

Ltac solve_cont :=
  first [ apply cont_part_hint
        | left; eexists; reflexivity
        | right; eexists _, _; reflexivity ].
Ltac solve_conts :=
  repeat (apply Forall_cons; [solve_cont |]); try apply Forall_nil.

Lemma render_parts_shape uc fc e ps :
  render_parts uc fc e = Some ps ->
  exists c m0 rest, ps = p_error (String c m0) :: rest /\ Forall cont_part rest.
Proof.
  intros H. destruct e; unfold render_parts in H.
  all: try (injection H as <-; eexists _, _, _; split; [reflexivity | solve_conts]; fail).
  - (* MismatchedMuxWidths *)
    destruct (group_by_width options widths []) as [g|]; [| discriminate H].
    injection H as <-. eexists _, _, _. split; [reflexivity | apply cont_part_mux].
  - (* PartialFixedInput *)
    injection H as <-. eexists _, _, _. split; [reflexivity |].
    destruct missing_inputs; solve_conts.
  - (* WireLoop *)
    injection H as <-. eexists _, _, _. split; [reflexivity | apply cont_part_loop].
  - (* UnrecognizedToken *)
    destruct (format_token_list expected) as [fmt|]; [| discriminate H].
    destruct (mem_str semicolon_token expected).
    + destruct (line_number_and_bounds fc (fst location)) as [[[n st] nx]|]; [| discriminate H].
      destruct (get_range (fc_data fc) st (fst location)) as [before|]; [| discriminate H].
      injection H as <-. eexists _, _, _. split; [reflexivity |].
      destruct (all_whitespace uc before); solve_conts.
    + injection H as <-. eexists _, _, _. split; [reflexivity | solve_conts].
  - (* ExtraToken *)
    destruct (get_range (fc_data fc) (fst sp) (snd sp)) as [tok|]; [| discriminate H].
    injection H as <-. eexists _, _, _. split; [reflexivity | solve_conts].
Qed.

(* ---- region texts -------------------------------------------------------------------------- *)
Lemma render_lines_end ls : forall n b e bo eo,
  render_lines ls n b e bo eo = [] \/ exists body, render_lines ls n b e bo eo = (body ++ [10])%list.
Proof.
  induction ls as [|l r IH]; intros n b e bo eo; [left; reflexivity |]. right.
  cbn [render_lines]. destruct (IH (S n) b e bo eo) as [-> | (body & ->)].
  - eexists. rewrite app_nil_r. rewrite !app_assoc. reflexivity.
  - eexists. rewrite !app_assoc. reflexivity.
Qed.

Definition ends_lf (l : list N) : Prop := exists b, l = (b ++ [10])%list.
Lemma ends_lf_one : ends_lf [10].
Proof. exists []. reflexivity. Qed.
Lemma ends_lf_cons x l : ends_lf l -> ends_lf (x :: l).
Proof. intros (b & ->). exists (x :: b). reflexivity. Qed.
Lemma ends_lf_app_r a l : ends_lf l -> ends_lf (a ++ l)%list.
Proof. intros (b & ->). exists (a ++ b)%list. now rewrite app_assoc. Qed.
Lemma ends_lf_string l : ends_lf l -> ends_with nl (string_of_bytes l).
Proof. intros (b & ->). exists (string_of_bytes b). now rewrite string_of_bytes_app. Qed.

Theorem region_text_shape_holds : stmt_region_text_shape.
Proof.
  intros fc s e out H. unfold show_region in H.
  destruct (line_number_and_bounds fc _) as [[[n1 k1] x1]|]; [| discriminate H].
  destruct (line_number_and_bounds fc _) as [[[n2 k2] x2]|]; [| discriminate H].
  destruct (get_range _ _ _) as [seg|]; [| discriminate H]. injection H as <-. split.
  - eexists. cbn [app string_of_bytes]. reflexivity.
  - apply ends_lf_string.
    match goal with |- context [render_lines ?a ?b ?c ?d ?e ?f] =>
      destruct (render_lines_end a b c d e f) as [-> | (body & ->)] end;
    repeat first [apply ends_lf_one | apply ends_lf_cons | apply ends_lf_app_r].
Qed.

(* ---- assembling ---------------------------------------------------------------------------- *)
Lemma parts_text_assembled fc ps text : parts_text fc ps = Some text -> assembled (show_region fc) ps text.
Proof.
  revert text. induction ps as [|[m | s e] r IH]; intros text H; cbn [parts_text] in H.
  - injection H as <-. constructor.
  - destruct (parts_text fc r) as [t|]; [| discriminate H]. injection H as <-. constructor. now apply IH.
  - destruct (show_region fc s e) as [out|] eqn:Hs; [| discriminate H].
    destruct (parts_text fc r) as [t|]; [| discriminate H]. injection H as <-.
    constructor; [exact Hs | now apply IH].
Qed.

Lemma ends_with_app (a b : string) : ends_with nl a -> b = "" \/ ends_with nl b -> ends_with nl (a ++ b).
Proof.
  intros Ha [-> | (r & ->)]; [now rewrite sapp_nil_r |]. exists (a ++ r). now rewrite sapp_assoc.
Qed.

Lemma message_lines_end (m : string) : message_lines m -> m = "" \/ ends_with nl m.
Proof.
  induction 1 as [|p l r Hp Hl Hr IH]; [left; reflexivity |]. right.
  destruct IH as [-> | (t & ->)].
  - exists (p ++ l). now rewrite sapp_nil_r, sapp_assoc.
  - exists (p ++ l ++ nl ++ t). now rewrite !sapp_assoc.
Qed.

Lemma cont_part_msg (p : part) (m : string) : cont_part p -> p = Msg m ->
  message_lines m /\ (m = "" \/ starts_with blanks7 m).
Proof.
  intros [(m' & ->) | (s & e & ->)] H; [| discriminate H]. unfold p_continue in H. injection H as <-.
  split; [apply message_lines_cont | apply continue_text_starts].
Qed.

Lemma parts_text_end fc ps text :
  Forall cont_part ps -> parts_text fc ps = Some text -> text = "" \/ ends_with nl text.
Proof.
  intros Hc. revert text. induction Hc as [|p r Hp _ IH]; intros text H; cbn [parts_text] in H.
  - injection H as <-. left. reflexivity.
  - destruct p as [m | s e].
    + destruct (parts_text fc r) as [t|]; [| discriminate H]. injection H as <-.
      destruct (cont_part_msg _ m Hp eq_refl) as [Hm _].
      destruct (message_lines_end _ Hm) as [-> | Hm']; [exact (IH _ eq_refl) |].
      right. apply ends_with_app; [exact Hm' | exact (IH _ eq_refl)].
    + destruct (show_region fc s e) as [out|] eqn:Hs; [| discriminate H].
      destruct (parts_text fc r) as [t|]; [| discriminate H]. injection H as <-.
      right. apply ends_with_app; [exact (proj2 (region_text_shape_holds _ _ _ _ Hs)) | exact (IH _ eq_refl)].
Qed.

Theorem render_starts_with_error_holds : stmt_render_starts_with_error.
Proof.
  intros uc fc e text H. unfold render_one in H.
  destruct (render_parts uc fc e) as [ps|] eqn:Hp; [| discriminate H].
  destruct (render_parts_shape _ _ _ _ Hp) as (c & m0 & rest & -> & Hrest).
  unfold p_error in H. cbn [parts_text] in H.
  destruct (parts_text fc rest) as [t|] eqn:Ht; [| discriminate H]. injection H as <-.
  pose proof (error_text_starts c m0) as Hst.
  split; [destruct Hst as (r & ->); exists (r ++ t); now rewrite sapp_assoc |].
  split.
  { apply ends_with_app; [| exact (parts_text_end _ _ _ Hrest Ht)].
    destruct (message_lines_end _ (message_lines_error (String c m0))) as [E0 | E0]; [| exact E0].
    destruct Hst as (r & Hr). rewrite Hr in E0. discriminate E0. }
  exists (error_text (String c m0)), rest. split; [reflexivity |]. split; [exact Hst |]. split.
  - intros m [Hm | Hm]; [injection Hm as <-; apply message_lines_error |].
    rewrite Forall_forall in Hrest. exact (proj1 (cont_part_msg _ m (Hrest _ Hm) eq_refl)).
  - intros m Hm. rewrite Forall_forall in Hrest. exact (proj2 (cont_part_msg _ m (Hrest _ Hm) eq_refl)).
Qed.

Theorem render_all_blocks_holds : stmt_render_all_blocks.
Proof.
  intros uc fc es. induction es as [|e r IH]; intros text H; cbn [render_all] in H.
  - injection H as <-. exists []. split; [constructor |]. split; [reflexivity | congruence].
  - destruct (render_one uc fc e) as [a|] eqn:Ha; [| discriminate H].
    destruct (render_all uc fc r) as [b|] eqn:Hb; [| discriminate H]. injection H as <-.
    destruct (IH b eq_refl) as (blocks & HF & -> & Hne).
    exists (a :: blocks). split; [constructor; assumption |]. split; [reflexivity |]. intros _.
    destruct (render_starts_with_error_holds _ _ _ _ Ha) as ((x & ->) & He & _). split.
    + exists (x ++ concat_strings blocks). now rewrite sapp_assoc.
    + apply ends_with_app; [exact He |]. destruct r as [|e' r'].
      * inversion HF; subst. left. reflexivity.
      * right. apply Hne. discriminate.
Qed.

(* ====================================================================================== *)
(* 3. which regions are shown: (c)                                                        *)
(* ====================================================================================== *)
Lemma regions_of_app (a b : list part) : regions_of (a ++ b) = (regions_of a ++ regions_of b)%list.
Proof. unfold regions_of. apply flat_map_app. Qed.

Lemma regions_of_R (l : list dspan) : regions_of (map p_region l) = l.
Proof.
  induction l as [|[s e] l IH]; [reflexivity |]. cbn [map]. change (p_region (s, e) :: map p_region l) with ([p_region (s, e)] ++ map p_region l)%list.
  rewrite regions_of_app, IH. reflexivity.
Qed.

Lemma regions_of_loop (lst : list string) (l : list nat) : regions_of (map (loop_line lst) l) = [].
Proof. induction l as [|i l IH]; [reflexivity |]. cbn [map]. unfold regions_of in *. cbn [flat_map loop_line p_continue]. exact IH. Qed.

Lemma hint_is_msg (name : string) (close : option string) : exists m, undeclared_hint name close = Msg m.
Proof.
  unfold undeclared_hint. destruct close; [eexists; reflexivity |].
  destruct (looks_like_register_wire name); eexists; reflexivity.
Qed.

(* ---- MismatchedMuxWidths: the BTreeMap is a stable sort by width --------------------------- *)
Definition flat (g : list (N * list dspan)) : list (N * dspan) :=
  flat_map (fun wl => map (pair (fst wl)) (snd wl)) g.

Fixpoint keys_ok (lo : option N) (m : list (N * list dspan)) : Prop :=
  match m with
  | [] => True
  | (w, l) :: r => match lo with None => True | Some k => k < w end /\ l <> [] /\ keys_ok (Some w) r
  end.

Definition head_gt (w : N) (b : list (N * dspan)) : Prop :=
  match b with [] => True | y :: _ => w < fst y end.

Lemma insert_after_head x b : head_gt (fst x) b -> insert_after x b = x :: b.
Proof.
  destruct b as [|y b]; [reflexivity |]. cbn [head_gt insert_after]. intros H.
  destruct (N.ltb_spec (fst x) (fst y)); [reflexivity | lia].
Qed.

Lemma insert_after_skip x a b :
  Forall (fun y => fst y <= fst x) a -> insert_after x (a ++ b) = (a ++ insert_after x b)%list.
Proof.
  induction 1 as [|y a Hy _ IH]; [reflexivity |]. cbn [app insert_after].
  destruct (N.ltb_spec (fst x) (fst y)); [lia | now rewrite IH].
Qed.

Lemma flat_head_gt k r : keys_ok (Some k) r -> head_gt k (flat r).
Proof.
  destruct r as [|[w l] r]; [intros _; exact I |]. cbn [keys_ok]. intros (Hk & Hl & _).
  destruct l as [|o l]; [congruence |]. cbn. exact Hk.
Qed.

Lemma keys_ok_insert w o : forall m lo,
  keys_ok lo m -> match lo with None => True | Some k => k < w end -> keys_ok lo (insert_by_width w o m).
Proof.
  induction m as [|[w' l] r IH]; intros lo Hm Hlo.
  - cbn. split; [exact Hlo |]. split; [discriminate | exact I].
  - cbn [insert_by_width]. cbn [keys_ok] in Hm. destruct Hm as (H1 & H2 & H3).
    destruct (N.ltb_spec w w') as [Hlt | Hge].
    + cbn [keys_ok]. split; [exact Hlo |]. split; [discriminate |]. split; [exact Hlt |]. split; assumption.
    + destruct (N.eqb_spec w w') as [-> | Hne].
      * cbn [keys_ok]. split; [exact H1 |]. split; [| exact H3]. destruct l; discriminate.
      * cbn [keys_ok]. split; [exact H1 |]. split; [exact H2 |]. apply IH; [exact H3 | lia].
Qed.

Lemma flat_insert w o : forall m lo,
  keys_ok lo m -> flat (insert_by_width w o m) = insert_after (w, o) (flat m).
Proof.
  induction m as [|[w' l] r IH]; intros lo Hm; [reflexivity |].
  cbn [insert_by_width]. cbn [keys_ok] in Hm. destruct Hm as (H1 & H2 & H3).
  destruct (N.ltb_spec w w') as [Hlt | Hge].
  - symmetry. apply insert_after_head. cbn [fst]. destruct l as [|o' l]; [congruence |]. cbn. exact Hlt.
  - destruct (N.eqb_spec w w') as [-> | Hne].
    + unfold flat. cbn [flat_map fst snd]. rewrite map_app. cbn [map]. rewrite <- app_assoc.
      rewrite insert_after_skip.
      * cbn [app]. f_equal. symmetry. apply insert_after_head. cbn [fst]. exact (flat_head_gt _ _ H3).
      * apply Forall_forall. intros y Hy. apply in_map_iff in Hy. destruct Hy as (z & <- & _). cbn. lia.
    + unfold flat. cbn [flat_map fst snd]. fold (flat (insert_by_width w o r)). fold (flat r).
      rewrite (IH _ H3). symmetry. apply insert_after_skip.
      apply Forall_forall. intros y Hy. apply in_map_iff in Hy. destruct Hy as (z & <- & _). cbn. lia.
Qed.

Lemma group_by_width_sorted : forall options widths m g,
  keys_ok None m -> group_by_width options widths m = Some g ->
  flat g = fold_left (fun acc x => insert_after x acc) (sized_options options widths) (flat m).
Proof.
  induction options as [|o r IH]; intros widths m g Hm H.
  - cbn in H. injection H as <-. reflexivity.
  - cbn [group_by_width] in H. destruct widths as [|[n|] ws]; [discriminate H | |].
    + cbn [sized_options fold_left]. rewrite <- (flat_insert n o m None Hm).
      apply IH; [apply keys_ok_insert; [exact Hm | exact I] | exact H].
    + cbn [sized_options]. apply IH; assumption.
Qed.

Lemma regions_of_mux (g : list (N * list dspan)) : regions_of (flat_map mux_group_parts g) = map snd (flat g).
Proof.
  induction g as [|[w l] g IH]; [reflexivity |]. cbn [flat_map]. rewrite regions_of_app, IH.
  unfold flat. cbn [flat_map]. rewrite map_app. f_equal. unfold mux_group_parts. cbn [fst snd].
  change (p_continue ?m :: map p_region l) with ([p_continue m] ++ map p_region l)%list. rewrite regions_of_app, regions_of_R.
  rewrite map_map. cbn [snd]. now rewrite map_id.
Qed.

Lemma group_by_width_some : forall options widths m,
  (List.length options <=? List.length widths)%nat = true <-> group_by_width options widths m <> None.
Proof.
  induction options as [|o r IH]; intros widths m; [cbn; split; [discriminate | reflexivity] |].
  cbn [group_by_width List.length]. destruct widths as [|[n|] ws]; cbn [List.length].
  - split; [discriminate | congruence].
  - apply (IH ws).
  - apply (IH ws).
Qed.

(* ---- the main statement -------------------------------------------------------------------- *)
Lemma render_parts_regions uc fc e ps : render_parts uc fc e = Some ps -> regions_of ps = error_spans e.
Proof.
  intros H. destruct e; unfold render_parts in H.
  all: try (injection H as <-; cbn; rewrite <- ?surjective_pairing; reflexivity).
  - (* MismatchedMuxWidths *)
    destruct (group_by_width options widths []) as [g|] eqn:Hg; [| discriminate H]. injection H as <-.
    change (p_error ?m :: ?r) with ([p_error m] ++ r)%list. rewrite regions_of_app, regions_of_mux.
    rewrite (group_by_width_sorted options widths [] g I Hg). reflexivity.
  - (* UndeclaredWireAssigned *)
    injection H as <-. destruct (hint_is_msg name close_name) as (m & ->). cbn. now rewrite <- surjective_pairing.
  - (* UndeclaredWireRead *)
    injection H as <-. destruct (hint_is_msg name close_name) as (m & ->). cbn. now rewrite <- surjective_pairing.
  - (* PartialFixedInput *)
    injection H as <-. destruct missing_inputs; reflexivity.
  - (* WireLoop *)
    injection H as <-. change (p_error ?m :: ?r) with ([p_error m] ++ r)%list. rewrite regions_of_app, regions_of_loop. reflexivity.
  - (* UnrecognizedToken *)
    destruct (format_token_list expected) as [fmt|]; [| discriminate H].
    destruct (mem_str semicolon_token expected).
    + destruct (line_number_and_bounds fc (fst location)) as [[[n st] nx]|]; [| discriminate H].
      destruct (get_range (fc_data fc) st (fst location)) as [before|]; [| discriminate H].
      injection H as <-. destruct (all_whitespace uc before); cbn; now rewrite <- surjective_pairing.
    + injection H as <-. cbn. now rewrite <- surjective_pairing.
  - (* ExtraToken *)
    destruct (get_range (fc_data fc) (fst sp) (snd sp)) as [tok|]; [| discriminate H].
    injection H as <-. cbn. now rewrite <- surjective_pairing.
Qed.

Theorem render_regions_holds : stmt_render_regions.
Proof.
  intros uc fc e text H. unfold render_one in H.
  destruct (render_parts uc fc e) as [ps|] eqn:Hp; [| discriminate H].
  exists ps. split; [reflexivity |]. split; [exact (parts_text_assembled _ _ _ H) |].
  exact (render_parts_regions _ _ _ _ Hp).
Qed.

Theorem error_spans_vs_hook_holds : stmt_error_spans_vs_hook.
Proof. intros e H. destruct e; try reflexivity. exfalso. exact (H _ _ eq_refl). Qed.

(* ---- sort_by_width is a stable sort ------------------------------------------------------- *)
Definition wle (a b : N * dspan) : Prop := width_of a <= width_of b.

Lemma insert_after_perm x l : Permutation (insert_after x l) (x :: l).
Proof.
  induction l as [|y l IH]; [reflexivity |]. cbn [insert_after].
  destruct (fst x <? fst y)%N; [reflexivity |].
  rewrite IH. apply perm_swap.
Qed.

Lemma fold_insert_perm l : forall acc,
  Permutation (fold_left (fun a x => insert_after x a) l acc) (acc ++ l).
Proof.
  induction l as [|x l IH]; intros acc; cbn [fold_left]; [now rewrite app_nil_r |].
  rewrite IH. rewrite insert_after_perm. apply Permutation_middle.
Qed.

Lemma insert_after_hdrel y x r : HdRel wle y r -> wle y x -> HdRel wle y (insert_after x r).
Proof.
  intros Hr Hx. destruct r as [|z r]; [constructor; exact Hx |]. cbn [insert_after].
  destruct (fst x <? fst z)%N; constructor; [exact Hx | inversion Hr; assumption].
Qed.

Lemma insert_after_sorted x l : Sorted wle l -> Sorted wle (insert_after x l).
Proof.
  induction 1 as [|y l Hl IH Hy]; [repeat constructor |]. cbn [insert_after].
  destruct (N.ltb_spec (fst x) (fst y)) as [Hlt | Hge].
  - constructor; [constructor; assumption | constructor; unfold wle, width_of; lia].
  - constructor; [exact IH | apply insert_after_hdrel; [exact Hy | unfold wle, width_of; lia]].
Qed.

Lemma fold_insert_sorted l : forall acc,
  Sorted wle acc -> Sorted wle (fold_left (fun a x => insert_after x a) l acc).
Proof. induction l as [|x l IH]; intros acc H; [exact H | apply IH, insert_after_sorted, H]. Qed.

Lemma wle_trans : Relations_1.Transitive wle.
Proof. intros a b c. unfold wle. lia. Qed.

Lemma filter_insert_after w x l :
  Sorted wle l ->
  filter (fun p => width_of p =? w)%N (insert_after x l) =
  (filter (fun p => width_of p =? w)%N l ++ if (width_of x =? w)%N then [x] else [])%list.
Proof.
  intros Hs. apply (Sorted_StronglySorted wle_trans) in Hs.
  induction Hs as [|y l Hl IH Hy]; [cbn; destruct (width_of x =? w)%N; reflexivity |].
  cbn [insert_after]. destruct (N.ltb_spec (fst x) (fst y)) as [Hlt | Hge].
  - assert (Hnone : width_of x = w -> filter (fun p => (width_of p =? w)%N) (y :: l) = []).
    { intros Hw.
      assert (Hall : Forall (fun p => width_of p <> w) (y :: l)).
      { constructor; [unfold width_of in *; lia |].
        rewrite Forall_forall in Hy |- *. intros z Hz. specialize (Hy z Hz). unfold wle, width_of in *. lia. }
      clear - Hall. induction Hall as [|z t Hz _ IH]; [reflexivity |]. cbn [filter].
      destruct (N.eqb_spec (width_of z) w); [contradiction | exact IH]. }
    set (yl := y :: l) in *. cbn [filter]. destruct (N.eqb_spec (width_of x) w) as [Hw | Hw].
    + rewrite (Hnone Hw). reflexivity.
    + now rewrite app_nil_r.
  - cbn [filter]. rewrite IH. destruct (width_of y =? w)%N; reflexivity.
Qed.

Lemma filter_fold_insert w l : forall acc, Sorted wle acc ->
  filter (fun p => width_of p =? w)%N (fold_left (fun a x => insert_after x a) l acc) =
  (filter (fun p => width_of p =? w)%N acc ++ filter (fun p => width_of p =? w)%N l)%list.
Proof.
  induction l as [|x l IH]; intros acc Hs; cbn [fold_left filter]; [now rewrite app_nil_r |].
  rewrite IH by (apply insert_after_sorted, Hs). rewrite filter_insert_after by exact Hs.
  rewrite <- app_assoc. destruct (width_of x =? w)%N; reflexivity.
Qed.

Theorem mux_spans_sorted_holds : stmt_mux_spans_sorted.
Proof.
  intros options widths shown. split; [reflexivity |]. split; [| split].
  - unfold shown, sort_by_width. apply (fold_insert_perm _ []).
  - unfold shown, sort_by_width. apply fold_insert_sorted. constructor.
  - intros w. unfold shown, sort_by_width. rewrite filter_fold_insert by constructor. reflexivity.
Qed.

Lemma insert_after_last x acc :
  Forall (fun y => fst y <= fst x) acc -> insert_after x acc = (acc ++ [x])%list.
Proof. intros H. rewrite <- (app_nil_r acc) at 1. rewrite insert_after_skip by exact H. reflexivity. Qed.

Lemma fold_insert_sorted_id l : forall acc,
  StronglySorted wle (acc ++ l) -> fold_left (fun a x => insert_after x a) l acc = (acc ++ l)%list.
Proof.
  induction l as [|x l IH]; intros acc H; cbn [fold_left]; [now rewrite app_nil_r |].
  assert (Hacc : Forall (fun y => fst y <= fst x) acc).
  { clear IH. induction acc as [|a acc IHa]; [constructor |]. cbn [app] in H. inversion H as [|? ? H1 H2]; subst.
    constructor; [| apply IHa, H1]. rewrite Forall_forall in H2. apply (H2 x). apply in_or_app. right. left. reflexivity. }
  rewrite insert_after_last by exact Hacc. rewrite IH; rewrite <- app_assoc; [reflexivity | exact H].
Qed.

Theorem mux_spans_in_order_holds : stmt_mux_spans_in_order.
Proof.
  intros options ns Hlen Hs. cbn [error_spans].
  assert (Hso : forall opts ns', List.length opts = List.length ns' ->
                  sized_options opts (map Bits ns') = combine ns' opts).
  { induction opts as [|o r IH]; intros [|n ns'] Hl; try discriminate Hl; [reflexivity |].
    cbn [map sized_options combine]. f_equal. apply IH. cbn in Hl. lia. }
  rewrite Hso by exact Hlen. unfold sort_by_width. rewrite fold_insert_sorted_id.
  - cbn [app]. clear Hs Hso. revert ns Hlen. induction options as [|o r IH]; intros [|n ns] Hl; try discriminate Hl; [reflexivity |].
    cbn [combine map snd]. f_equal. apply IH. cbn in Hl. lia.
  - cbn [app]. apply Sorted_StronglySorted; [exact wle_trans |].
    clear Hso. revert options Hlen. induction Hs as [|n ns Hns IH Hn]; intros [|o r] Hl; try discriminate Hl; [constructor |].
    cbn [combine]. constructor; [apply IH; cbn in Hl; lia |].
    destruct ns as [|n' ns]; [destruct r; constructor |]. destruct r as [|o' r]; [cbn in Hl; lia |].
    cbn [combine]. constructor. inversion Hn; subst. unfold wle, width_of. cbn. assumption.
Qed.

(* ---- composition with the region theorems (Props/C14) -------------------------------------- *)
Lemma assembled_ext (f g : nat -> nat -> option (list N)) ps t :
  (forall s e, In (s, e) (regions_of ps) -> f s e = g s e) -> assembled f ps t -> assembled g ps t.
Proof.
  intros Hfg H. induction H as [|m ps t H IH | s e ps out t Hout H IH].
  - constructor.
  - constructor. apply IH. intros s e Hin. apply Hfg. exact Hin.
  - constructor.
    + rewrite <- Hfg; [exact Hout | left; reflexivity].
    + apply IH. intros s' e' Hin. apply Hfg. right. exact Hin.
Qed.

Theorem render_regions_located_holds : stmt_render_regions_located.
Proof.
  intros uc pre user fname e text Hpre Huser H Hsp.
  destruct (render_regions_holds _ _ _ _ H) as (ps & Hp & Ha & Hr).
  exists ps. split; [exact Hp |]. split; [exact Hr |].
  apply (assembled_ext (show_region (the_file pre user fname))); [| exact Ha].
  intros s e' Hin.
  rewrite Hr in Hin. destruct (Hsp _ Hin) as (us & ue & Heq & H1 & H2 & H3 & H4).
  injection Heq as -> ->. unfold the_file.
  rewrite (locate_one_line_ok pre user fname us ue Hpre Huser H1 H2 H3 H4).
  unfold user_region. f_equal.
  replace (List.length pre + us - List.length pre)%nat with us by lia.
  replace (List.length pre + ue - (List.length pre + us))%nat with (ue - us)%nat by lia. reflexivity.
Qed.

Theorem render_regions_never_preamble_holds : stmt_render_regions_never_preamble.
Proof.
  intros uc pre user fname e text H Hsp.
  destruct (render_regions_holds _ _ _ _ H) as (ps & Hp & Ha & Hr).
  exists ps. split; [exact Hp |]. intros s e' Hin.
  assert (Hreg : In (s, e') (regions_of ps)).
  { unfold regions_of. apply in_flat_map. exists (Rgn s e'). split; [exact Hin | left; reflexivity]. }
  assert (Hout : exists out, show_region (the_file pre user fname) s e' = Some out).
  { clear - Ha Hin. induction Ha as [|m ps t Ha IH | s0 e0 ps out t Hout Ha IH]; [destruct Hin | |].
    - destruct Hin as [Hin | Hin]; [discriminate Hin | exact (IH Hin)].
    - destruct Hin as [Hin | Hin]; [injection Hin as -> ->; exists out; exact Hout | exact (IH Hin)]. }
  destruct Hout as (out & Hout). rewrite Hr in Hreg. destruct (Hsp _ Hreg) as [H1 H2]. cbn [fst snd] in H1, H2.
  destruct (never_preamble_partial pre user fname s e' out H1 H2 Hout) as (rest & Hrest).
  exists out, rest. split; assumption.
Qed.

(* ====================================================================================== *)
(* 4. rendering does not panic: (a)                                                       *)
(* ====================================================================================== *)
Lemma parts_text_total pre user fname ps :
  wf_text pre -> wf_text user -> exists text, parts_text (the_file pre user fname) ps = Some text.
Proof.
  intros Hpre Huser. induction ps as [|[m | s e] r (t & IH)]; cbn [parts_text].
  - eexists. reflexivity.
  - rewrite IH. eexists. reflexivity.
  - destruct (show_region (the_file pre user fname) s e) as [out|] eqn:Hs.
    + rewrite IH. eexists. reflexivity.
    + exfalso. exact (show_region_total_ok pre user fname s e Hpre Huser Hs).
Qed.

(* ---- format_token_list --------------------------------------------------------------------- *)
Lemma map_opt_some {A B} (f : A -> option B) (l : list A) :
  map_option f l <> None <-> forall x, In x l -> f x <> None.
Proof.
  induction l as [|x l IH]; cbn [map_option]; [split; [intros _ x [] | discriminate] |].
  destruct (f x) as [y|] eqn:Hx.
  - destruct (map_option f l) as [ys|].
    + split; [| discriminate]. intros _ z [<- | Hz]; [congruence |]. apply IH; [discriminate | exact Hz].
    + split; [congruence |]. intros H. exfalso. apply (proj2 IH); [| reflexivity].
      intros z Hz. apply H. right. exact Hz.
  - split; [congruence |]. intros H. exfalso. apply (H x); [left; reflexivity | exact Hx].
Qed.

Lemma get_range_0_1 (b : list N) :
  get_range b 0 1 = if (1 <=? List.length b)%nat && is_boundary b 1 then Some (firstn 1 b) else None.
Proof.
  unfold get_range. change (is_boundary b 0) with true. change (0 <=? 1)%nat with true.
  cbn [andb skipn Nat.sub]. rewrite andb_true_r. reflexivity.
Qed.

Lemma get_range_inner (b : list N) : is_boundary b 1 = true ->
  get_range b 1 (List.length b - 1) =
  if (2 <=? List.length b)%nat && is_boundary b (List.length b - 1)
  then Some (firstn (List.length b - 1 - 1) (skipn 1 b)) else None.
Proof.
  intros Hb. unfold get_range. rewrite Hb.
  assert (Hle : (List.length b - 1 <=? List.length b)%nat = true) by (apply Nat.leb_le; lia).
  rewrite Hle. rewrite !andb_true_r.
  replace (1 <=? List.length b - 1)%nat with (2 <=? List.length b)%nat; [reflexivity |].
  destruct (Nat.leb_spec 2 (List.length b)); destruct (Nat.leb_spec 1 (List.length b - 1)); try reflexivity; lia.
Qed.

Lemma token_text_ok (t : string) : expected_token_ok t = true <-> token_text t <> None.
Proof.
  unfold expected_token_ok, token_text.
  destruct (String.eqb t "ID"); [cbn; split; [intros _; discriminate | intros _; reflexivity] |].
  destruct (String.eqb t "CONSTANT"); [cbn; split; [intros _; discriminate | intros _; reflexivity] |].
  cbn [orb]. set (b := str_bytes t). rewrite get_range_0_1.
  destruct ((1 <=? List.length b)%nat && is_boundary b 1) eqn:H1; cbn [andb];
    [| split; [intros HH; discriminate HH | intros HH; congruence]].
  apply andb_prop in H1. destruct H1 as [Hlen Hb1].
  destruct b as [|x r] eqn:Eb; [discriminate Hlen |].
  cbn [firstn nth list_eqb]. rewrite andb_true_r.
  destruct (x =? 34)%N; [| split; [intros _; discriminate | intros _; reflexivity]].
  rewrite (get_range_inner _ Hb1).
  destruct ((2 <=? List.length (x :: r))%nat && is_boundary (x :: r) (List.length (x :: r) - 1));
    split; [intros _; discriminate | intros _; reflexivity | intros HH; discriminate HH | intros HH; congruence].
Qed.

Lemma mem_str_in (x : string) (l : list string) : mem_str x l = true <-> In x l.
Proof.
  induction l as [|y l IH]; cbn [mem_str In]; [split; [discriminate | tauto] |].
  rewrite orb_true_iff, IH, String.eqb_eq. split; (intros [H | H]; [left; congruence | right; exact H]).
Qed.

Lemma dedup_in (x : string) (l : list string) : In x (dedup_tokens l) <-> In x l.
Proof.
  induction l as [|y l IH]; cbn [dedup_tokens]; [tauto |].
  destruct (mem_str y l) eqn:Hm.
  - rewrite IH. apply mem_str_in in Hm. split; [intros H; right; exact H | intros [<- | H]; assumption].
  - cbn [In]. rewrite IH. tauto.
Qed.

Lemma group_tokens_ok :
  forallb expected_token_ok (map quoted all_compare_operators ++ map quoted all_bin_operators ++
                             map quoted all_un_operators)%list = true.
Proof. vm_compute. reflexivity. Qed.

Lemma remaining_ok (tokens : list string) :
  forallb expected_token_ok tokens = true <-> forallb expected_token_ok (remaining_tokens tokens) = true.
Proof.
  rewrite !forallb_forall. unfold remaining_tokens. split.
  - intros H t Ht. apply filter_In in Ht. destruct Ht as [Ht _]. apply (proj1 (dedup_in _ _)) in Ht. exact (H t Ht).
  - intros H t Ht. apply (proj2 (dedup_in _ _)) in Ht.
    match type of H with forall x, In x (filter ?f ?l) -> _ => destruct (f t) eqn:Hf end.
    + apply H. apply filter_In. split; assumption.
    + apply negb_false_iff in Hf. pose proof group_tokens_ok as Hg. rewrite forallb_forall in Hg. apply Hg.
      apply orb_prop in Hf. destruct Hf as [Hf | Hf]; [apply orb_prop in Hf; destruct Hf as [Hf | Hf] |];
        apply andb_prop in Hf; destruct Hf as [_ Hf]; apply mem_str_in in Hf;
        apply in_or_app; [left | right; apply in_or_app; left | right; apply in_or_app; right]; exact Hf.
Qed.

Theorem format_token_list_total_holds : stmt_format_token_list_total.
Proof.
  intros tokens. rewrite remaining_ok. unfold format_token_list.
  rewrite forallb_forall.
  assert (H : map_option token_text (remaining_tokens tokens) <> None <->
              forall x, In x (remaining_tokens tokens) -> expected_token_ok x = true).
  { rewrite map_opt_some. split; intros H x Hx; apply token_text_ok, H, Hx. }
  rewrite <- H. destruct (map_option token_text (remaining_tokens tokens)); split; congruence.
Qed.

(* ---- the main statements ------------------------------------------------------------------- *)
Lemma lnb_start pre user fname index : wf_text pre -> wf_text user ->
  exists n k nx, line_number_and_bounds (the_file pre user fname) index = Some (n, k, nx) /\
                 (k <= index)%nat /\ is_boundary (pre ++ user)%list k = true.
Proof.
  intros Hpre Huser. destruct (lnb_exists pre user fname index) as (n & k & nx & H & Hk & Hok & _).
  exists n, k, nx. split; [exact H |]. split; [exact Hk | apply key_boundary; assumption].
Qed.

Lemma render_parts_renderable uc pre user fname e : wf_text pre -> wf_text user ->
  renderable (the_file pre user fname) e = true <-> render_parts uc (the_file pre user fname) e <> None.
Proof.
  intros Hpre Huser. destruct e; unfold renderable, render_parts; try (split; [intros _; discriminate | intros _; reflexivity]).
  - (* MismatchedMuxWidths *)
    rewrite (group_by_width_some options widths []).
    destruct (group_by_width options widths []); split; congruence.
  - (* UnrecognizedToken *)
    pose proof (format_token_list_total_holds expected) as Hf.
    destruct (format_token_list expected) as [fmt|].
    + rewrite (proj1 Hf) by discriminate. cbn [andb].
      destruct (mem_str semicolon_token expected); [| split; [intros _; discriminate | intros _; reflexivity]].
      destruct (lnb_start pre user fname (fst location) Hpre Huser) as (n & k & nx & -> & Hk & Hb).
      unfold on_boundary, get_range. change (fc_data (the_file pre user fname)) with (pre ++ user)%list.
      rewrite Hb. assert (Hle : (k <=? fst location)%nat = true) by (apply Nat.leb_le; exact Hk). rewrite Hle.
      cbn [andb]. rewrite andb_true_r.
      destruct ((fst location <=? List.length (pre ++ user))%nat && is_boundary (pre ++ user)%list (fst location));
        split; congruence.
    + destruct (forallb expected_token_ok expected); [exfalso; apply (proj2 Hf); reflexivity |].
      cbn [andb]. split; congruence.
  - (* ExtraToken *)
    unfold get_range.
    destruct ((fst sp <=? snd sp)%nat && (snd sp <=? List.length (fc_data (the_file pre user fname)))%nat &&
              is_boundary (fc_data (the_file pre user fname)) (fst sp) &&
              is_boundary (fc_data (the_file pre user fname)) (snd sp)); split; congruence.
Qed.

Theorem render_total_holds : stmt_render_total.
Proof.
  intros uc pre user fname e Hpre Huser H. unfold render_one.
  apply (render_parts_renderable uc pre user fname e Hpre Huser) in H.
  destruct (render_parts uc (the_file pre user fname) e) as [ps|]; [| congruence].
  apply parts_text_total; assumption.
Qed.

Theorem render_total_converse_holds : stmt_render_total_converse.
Proof.
  intros uc pre user fname e Hpre Huser H. unfold render_one.
  destruct (render_parts uc (the_file pre user fname) e) as [ps|] eqn:Hp; [| reflexivity].
  exfalso. assert (Hr : renderable (the_file pre user fname) e = true).
  { apply (render_parts_renderable uc pre user fname e Hpre Huser). congruence. }
  congruence.
Qed.

Theorem render_all_total_holds : stmt_render_all_total.
Proof.
  intros uc pre user fname es Hpre Huser. induction es as [|e r IH]; cbn [forallb render_all]; intros H.
  - eexists. reflexivity.
  - apply andb_prop in H. destruct H as [He Hr].
    destruct (render_total_holds uc pre user fname e Hpre Huser He) as (a & ->).
    destruct (IH Hr) as (b & ->). eexists. reflexivity.
Qed.

Theorem lalrpop_terminals_ok_holds : stmt_lalrpop_terminals_ok.
Proof. vm_compute. reflexivity. Qed.

(* ---- what the lexer guarantees: offsets on character boundaries ------------------------------ *)
Lemma utf8_head_not_cont c cs : exists b0 rest, utf8 (c :: cs) = b0 :: rest /\ is_cont b0 = false.
Proof.
  destruct (utf8_char_head c) as (b0 & rest & Hc & H1 & H2).
  exists b0, (rest ++ utf8 cs)%list. split; [cbn [utf8 flat_map]; fold (utf8 cs); now rewrite Hc |].
  unfold is_cont. destruct (N.ltb_spec c 128) as [Hlt | Hge].
  - destruct (H1 Hlt) as [-> _]. lia.
  - specialize (H2 Hge). lia.
Qed.

Lemma boundary_at_seam (a b : list N) :
  on_boundary (utf8 a ++ utf8 b)%list (List.length (utf8 a)) = true.
Proof.
  unfold on_boundary. rewrite app_length.
  assert (H1 : (List.length (utf8 a) <=? List.length (utf8 a) + List.length (utf8 b))%nat = true)
    by (apply Nat.leb_le; lia).
  rewrite H1. cbn [andb]. destruct b as [|c cs].
  - cbn [utf8 flat_map]. rewrite app_nil_r. apply is_boundary_len.
  - destruct (utf8_head_not_cont c cs) as (b0 & rest & -> & Hb0).
    unfold is_boundary. rewrite app_length. cbn [List.length].
    rewrite app_nth2 by lia. rewrite Nat.sub_diag. cbn [nth]. rewrite Hb0. cbn [negb].
    assert (H2 : (List.length (utf8 a) <? List.length (utf8 a) + S (List.length rest))%nat = true)
      by (apply Nat.ltb_lt; lia).
    rewrite H2. cbn [andb]. now rewrite orb_true_r.
Qed.

Lemma boundary_prefix (a b : list N) (i : nat) :
  on_boundary (utf8 a) i = true -> on_boundary (utf8 a ++ utf8 b)%list i = true.
Proof.
  intros H. unfold on_boundary in H. apply andb_prop in H. destruct H as [Hle Hb].
  apply Nat.leb_le in Hle. destruct (Nat.eq_dec i (List.length (utf8 a))) as [-> | Hne]; [apply boundary_at_seam |].
  unfold on_boundary. rewrite app_length.
  assert (H1 : (i <=? List.length (utf8 a) + List.length (utf8 b))%nat = true) by (apply Nat.leb_le; lia).
  rewrite H1. cbn [andb]. unfold is_boundary in *. rewrite app_length. rewrite app_nth1 by lia.
  destruct (i =? 0)%nat; [reflexivity |]. cbn [orb] in *.
  assert (H2 : (i =? List.length (utf8 a))%nat = false) by (apply Nat.eqb_neq; exact Hne).
  rewrite H2 in Hb. cbn [orb] in Hb. apply andb_prop in Hb. destruct Hb as [_ Hc]. rewrite Hc.
  assert (H3 : (i <? List.length (utf8 a) + List.length (utf8 b))%nat = true) by (apply Nat.ltb_lt; lia).
  rewrite H3. cbn [andb]. now rewrite orb_true_r.
Qed.

Lemma spans_of_boundaries : forall items last X t,
  In t (spans_of (List.length (utf8 X)) items) ->
  on_boundary (utf8 (X ++ text_of items last)) (tstart t) = true /\
  on_boundary (utf8 (X ++ text_of items last)) (tend t) = true.
Proof.
  induction items as [|[[sep tk] s] r IH]; intros last X t Hin; [destruct Hin |].
  cbn [spans_of text_of] in *. destruct Hin as [<- | Hin].
  - unfold tstart, tend. cbn [fst snd]. split.
    + replace (X ++ sep ++ s ++ text_of r last)%list with ((X ++ sep) ++ (s ++ text_of r last))%list
        by (now rewrite <- app_assoc).
      rewrite (utf8_app (X ++ sep)). replace (List.length (utf8 X) + List.length (utf8 sep))%nat
        with (List.length (utf8 (X ++ sep))) by (rewrite utf8_app, app_length; reflexivity).
      apply boundary_at_seam.
    + replace (X ++ sep ++ s ++ text_of r last)%list with ((X ++ sep ++ s) ++ text_of r last)%list
        by (now rewrite <- !app_assoc).
      rewrite (utf8_app (X ++ sep ++ s)).
      replace (List.length (utf8 X) + List.length (utf8 sep) + List.length (utf8 s))%nat
        with (List.length (utf8 (X ++ sep ++ s))) by (rewrite !utf8_app, !app_length; lia).
      apply boundary_at_seam.
  - replace (X ++ sep ++ s ++ text_of r last)%list with ((X ++ sep ++ s) ++ text_of r last)%list
      by (now rewrite <- !app_assoc).
    apply IH.
    replace (List.length (utf8 (X ++ sep ++ s)))
      with (List.length (utf8 X) + List.length (utf8 sep) + List.length (utf8 s))%nat
      by (rewrite !utf8_app, !app_length; lia).
    exact Hin.
Qed.

Theorem token_offsets_on_boundaries_holds : stmt_token_offsets_on_boundaries.
Proof.
  assert (Hok : forall uc text toks, Forall scalar text -> lex uc (utf8 text) = (toks, None) ->
            forall t, In t toks -> on_boundary (utf8 text) (tstart t) = true /\ on_boundary (utf8 text) (tend t) = true).
  { intros uc text toks Hsc Hlex t Hin.
    destruct (lex_ok_inv_holds uc text toks Hsc Hlex) as (items & last & -> & _ & _ & ->).
    exact (spans_of_boundaries items last [] t Hin). }
  intros uc text toks err Hsc Hlex t Hin.
  destruct (lex_tokens_ordered_holds uc text toks err Hsc Hlex) as [Hord _].
  destruct (tokens_from_in 0 toks Hord t Hin) as (_ & Hlt & _). split; [exact Hlt |].
  destruct err as [err|]; [| exact (Hok uc text toks Hsc Hlex t Hin)].
  destruct (lex_error_meaning_holds uc text toks err Hsc Hlex) as (before & bad & e & -> & _ & _ & Hb).
  destruct (Hok uc before toks (Forall_app_l _ _ _ Hsc) Hb t Hin) as [H1 H2].
  rewrite utf8_app. split; apply boundary_prefix; assumption.
Qed.

Theorem token_locations_renderable_holds : stmt_token_locations_renderable.
Proof.
  intros uc text toks err pre user fname expected Hsc Hlex Hdata Hexp t Hin.
  destruct (token_offsets_on_boundaries_holds uc text toks err Hsc Hlex t Hin) as (Hlt & H1 & H2).
  unfold renderable, the_file. cbn [fc_data new_from_data fst snd]. rewrite Hdata, Hexp. cbn [andb].
  unfold on_boundary in *. apply andb_prop in H1, H2. destruct H1 as [H1a H1b], H2 as [H2a H2b].
  split; [| split].
  - rewrite H2a, H1b, H2b. assert (Hle : (tstart t <=? tend t)%nat = true) by (apply Nat.leb_le; lia).
    rewrite Hle. reflexivity.
  - destruct (mem_str semicolon_token expected); [| reflexivity]. rewrite H1a, H1b. reflexivity.
  - destruct (mem_str semicolon_token expected); [| reflexivity]. rewrite H2a, H2b. reflexivity.
Qed.

Theorem parser_spans_on_boundaries_holds : stmt_parser_spans_on_boundaries.
Proof.
  intros uc tiers text stmts Hsc H s spn Hs Hspn.
  destruct (spans_in_text_holds uc tiers text stmts Hsc H) as (toks & Hlex & _ & Hall).
  destruct (Hall s spn Hs Hspn) as ((i & j & ti & tj & _ & Hi & Hj & Hfst & Hsnd) & Hlt & _).
  split; [exact Hlt |].
  destruct (token_offsets_on_boundaries_holds uc text toks None Hsc Hlex ti (nth_error_In _ _ Hi)) as (_ & H1 & _).
  destruct (token_offsets_on_boundaries_holds uc text toks None Hsc Hlex tj (nth_error_In _ _ Hj)) as (_ & _ & H2).
  rewrite Hfst, Hsnd. split; assumption.
Qed.

(* ====================================================================================== *)
(* 5. format_token_list: (f)                                                              *)
(* ====================================================================================== *)
Lemma group_complete_iff (ops tokens : list string) :
  group_complete ops (dedup_tokens tokens) = true <-> group_present ops tokens.
Proof.
  unfold group_complete, group_present. rewrite forallb_forall. split; intros H op Hop.
  - apply (proj1 (dedup_in _ _)), (proj1 (mem_str_in _ _)), H, Hop.
  - apply (proj2 (mem_str_in _ _)), (proj2 (dedup_in _ _)), H, Hop.
Qed.

Theorem group_names_holds : stmt_group_names.
Proof.
  intros tokens.
  exists (group_complete all_compare_operators (dedup_tokens tokens)),
         (group_complete all_bin_operators (dedup_tokens tokens)),
         (group_complete all_un_operators (dedup_tokens tokens)).
  repeat split; try apply group_complete_iff.
Qed.

Lemma dedup_nodup (l : list string) : NoDup (dedup_tokens l).
Proof.
  induction l as [|x l IH]; cbn [dedup_tokens]; [constructor |].
  destruct (mem_str x l) eqn:Hm; [exact IH |]. constructor; [| exact IH].
  intros H. apply (proj1 (dedup_in _ _)) in H. apply (proj2 (mem_str_in _ _)) in H. congruence.
Qed.

Theorem remaining_tokens_holds : stmt_remaining_tokens.
Proof.
  intros tokens. unfold remaining_tokens. split; [apply NoDup_filter, dedup_nodup |].
  intros t. rewrite filter_In, dedup_in. apply and_iff_compat_l.
  rewrite negb_true_iff. unfold in_complete_group.
  rewrite <- !group_complete_iff.
  destruct (group_complete all_compare_operators (dedup_tokens tokens));
  destruct (group_complete all_bin_operators (dedup_tokens tokens));
  destruct (group_complete all_un_operators (dedup_tokens tokens)); cbn [andb orb];
  repeat match goal with |- context [mem_str t ?l] =>
    let H := fresh "Hm" in pose proof (mem_str_in t l) as H; destruct (mem_str t l) end;
  cbn [orb]; intuition congruence.
Qed.

Lemma wf_text_single (b : N) : b < 128 -> wf_text [b].
Proof.
  intros Hb i Hi Hc. cbn [List.length] in Hi. assert (i = 0%nat) by lia. subst i. cbn [nth] in Hc.
  unfold is_cont in Hc. lia.
Qed.

Lemma wf_boundary (l : list N) (i : nat) :
  wf_text l -> (0 < i)%nat -> (i < List.length l)%nat -> nth (i - 1) l 0 < 128 -> is_boundary l i = true.
Proof.
  intros Hwf H0 Hi Hp. unfold is_boundary.
  destruct (is_cont (nth i l 0)) eqn:Hc.
  - destruct (Hwf i Hi Hc) as [_ H]. lia.
  - cbn [negb]. assert (H : (i <? List.length l)%nat = true) by (apply Nat.ltb_lt; exact Hi).
    rewrite H. cbn [andb]. now rewrite orb_true_r.
Qed.

Lemma token_text_quoted (inner : string) :
  wf_text (str_bytes inner) -> token_text (quoted inner) = Some ("'" ++ inner ++ "'").
Proof.
  intros Hwf. unfold token_text.
  assert (E1 : String.eqb (quoted inner) "ID" = false) by reflexivity.
  assert (E2 : String.eqb (quoted inner) "CONSTANT" = false) by reflexivity.
  rewrite E1, E2.
  assert (Eb : str_bytes (quoted inner) = (34 :: str_bytes inner ++ [34])%list).
  { unfold quoted, dquote. rewrite !str_bytes_app. reflexivity. }
  rewrite Eb. set (ib := str_bytes inner) in *. set (bb := (34 :: ib ++ [34])%list).
  assert (Hwf' : wf_text bb).
  { change bb with ([34] ++ ib ++ [34])%list.
    apply wf_text_app; [apply wf_text_single; lia |]. apply wf_text_app; [exact Hwf | apply wf_text_single; lia]. }
  assert (Hlen : List.length bb = S (S (List.length ib))).
  { unfold bb. cbn [List.length]. rewrite app_length. cbn [List.length]. lia. }
  assert (Hb1 : is_boundary bb 1 = true).
  { apply wf_boundary; [exact Hwf' | lia | lia | cbn; lia]. }
  rewrite get_range_0_1. rewrite Hb1.
  assert (H1 : (1 <=? List.length bb)%nat = true) by (apply Nat.leb_le; lia).
  rewrite H1. cbn [andb]. unfold bb at 1. cbn [firstn list_eqb]. rewrite N.eqb_refl. cbn [andb].
  rewrite (get_range_inner _ Hb1).
  assert (H2 : (2 <=? List.length bb)%nat = true) by (apply Nat.leb_le; lia).
  rewrite H2. cbn [andb].
  assert (Hb2 : is_boundary bb (List.length bb - 1) = true).
  { rewrite Hlen. replace (S (S (List.length ib)) - 1)%nat with (S (List.length ib)) by lia.
    unfold is_boundary. rewrite Hlen. unfold bb. cbn [nth]. rewrite app_nth2 by lia. rewrite Nat.sub_diag. cbn [nth].
    assert (H : (S (List.length ib) <? S (S (List.length ib)))%nat = true) by (apply Nat.ltb_lt; lia).
    rewrite H. cbn. now rewrite orb_true_r. }
  rewrite Hb2. rewrite Hlen. unfold bb. cbn [skipn]. replace (S (S (List.length ib)) - 1 - 1)%nat with (List.length ib) by lia.
  rewrite firstn_app, firstn_all, Nat.sub_diag. cbn [firstn]. rewrite app_nil_r.
  unfold ib. now rewrite string_of_str_bytes.
Qed.

Theorem token_text_holds : stmt_token_text.
Proof.
  split; [reflexivity |]. split; [reflexivity |]. split; [exact token_text_quoted |]. split; [| exact token_text_ok].
  intros t H1 H2 Hok Hq. unfold token_text, expected_token_ok in *.
  apply String.eqb_neq in H1, H2. rewrite H1, H2 in *. cbn [orb] in Hok.
  rewrite get_range_0_1. apply andb_prop in Hok. destruct Hok as [Hok _]. rewrite Hok.
  apply andb_prop in Hok. destruct Hok as [Hlen _].
  destruct (str_bytes t) as [|x r]; [discriminate Hlen |]. cbn [firstn list_eqb nth] in *.
  destruct (N.eqb_spec x 34); [contradiction | reflexivity].
Qed.

(* ---- the sort ------------------------------------------------------------------------------ *)
Lemma insert_sorted_perm x l : Permutation (insert_sorted x l) (x :: l).
Proof.
  induction l as [|y l IH]; [reflexivity |]. cbn [insert_sorted].
  destruct (String.leb x y); [reflexivity |]. rewrite IH. apply perm_swap.
Qed.

Lemma sort_strings_perm l : Permutation (sort_strings l) l.
Proof. induction l as [|x l IH]; [reflexivity |]. cbn [sort_strings]. rewrite insert_sorted_perm. now constructor. Qed.

Definition sle (a b : string) : Prop := String.leb a b = true.

Lemma insert_sorted_sorted x l : Sorted sle l -> Sorted sle (insert_sorted x l).
Proof.
  induction 1 as [|y l Hl IH Hy]; [repeat constructor |]. cbn [insert_sorted].
  destruct (String.leb x y) eqn:Hxy.
  - constructor; [constructor; assumption | constructor; exact Hxy].
  - assert (Hyx : sle y x) by (destruct (String.leb_total x y) as [H | H]; [congruence | exact H]).
    constructor; [exact IH |]. destruct l as [|z l]; [constructor; exact Hyx |]. cbn [insert_sorted].
    destruct (String.leb x z); constructor; [exact Hyx | inversion Hy; assumption].
Qed.

Lemma sort_strings_sorted l : Sorted sle (sort_strings l).
Proof. induction l as [|x l IH]; [constructor | apply insert_sorted_sorted, IH]. Qed.

Theorem format_token_list_holds : stmt_format_token_list.
Proof.
  intros tokens out H. unfold format_token_list in H.
  destruct (map_option token_text (remaining_tokens tokens)) as [texts|]; [| discriminate H]. injection H as <-.
  exists texts, (sort_strings (group_names tokens ++ texts)).
  split; [reflexivity |]. split; [apply sort_strings_perm |]. split; [apply sort_strings_sorted | reflexivity].
Qed.

Lemma comma_items_snoc (l : list string) (z : string) :
  comma_items (l ++ [z]) = concat_strings (map (fun x => x ++ ", ") l) ++ "or " ++ z.
Proof.
  induction l as [|x l IH]; [reflexivity |]. cbn [map concat_strings]. rewrite !sapp_assoc, <- IH.
  destruct l as [|y l]; reflexivity.
Qed.

Theorem or_list_holds : stmt_or_list.
Proof.
  split; [reflexivity |]. split; [reflexivity |]. split; [reflexivity |]. split; [reflexivity |].
  intros l z Hl. rewrite <- comma_items_snoc.
  destruct l as [|a [|b l]]; cbn [List.length] in Hl; try lia. destruct l; reflexivity.
Qed.

(* ====================================================================================== *)
(* 6. the diagnostic names the wire: (e)                                                  *)
(* ====================================================================================== *)
Lemma parts_text_contains fc ps text x m :
  parts_text fc ps = Some text -> In (Msg m) ps -> contains x m -> contains x text.
Proof.
  revert text. induction ps as [|[m' | s e] r IH]; intros text H Hin Hx; [destruct Hin | |]; cbn [parts_text] in H.
  - destruct (parts_text fc r) as [t|]; [| discriminate H]. injection H as <-.
    destruct Hin as [Hin | Hin]; [injection Hin as ->; apply contains_app_l, Hx | apply contains_app_r, (IH t eq_refl Hin Hx)].
  - destruct (show_region fc s e) as [out|]; [| discriminate H].
    destruct (parts_text fc r) as [t|]; [| discriminate H]. injection H as <-.
    destruct Hin as [Hin | Hin]; [discriminate Hin | apply contains_app_r, (IH t eq_refl Hin Hx)].
Qed.

Definition sq (n : string) : string := "'" ++ n ++ "'".

Lemma sq_keep (n m : string) : no_lf n = true -> contains (sq n) m ->
  contains (sq n) (error_text m) /\ contains (sq n) (error_continue_text m).
Proof.
  intros Hn H. apply keep_error; [discriminate | | | exact H].
  - unfold sq. rewrite !no_lf_app, Hn. reflexivity.
  - unfold sq. rewrite !str_bytes_app. cbn [str_bytes]. rewrite app_assoc, last_last. cbn. lia.
Qed.

Lemma sq_here (n rest : string) : contains (sq n) ("'" ++ n ++ "'" ++ rest).
Proof. exists "", rest. unfold sq. cbn [append]. now rewrite !sapp_assoc. Qed.

Ltac contains_tac :=
  repeat first [ apply sq_here | apply contains_cons | apply contains_app_r ].
Ltac in_tac := cbn [In]; repeat first [ left; reflexivity | right ].

(* a name of the list, quoted, occurs in list_with_and of a list of at most two *)
Lemma list_with_and_short (l : list string) (n : string) :
  In n (short_list l) -> contains (sq n) (list_with_and l).
Proof.
  unfold short_list. destruct l as [|a [|b [|c l]]]; cbn [List.length Nat.leb]; intros H; try destruct H as [<- | H];
    try destruct H as [<- | H]; try destruct H; unfold list_with_and; cbn [List.length Nat.ltb Nat.leb]; contains_tac.
Qed.

Lemma loop_names (lst : list string) (n : string) : In n lst ->
  exists i, In (loop_line lst i) (map (loop_line lst) (seq 0 (List.length lst))) /\
            forall rest, contains (sq n) ("  '" ++ nth ((i + 1) mod List.length lst) lst "" ++ "' depends on '" ++ nth i lst "" ++ "'" ++ rest).
Proof.
  intros Hin. destruct (In_nth _ _ "" Hin) as (i & Hi & Hn). exists i. split.
  - apply in_map. apply in_seq. lia.
  - intros rest. rewrite Hn. contains_tac.
Qed.

Lemma names_msg uc fc e ps name :
  render_parts uc fc e = Some ps -> In name (quoted_names e) -> no_lf name = true ->
  exists m, In (Msg m) ps /\ contains (sq name) m.
Proof.
  intros H Hin Hlf. destruct e; cbn [quoted_names] in Hin; try contradiction; unfold render_parts in H.
  all: try (injection H as <-;
            repeat (destruct Hin as [<- | Hin]; [eexists; split; [left; reflexivity | apply (sq_keep _ _ Hlf); contains_tac] |]);
            destruct Hin; fail).
  - (* UndeclaredWireAssigned *)
    injection H as <-. destruct Hin as [<- | Hin].
    + eexists; split; [left; reflexivity | apply (sq_keep _ _ Hlf); contains_tac].
    + destruct close_name as [c|]; [| destruct Hin]. destruct Hin as [<- | []].
      eexists; split; [right; right; left; reflexivity | apply (sq_keep _ _ Hlf); contains_tac].
  - (* UndeclaredWireRead *)
    injection H as <-. destruct Hin as [<- | Hin].
    + eexists; split; [left; reflexivity | apply (sq_keep _ _ Hlf); contains_tac].
    + destruct close_name as [c|]; [| destruct Hin]. destruct Hin as [<- | []].
      eexists; split; [right; right; left; reflexivity | apply (sq_keep _ _ Hlf); contains_tac].
  - (* PartialFixedInput *)
    injection H as <-. apply in_app_or in Hin. destruct Hin as [Hin | Hin].
    + eexists; split; [left; reflexivity |]. apply (sq_keep _ _ Hlf).
      repeat apply contains_cons. apply contains_app_l. apply list_with_and_short, Hin.
    + destruct missing_inputs as [|mi0 mis]; [destruct Hin |].
      eexists; split; [right; left; reflexivity |]. apply (sq_keep _ _ Hlf).
      repeat apply contains_cons. apply contains_app_l. apply list_with_and_short, Hin.
  - (* WireLoop *)
    injection H as <-. destruct (loop_names lst name Hin) as (i & Hi & Hc).
    eexists; split; [right; exact Hi |]. apply (sq_keep _ _ Hlf). apply Hc.
Qed.

Theorem names_the_wire_holds : stmt_names_the_wire.
Proof.
  intros uc fc e text name H Hin Hlf. unfold render_one in H.
  destruct (render_parts uc fc e) as [ps|] eqn:Hp; [| discriminate H].
  destruct (names_msg uc fc e ps name Hp Hin Hlf) as (m & Hm & Hc).
  exact (parts_text_contains fc ps text _ m H Hm Hc).
Qed.

Theorem names_the_token_holds : stmt_names_the_token.
Proof.
  intros uc fc e text tok H Hin Hlf Hend. unfold render_one in H.
  destruct (render_parts uc fc e) as [ps|] eqn:Hp; [| discriminate H].
  assert (Hm : exists m, In (Msg m) ps /\ contains (sq tok) m).
  { destruct e; cbn [token_text_of] in Hin; try contradiction; unfold render_parts in Hp.
    - (* UnrecognizedToken *)
      destruct (get_range (fc_data fc) (fst location) (snd location)) as [t|] eqn:Hg; [| destruct Hin].
      destruct Hin as [<- | []].
      assert (Hl : (List.length (fc_data fc) <=? snd location)%nat = false) by (apply Nat.leb_gt; exact Hend).
      rewrite Hl in Hp.
      destruct (format_token_list expected) as [fmt|]; [| discriminate Hp].
      destruct (mem_str semicolon_token expected).
      + destruct (line_number_and_bounds fc (fst location)) as [[[n st] nx]|]; [| discriminate Hp].
        destruct (get_range (fc_data fc) st (fst location)) as [before|]; [| discriminate Hp].
        injection Hp as <-. eexists; split; [left; reflexivity | apply (sq_keep _ _ Hlf); contains_tac].
      + injection Hp as <-. eexists; split; [left; reflexivity | apply (sq_keep _ _ Hlf); contains_tac].
    - (* ExtraToken *)
      destruct (get_range (fc_data fc) (fst sp) (snd sp)) as [t|] eqn:Hg; [| destruct Hin].
      destruct Hin as [<- | []]. injection Hp as <-.
      eexists; split; [left; reflexivity | apply (sq_keep _ _ Hlf); contains_tac]. }
  destruct Hm as (m & Hm & Hc). exact (parts_text_contains fc ps text _ m H Hm Hc).
Qed.

Theorem three_names_unquoted_holds : stmt_three_names_unquoted.
Proof.
  split; [vm_compute; reflexivity |]. intros uc fc. eexists. split; [vm_compute; reflexivity |].
  split; intros H; apply contains_has_sub in H; vm_compute in H; discriminate H.
Qed.

Theorem fixed_inputs_at_most_three_holds : stmt_fixed_inputs_at_most_three.
Proof. unfold gen_fixed. repeat constructor. Qed.

(* ====================================================================================== *)
(* 7. no internal error text: (d)                                                         *)
(* ====================================================================================== *)
Definition w1 : string := "Internal parser error".
Definition w2 : string := "parser bug".

Lemma words_cases w : In w internal_error_words -> w = w1 \/ w = w2.
Proof. intros [<- | [<- | []]]; [left | right]; reflexivity. Qed.

(* from the written lines back to the message *)
Lemma word_back w m : In w internal_error_words ->
  (~ contains w m -> ~ contains w (error_text m)) /\ (~ contains w m -> ~ contains w (error_continue_text m)).
Proof.
  intros Hw. destruct (words_cases w Hw) as [-> | ->].
  - destruct (back_error "I" "nternal parser error" m eq_refl eq_refl) as [A B]. split; intros H H'; [apply H, A, H' | apply H, B, H'].
  - destruct (back_error "p" "arser bug" m eq_refl eq_refl) as [A B]. split; intros H H'; [apply H, A, H' | apply H, B, H'].
Qed.

(* numbers *)
Fixpoint all_digits (s : string) : bool :=
  match s with
  | EmptyString => true
  | String c r => (48 <=? N_of_ascii c)%N && (N_of_ascii c <=? 57)%N && all_digits r
  end.

Lemma all_digits_app a b : all_digits (a ++ b) = all_digits a && all_digits b.
Proof. induction a as [|c a IH]; cbn [append all_digits]; [reflexivity | now rewrite IH, andb_assoc]. Qed.

Lemma dec_fuel_digits fuel : forall n acc, all_digits acc = true -> all_digits (dec_fuel fuel n acc) = true.
Proof.
  induction fuel as [|f IH]; intros n acc Hacc; cbn [dec_fuel]; [exact Hacc |].
  assert (Hd : all_digits (String (ascii_of_N (48 + n mod 10)) acc) = true).
  { cbn [all_digits]. rewrite Hacc. rewrite N_ascii_embedding by (pose proof (N.mod_lt n 10); lia).
    pose proof (N.mod_lt n 10). lia. }
  destruct (n <? 10)%N; [exact Hd | apply IH, Hd].
Qed.

Lemma dec_digits n : all_digits (dec n) = true.
Proof. apply dec_fuel_digits. reflexivity. Qed.

Lemma digits_no_word (c : ascii) (w' s : string) :
  ((48 <=? N_of_ascii c)%N && (N_of_ascii c <=? 57)%N) = false -> all_digits s = true -> ~ contains (String c w') s.
Proof.
  intros Hc Hs (p & q & ->). rewrite !all_digits_app in Hs. cbn [append all_digits] in Hs.
  rewrite Hc in Hs. cbn [andb] in Hs. rewrite andb_false_r in Hs. discriminate Hs.
Qed.

Lemma dec_no_word w n : In w internal_error_words -> ~ contains w (dec n).
Proof.
  intros Hw. destruct (words_cases w Hw) as [-> | ->]; apply digits_no_word; try reflexivity; apply dec_digits.
Qed.

Lemma nil_no_word w : In w internal_error_words -> ~ contains w "".
Proof. intros Hw H. apply contains_nil_inv in H. destruct (words_cases w Hw) as [-> | ->]; discriminate H. Qed.

(* ---- reification of a message into literal pieces and holes -------------------------------- *)
Ltac merge_frags f r :=
  lazymatch f with
  | Lit ?a => lazymatch r with
              | Lit ?b :: ?t => let ab := eval cbv in (a ++ b) in constr:(Lit ab :: t)
              | _ => constr:(f :: r)
              end
  | _ => constr:(f :: r)
  end.
Ltac app_frags ra rb :=
  lazymatch ra with
  | nil => rb
  | ?f :: ?t => let r := app_frags t rb in merge_frags f r
  end.
Ltac reify m :=
  lazymatch m with
  | EmptyString => constr:(@nil frag)
  | String ?c ?r => let rr := reify r in merge_frags (Lit (String c EmptyString)) rr
  | nl => constr:([Lit nl])
  | ?a ++ ?b => let ra := reify a in let rb := reify b in app_frags ra rb
  | ?a => constr:([Hole a])
  end.

Lemma cat_eq (fs : list frag) (m : string) : cat fs = m -> forall w, ~ contains w (cat fs) -> ~ contains w m.
Proof. intros <- w H. exact H. Qed.

(* hole_tac: the obligation for each hole *)
Ltac no_word_frags hole_tac :=
  lazymatch goal with
  | |- ~ contains ?w ?m =>
      let fs := reify m in
      apply (cat_eq fs m); [cbn [cat frag_text]; rewrite ?sapp_nil_r; reflexivity |];
      apply frags_free;
      [ discriminate
      | vm_compute; reflexivity
      | let h := fresh "h" in let Hh := fresh "Hh" in
        intros h Hh; cbn [In] in Hh;
        repeat (destruct Hh as [Hh | Hh]; [first [discriminate Hh | injection Hh as <-; hole_tac] |]);
        try contradiction ]
  end.

Ltac closed_no_word :=
  let H := fresh "Hc" in intros H; apply contains_has_sub in H; vm_compute in H; discriminate H.

Ltac hole_basic Hw Hs :=
  first [ apply (dec_no_word _ _ Hw)
        | apply (nil_no_word _ Hw)
        | apply Hs; cbn [strings_of token_text_of app In]; tauto
        | assumption
        | closed_no_word ].

(* w is one of the two words: split, reify, check *)
Ltac nw Hw tac := destruct (words_cases _ Hw) as [-> | ->]; no_word_frags tac.

Ltac each_msg Hm tac :=
  unfold p_error, p_continue, p_region in Hm; cbn [In] in Hm;
  repeat (destruct Hm as [Hm | Hm]; [first [discriminate Hm | injection Hm as <-; tac] |]);
  try contradiction.

(* ---- lists of names ------------------------------------------------------------------------ *)
Lemma nth_no_word w (l : list string) k : In w internal_error_words ->
  (forall s, In s l -> ~ contains w s) -> ~ contains w (nth k l "").
Proof.
  intros Hw Hl. destruct (nth_in_or_default k l "") as [H | ->]; [apply Hl, H | apply nil_no_word, Hw].
Qed.

Lemma join_no_word w (l : list string) : In w internal_error_words ->
  (forall s, In s l -> ~ contains w s) -> ~ contains w (join_with "', '" l).
Proof.
  intros Hw. induction l as [|x [|y r] IH]; intros Hl.
  - apply nil_no_word, Hw.
  - apply Hl. left. reflexivity.
  - assert (Hx : ~ contains w x) by (apply Hl; left; reflexivity).
    assert (Hr : ~ contains w (join_with "', '" (y :: r))) by (apply IH; intros s Hs; apply Hl; right; exact Hs).
    change (join_with "', '" (x :: y :: r)) with (x ++ "', '" ++ join_with "', '" (y :: r)).
    nw Hw ltac:(assumption).
Qed.

Lemma in_firstn {A} (x : A) n : forall l, In x (firstn n l) -> In x l.
Proof.
  induction n as [|n IH]; intros l H; [destruct H |]. destruct l as [|y l]; [destruct H |].
  cbn [firstn] in H. destruct H as [<- | H]; [left; reflexivity | right; exact (IH _ H)].
Qed.

Lemma lwa_no_word w (l : list string) : In w internal_error_words ->
  (forall s, In s l -> ~ contains w s) -> ~ contains w (list_with_and l).
Proof.
  intros Hw Hl. unfold list_with_and. destruct (2 <? List.length l)%nat.
  - assert (H1 : ~ contains w (join_with "', '" (firstn (List.length l - 1) l))).
    { apply join_no_word; [exact Hw |]. intros s Hs. apply Hl. exact (in_firstn _ _ _ Hs). }
    assert (H2 : ~ contains w (nth (List.length l - 1) l "")) by (apply nth_no_word; assumption).
    nw Hw ltac:(assumption).
  - destruct l as [|a [|b [|c r]]].
    + apply nil_no_word, Hw.
    + assert (Ha : ~ contains w a) by (apply Hl; left; reflexivity). nw Hw ltac:(assumption).
    + assert (Ha : ~ contains w a) by (apply Hl; left; reflexivity).
      assert (Hb : ~ contains w b) by (apply Hl; right; left; reflexivity). nw Hw ltac:(assumption).
    + apply nil_no_word, Hw.
Qed.

(* ---- the expected-token list --------------------------------------------------------------- *)
Lemma comma_items_no_word w (l : list string) : In w internal_error_words ->
  (forall s, In s l -> ~ contains w s) -> ~ contains w (comma_items l).
Proof.
  intros Hw. induction l as [|x [|y r] IH]; intros Hl.
  - apply nil_no_word, Hw.
  - assert (Hx : ~ contains w x) by (apply Hl; left; reflexivity).
    change (comma_items [x]) with ("or " ++ x). nw Hw ltac:(assumption).
  - assert (Hx : ~ contains w x) by (apply Hl; left; reflexivity).
    assert (Hr : ~ contains w (comma_items (y :: r))) by (apply IH; intros s Hs; apply Hl; right; exact Hs).
    change (comma_items (x :: y :: r)) with (x ++ ", " ++ comma_items (y :: r)).
    nw Hw ltac:(assumption).
Qed.

Lemma or_list_no_word w (l : list string) : In w internal_error_words ->
  (forall s, In s l -> ~ contains w s) -> ~ contains w (or_list l).
Proof.
  intros Hw Hl. destruct l as [|a [|b [|c r]]].
  - apply nil_no_word, Hw.
  - apply Hl. left. reflexivity.
  - assert (Ha : ~ contains w a) by (apply Hl; left; reflexivity).
    assert (Hb : ~ contains w b) by (apply Hl; right; left; reflexivity).
    change (or_list [a; b]) with (a ++ " or " ++ b). nw Hw ltac:(assumption).
  - change (or_list (a :: b :: c :: r)) with (comma_items (a :: b :: c :: r)).
    apply comma_items_no_word; assumption.
Qed.

Lemma get_range_sub (b : list N) (a c : nat) (r : list N) :
  get_range b a c = Some r -> exists p q, b = (p ++ r ++ q)%list.
Proof.
  unfold get_range. destruct (_ && _ && _ && _); [| discriminate]. intros H. injection H as <-.
  exists (firstn a b), (skipn (c - a) (skipn a b)). now rewrite firstn_skipn, firstn_skipn.
Qed.

Lemma get_range_contains (t : string) (a c : nat) (r : list N) :
  get_range (str_bytes t) a c = Some r -> contains (string_of_bytes r) t.
Proof.
  intros H. destruct (get_range_sub _ _ _ _ H) as (p & q & E0).
  exists (string_of_bytes p), (string_of_bytes q). rewrite <- !string_of_bytes_app, <- E0.
  symmetry. apply string_of_str_bytes.
Qed.

Lemma token_text_no_word w t i : In w internal_error_words ->
  token_text t = Some i -> ~ contains w t -> ~ contains w i.
Proof.
  intros Hw H Ht. unfold token_text in H.
  destruct (String.eqb t "ID"); [injection H as <-; destruct (words_cases _ Hw) as [-> | ->]; closed_no_word |].
  destruct (String.eqb t "CONSTANT"); [injection H as <-; destruct (words_cases _ Hw) as [-> | ->]; closed_no_word |].
  destruct (get_range (str_bytes t) 0 1) as [first|]; [| discriminate H].
  destruct (list_eqb first [34]); [| injection H as <-; exact Ht].
  destruct (get_range (str_bytes t) 1 (List.length (str_bytes t) - 1)) as [inner|] eqn:Hg; [| discriminate H].
  injection H as <-.
  assert (Hi : ~ contains w (string_of_bytes inner)).
  { intros Hc. apply Ht. exact (contains_trans _ _ _ Hc (get_range_contains _ _ _ _ Hg)). }
  nw Hw ltac:(assumption).
Qed.

Lemma map_opt_in {A B} (f : A -> option B) (l : list A) (ys : list B) (y : B) :
  map_option f l = Some ys -> In y ys -> exists x, In x l /\ f x = Some y.
Proof.
  revert ys. induction l as [|x l IH]; intros ys H Hy; cbn [map_option] in H.
  - injection H as <-. destruct Hy.
  - destruct (f x) as [y0|] eqn:Hx; [| discriminate H]. destruct (map_option f l) as [ys0|]; [| discriminate H].
    injection H as <-. destruct Hy as [<- | Hy].
    + exists x. split; [left; reflexivity | exact Hx].
    + destruct (IH ys0 eq_refl Hy) as (x' & Hx' & Hf). exists x'. split; [right; exact Hx' | exact Hf].
Qed.

Lemma group_names_no_word w tokens i : In w internal_error_words -> In i (group_names tokens) -> ~ contains w i.
Proof.
  intros Hw Hi. unfold group_names in Hi.
  destruct (group_complete all_compare_operators (dedup_tokens tokens));
  destruct (group_complete all_bin_operators (dedup_tokens tokens));
  destruct (group_complete all_un_operators (dedup_tokens tokens)); cbn [app In] in Hi;
  repeat (destruct Hi as [<- | Hi]; [destruct (words_cases _ Hw) as [-> | ->]; closed_no_word |]); destruct Hi.
Qed.

Lemma format_no_word w tokens fmt : In w internal_error_words ->
  format_token_list tokens = Some fmt -> (forall t, In t tokens -> ~ contains w t) -> ~ contains w fmt.
Proof.
  intros Hw H Ht. unfold format_token_list in H.
  destruct (map_option token_text (remaining_tokens tokens)) as [texts|] eqn:Hm; [| discriminate H]. injection H as <-.
  apply or_list_no_word; [exact Hw |]. intros i Hi.
  apply (Permutation_in _ (sort_strings_perm _)) in Hi. apply in_app_or in Hi. destruct Hi as [Hi | Hi].
  - exact (group_names_no_word w tokens i Hw Hi).
  - destruct (map_opt_in _ _ _ _ Hm Hi) as (t & Hrt & Hf).
    apply (token_text_no_word w t i Hw Hf). apply Ht.
    unfold remaining_tokens in Hrt. apply filter_In in Hrt. destruct Hrt as [Hrt _]. exact (proj1 (dedup_in _ _) Hrt).
Qed.

(* ---- the statement ------------------------------------------------------------------------- *)
Ltac msg_tac Hw Hs :=
  first [apply (proj1 (word_back _ _ Hw)) | apply (proj2 (word_back _ _ Hw))]; nw Hw ltac:(hole_basic Hw Hs).

Theorem no_internal_error_text_holds : stmt_no_internal_error_text.
Proof.
  intros uc fc e ps w Hw Hni Hp Hs m Hm.
  destruct e; unfold render_parts, io_error_placeholder, fmt_error_text in Hp.
  all: try (injection Hp as <-; each_msg Hm ltac:(msg_tac Hw Hs); fail).
  - (* MismatchedMuxWidths *)
    destruct (group_by_width options widths []) as [g|]; [| discriminate Hp]. injection Hp as <-.
    destruct Hm as [Hm | Hm]; [unfold p_error in Hm; injection Hm as <-; msg_tac Hw Hs |].
    apply in_flat_map in Hm. destruct Hm as (g0 & _ & Hm). unfold mux_group_parts in Hm.
    destruct Hm as [Hm | Hm].
    + unfold p_continue in Hm. injection Hm as <-. unfold s_are. destruct (List.length (snd g0) =? 1)%nat; msg_tac Hw Hs.
    + apply in_map_iff in Hm. destruct Hm as (x & Hx & _). discriminate Hx.
  - (* UndeclaredWireAssigned *)
    injection Hp as <-. unfold undeclared_hint in Hm.
    destruct close_name as [c|]; [| destruct (looks_like_register_wire name)]; each_msg Hm ltac:(msg_tac Hw Hs).
  - (* UndeclaredWireRead *)
    injection Hp as <-. unfold undeclared_hint in Hm.
    destruct close_name as [c|]; [| destruct (looks_like_register_wire name)]; each_msg Hm ltac:(msg_tac Hw Hs).
  - (* PartialFixedInput *)
    injection Hp as <-.
    assert (H1 : ~ contains w (list_with_and found_inputs)).
    { apply lwa_no_word; [exact Hw |]. intros s Hin. apply Hs. cbn [strings_of]. rewrite app_nil_r. right.
      apply in_or_app. left. exact Hin. }
    assert (H2 : ~ contains w (list_with_and missing_inputs)).
    { apply lwa_no_word; [exact Hw |]. intros s Hin. apply Hs. cbn [strings_of]. rewrite app_nil_r. right.
      apply in_or_app. right. exact Hin. }
    destruct missing_inputs as [|mi0 mis]; each_msg Hm ltac:(msg_tac Hw Hs).
  - (* WireLoop *)
    injection Hp as <-. destruct Hm as [Hm | Hm]; [unfold p_error in Hm; injection Hm as <-; msg_tac Hw Hs |].
    apply in_map_iff in Hm. destruct Hm as (i & Hm & _). unfold loop_line, p_continue in Hm. injection Hm as <-.
    assert (H1 : forall k, ~ contains w (nth k lst "")).
    { intros k. apply nth_no_word; [exact Hw |]. intros s Hin. apply Hs. cbn [strings_of]. rewrite app_nil_r. exact Hin. }
    pose proof (H1 i) as Hi. pose proof (H1 ((i + 1) mod List.length lst)%nat) as Hi1.
    destruct (i =? List.length lst - 1)%nat; msg_tac Hw Hs.
  - (* InternalParserErrorNear *)
    exfalso. apply Hni. exact I.
  - (* UnrecognizedToken *)
    destruct (format_token_list expected) as [fmt|] eqn:Hf; [| discriminate Hp].
    assert (Hfmt : ~ contains w fmt).
    { apply (format_no_word w expected fmt Hw Hf). intros t Ht. apply Hs. cbn [strings_of]. apply in_or_app. left. exact Ht. }
    assert (Htok : ~ contains w
               (if (List.length (fc_data fc) <=? snd location)%nat then eof_text
                else match get_range (fc_data fc) (fst location) (snd location) with
                     | Some t => string_of_bytes t
                     | None => eof_text
                     end)).
    { destruct (List.length (fc_data fc) <=? snd location)%nat;
        [destruct (words_cases _ Hw) as [-> | ->]; closed_no_word |].
      destruct (get_range (fc_data fc) (fst location) (snd location)) as [t|] eqn:Hg;
        [| destruct (words_cases _ Hw) as [-> | ->]; closed_no_word].
      apply Hs. apply in_or_app. right. cbn [token_text_of]. rewrite Hg. left. reflexivity. }
    destruct (mem_str semicolon_token expected).
    + destruct (line_number_and_bounds fc (fst location)) as [[[n st] nx]|]; [| discriminate Hp].
      destruct (get_range (fc_data fc) st (fst location)) as [before|]; [| discriminate Hp].
      injection Hp as <-. destruct (all_whitespace uc before); each_msg Hm ltac:(msg_tac Hw Hs).
    + injection Hp as <-. each_msg Hm ltac:(msg_tac Hw Hs).
  - (* ExtraToken *)
    destruct (get_range (fc_data fc) (fst sp) (snd sp)) as [t|] eqn:Hg; [| discriminate Hp].
    assert (Htok : ~ contains w (string_of_bytes t)).
    { apply Hs. cbn [strings_of token_text_of app]. rewrite Hg. left. reflexivity. }
    injection Hp as <-. each_msg Hm ltac:(msg_tac Hw Hs).
Qed.

Theorem internal_error_text_present_holds : stmt_internal_error_text_present.
Proof.
  intros uc fc sp info text w Hw H. unfold render_one, render_parts in H.
  destruct (words_cases w Hw) as [-> | ->].
  - apply (parts_text_contains fc _ text w1 _ H (or_introl eq_refl)).
    apply keep_error; [discriminate | reflexivity | cbn; lia |]. exists "", " near or before here:". reflexivity.
  - apply (parts_text_contains fc _ text w2 _ H (or_intror (or_intror (or_introl eq_refl)))).
    apply keep_error; [discriminate | reflexivity | cbn; lia |].
    exists "Syntax error, ", (", or both." ++ nl ++ "Internal info about error: " ++ info). reflexivity.
Qed.

(* ====================================================================================== *)
(* 8. refuted drafts                                                                      *)
(* ====================================================================================== *)
Lemma wf_text_nil : wf_text [].
Proof. intros i Hi. cbn in Hi. lia. Qed.

Theorem render_total_unconditional_refuted : ~ stmt_render_total_unconditional.
Proof.
  intros H. apply (H test_uclass [] [] [] (RExtraToken (1, 0)%nat) wf_text_nil wf_text_nil). reflexivity.
Qed.

Theorem error_spans_equal_hook_refuted : ~ stmt_error_spans_equal_hook.
Proof.
  intros H. specialize (H (RMismatchedMuxWidths [(0, 1); (2, 3); (4, 5)]%nat [Bits 2; Unl; Bits 1])).
  vm_compute in H. discriminate H.
Qed.

Theorem names_the_wire_any_name_refuted : ~ stmt_names_the_wire_any_name.
Proof.
  intros H.
  specialize (H test_uclass (the_file [] [] []) (RUnsetBuiltinWire ("a" ++ nl ++ "b")) _ ("a" ++ nl ++ "b")
                eq_refl (or_introl eq_refl)).
  apply contains_has_sub in H. vm_compute in H. discriminate H.
Qed.

Theorem no_internal_error_text_any_name_refuted : ~ stmt_no_internal_error_text_any_name.
Proof.
  intros H.
  apply (H test_uclass (the_file [] [] []) (RUnsetBuiltinWire "parser bug") _ "parser bug"
           (or_intror (or_introl eq_refl)) (fun x => x) eq_refl _ (or_introl eq_refl)).
  apply has_sub_contains. vm_compute. reflexivity.
Qed.

(* ====================================================================================== *)
(* 9. examples (non-vacuity)                                                              *)
(* ====================================================================================== *)
(* a checkable form of RegionSpec.wf_text: a continuation byte follows a byte >= 128 *)
Fixpoint wf_check (prev : N) (l : list N) : bool :=
  match l with
  | [] => true
  | b :: r => (if is_cont b then (128 <=? prev)%N else true) && wf_check b r
  end.

Lemma wf_check_ok_gen : forall l p, wf_check p l = true ->
  forall i, (i < List.length l)%nat -> is_cont (nth i l 0) = true ->
    (i = 0%nat -> 128 <= p) /\ ((0 < i)%nat -> 128 <= nth (i - 1) l 0).
Proof.
  induction l as [|b r IH]; intros p H i Hi Hc; [cbn in Hi; lia |].
  cbn [wf_check] in H. apply andb_prop in H. destruct H as [Hb Hr].
  destruct i as [|i].
  - cbn [nth] in Hc. rewrite Hc in Hb. split; [intros _; lia | lia].
  - cbn [nth] in Hc. cbn [List.length] in Hi. destruct (IH b Hr i ltac:(lia) Hc) as [H0 H1].
    split; [lia |]. intros _. cbn [Nat.sub nth]. destruct i as [|i]; [cbn [nth]; apply H0; reflexivity |].
    rewrite Nat.sub_0_r. specialize (H1 ltac:(lia)). cbn [Nat.sub] in H1. rewrite Nat.sub_0_r in H1. exact H1.
Qed.

Lemma wf_check_ok (l : list N) : wf_check 0 l = true -> wf_text l.
Proof.
  intros H i Hi Hc. destruct (wf_check_ok_gen l 0 H i Hi Hc) as [H0 H1].
  destruct i as [|i]; [specialize (H0 eq_refl); lia |]. split; [lia | apply H1; lia].
Qed.

Lemma wf_preamble : wf_text preamble_bytes.
Proof. apply wf_check_ok. vm_compute. reflexivity. Qed.

(* ---- real diagnostics: the text is what hclrs (harness `front`, file name input.hcl, the compiled
   preamble) wrote for the user text; the errors are its error_sexprs ------------------------ *)
Definition input_hcl : list N := [105; 110; 112; 117; 116; 46; 104; 99; 108].   (* "input.hcl" *)
Definition real_file (user : list N) : file_contents := the_file preamble_bytes user input_hcl.

(* a line feed where a ";" is missing: UnrecognizedToken with the "(Missing semicolon before this?)" hint.  User text:
     pc = 0;
     Stat = STAT_AOK;
     wire zq:8; zq = 1
        wire zr:8; zr = 2;
   Text written:
     error: Unexpected token 'wire', expected ')', ',', '..', ':', ';', '[', ']', '}', a binary operator, or a comparison operator:
            (Missing semicolon before this?)
          -> input.hcl:4
          |
        4 |    wire zr:8; zr = 2;
          |    ^^^^
*)
Definition ex_missing_semicolon_user : list N := [112; 99; 32; 61; 32; 48; 59; 10; 83; 116; 97; 116; 32; 61; 32; 83; 84; 65; 84; 95; 65; 79; 75; 59; 10; 119; 105; 114; 101; 32; 122; 113; 58; 56; 59; 32; 122; 113; 32; 61; 32; 49; 10; 32; 32; 32; 119; 105; 114; 101; 32; 122; 114; 58; 56; 59; 32; 122; 114; 32; 61; 32; 50; 59; 10].
Definition ex_missing_semicolon_errors : list rerror :=
  [(RUnrecognizedToken (1073, 1077)%nat [(string_of_bytes [34; 33; 61; 34]); (string_of_bytes [34; 38; 34]); (string_of_bytes [34; 38; 38; 34]); (string_of_bytes [34; 41; 34]); (string_of_bytes [34; 42; 34]); (string_of_bytes [34; 43; 34]); (string_of_bytes [34; 44; 34]); (string_of_bytes [34; 45; 34]); (string_of_bytes [34; 46; 46; 34]); (string_of_bytes [34; 47; 34]); (string_of_bytes [34; 58; 34]); (string_of_bytes [34; 59; 34]); (string_of_bytes [34; 60; 34]); (string_of_bytes [34; 60; 60; 34]); (string_of_bytes [34; 60; 61; 34]); (string_of_bytes [34; 61; 61; 34]); (string_of_bytes [34; 62; 34]); (string_of_bytes [34; 62; 61; 34]); (string_of_bytes [34; 62; 62; 34]); (string_of_bytes [34; 91; 34]); (string_of_bytes [34; 93; 34]); (string_of_bytes [34; 94; 34]); (string_of_bytes [34; 105; 110; 34]); (string_of_bytes [34; 124; 34]); (string_of_bytes [34; 124; 124; 34]); (string_of_bytes [34; 125; 34])])].
Definition ex_missing_semicolon_text : string := string_of_bytes [101; 114; 114; 111; 114; 58; 32; 85; 110; 101; 120; 112; 101; 99; 116; 101; 100; 32; 116; 111; 107; 101; 110; 32; 39; 119; 105; 114; 101; 39; 44; 32; 101; 120; 112; 101; 99; 116; 101; 100; 32; 39; 41; 39; 44; 32; 39; 44; 39; 44; 32; 39; 46; 46; 39; 44; 32; 39; 58; 39; 44; 32; 39; 59; 39; 44; 32; 39; 91; 39; 44; 32; 39; 93; 39; 44; 32; 39; 125; 39; 44; 32; 97; 32; 98; 105; 110; 97; 114; 121; 32; 111; 112; 101; 114; 97; 116; 111; 114; 44; 32; 111; 114; 32; 97; 32; 99; 111; 109; 112; 97; 114; 105; 115; 111; 110; 32; 111; 112; 101; 114; 97; 116; 111; 114; 58; 10; 32; 32; 32; 32; 32; 32; 32; 40; 77; 105; 115; 115; 105; 110; 103; 32; 115; 101; 109; 105; 99; 111; 108; 111; 110; 32; 98; 101; 102; 111; 114; 101; 32; 116; 104; 105; 115; 63; 41; 10; 32; 32; 32; 32; 32; 45; 62; 32; 105; 110; 112; 117; 116; 46; 104; 99; 108; 58; 52; 10; 32; 32; 32; 32; 32; 124; 10; 32; 32; 32; 52; 32; 124; 32; 32; 32; 32; 119; 105; 114; 101; 32; 122; 114; 58; 56; 59; 32; 122; 114; 32; 61; 32; 50; 59; 10; 32; 32; 32; 32; 32; 124; 32; 32; 32; 32; 94; 94; 94; 94; 10].
Example ex_missing_semicolon_render :
  render_all test_uclass (real_file ex_missing_semicolon_user) ex_missing_semicolon_errors = Some ex_missing_semicolon_text.
Proof. vm_compute. reflexivity. Qed.

(* MismatchedMuxWidths: five options of widths 2, 1, unlimited, 3, 2 - shown by width 1, 2 (two options), 3.  User text:
     pc = 0;
     Stat = STAT_AOK;
     wire zq:8; zq = [ pc == 0 : 0b11; pc == 1 : 0b1; pc == 2 : 5; pc == 3: 0b111; 1 : 0b10; ];
   Text written:
     error: Mismatched wire widths for mux options.
            1 option is 1 bits wide:
          -> input.hcl:3
          |
        3 | wire zq:8; zq = [ pc == 0 : 0b11; pc == 1 : 0b1; pc == 2 : 5; pc == 3: 0b111; 1 : 0b10; ];
          |                                             ^^^
            2 options are 2 bits wide:
          -> input.hcl:3
          |
        3 | wire zq:8; zq = [ pc == 0 : 0b11; pc == 1 : 0b1; pc == 2 : 5; pc == 3: 0b111; 1 : 0b10; ];
          |                             ^^^^
          -> input.hcl:3
          |
        3 | wire zq:8; zq = [ pc == 0 : 0b11; pc == 1 : 0b1; pc == 2 : 5; pc == 3: 0b111; 1 : 0b10; ];
          |                                                                                   ^^^^
            1 option is 3 bits wide:
          -> input.hcl:3
          |
        3 | wire zq:8; zq = [ pc == 0 : 0b11; pc == 1 : 0b1; pc == 2 : 5; pc == 3: 0b111; 1 : 0b10; ];
          |                                                                        ^^^^^
*)
Definition ex_mux_widths_user : list N := [112; 99; 32; 61; 32; 48; 59; 10; 83; 116; 97; 116; 32; 61; 32; 83; 84; 65; 84; 95; 65; 79; 75; 59; 10; 119; 105; 114; 101; 32; 122; 113; 58; 56; 59; 32; 122; 113; 32; 61; 32; 91; 32; 112; 99; 32; 61; 61; 32; 48; 32; 58; 32; 48; 98; 49; 49; 59; 32; 112; 99; 32; 61; 61; 32; 49; 32; 58; 32; 48; 98; 49; 59; 32; 112; 99; 32; 61; 61; 32; 50; 32; 58; 32; 53; 59; 32; 112; 99; 32; 61; 61; 32; 51; 58; 32; 48; 98; 49; 49; 49; 59; 32; 49; 32; 58; 32; 48; 98; 49; 48; 59; 32; 93; 59; 10].
Definition ex_mux_widths_errors : list rerror :=
  [(RMismatchedMuxWidths [(1080, 1084)%nat; (1096, 1099)%nat; (1111, 1112)%nat; (1123, 1128)%nat; (1134, 1138)%nat] [(Bits 2); (Bits 1); Unl; (Bits 3); (Bits 2)])].
Definition ex_mux_widths_text : string := string_of_bytes [101; 114; 114; 111; 114; 58; 32; 77; 105; 115; 109; 97; 116; 99; 104; 101; 100; 32; 119; 105; 114; 101; 32; 119; 105; 100; 116; 104; 115; 32; 102; 111; 114; 32; 109; 117; 120; 32; 111; 112; 116; 105; 111; 110; 115; 46; 10; 32; 32; 32; 32; 32; 32; 32; 49; 32; 111; 112; 116; 105; 111; 110; 32; 105; 115; 32; 49; 32; 98; 105; 116; 115; 32; 119; 105; 100; 101; 58; 10; 32; 32; 32; 32; 32; 45; 62; 32; 105; 110; 112; 117; 116; 46; 104; 99; 108; 58; 51; 10; 32; 32; 32; 32; 32; 124; 10; 32; 32; 32; 51; 32; 124; 32; 119; 105; 114; 101; 32; 122; 113; 58; 56; 59; 32; 122; 113; 32; 61; 32; 91; 32; 112; 99; 32; 61; 61; 32; 48; 32; 58; 32; 48; 98; 49; 49; 59; 32; 112; 99; 32; 61; 61; 32; 49; 32; 58; 32; 48; 98; 49; 59; 32; 112; 99; 32; 61; 61; 32; 50; 32; 58; 32; 53; 59; 32; 112; 99; 32; 61; 61; 32; 51; 58; 32; 48; 98; 49; 49; 49; 59; 32; 49; 32; 58; 32; 48; 98; 49; 48; 59; 32; 93; 59; 10; 32; 32; 32; 32; 32; 124; 32; 32; 32; 32; 32; 32; 32; 32; 32; 32; 32; 32; 32; 32; 32; 32; 32; 32; 32; 32; 32; 32; 32; 32; 32; 32; 32; 32; 32; 32; 32; 32; 32; 32; 32; 32; 32; 32; 32; 32; 32; 32; 32; 32; 32; 94; 94; 94; 10; 32; 32; 32; 32; 32; 32; 32; 50; 32; 111; 112; 116; 105; 111; 110; 115; 32; 97; 114; 101; 32; 50; 32; 98; 105; 116; 115; 32; 119; 105; 100; 101; 58; 10; 32; 32; 32; 32; 32; 45; 62; 32; 105; 110; 112; 117; 116; 46; 104; 99; 108; 58; 51; 10; 32; 32; 32; 32; 32; 124; 10; 32; 32; 32; 51; 32; 124; 32; 119; 105; 114; 101; 32; 122; 113; 58; 56; 59; 32; 122; 113; 32; 61; 32; 91; 32; 112; 99; 32; 61; 61; 32; 48; 32; 58; 32; 48; 98; 49; 49; 59; 32; 112; 99; 32; 61; 61; 32; 49; 32; 58; 32; 48; 98; 49; 59; 32; 112; 99; 32; 61; 61; 32; 50; 32; 58; 32; 53; 59; 32; 112; 99; 32; 61; 61; 32; 51; 58; 32; 48; 98; 49; 49; 49; 59; 32; 49; 32; 58; 32; 48; 98; 49; 48; 59; 32; 93; 59; 10; 32; 32; 32; 32; 32; 124; 32; 32; 32; 32; 32; 32; 32; 32; 32; 32; 32; 32; 32; 32; 32; 32; 32; 32; 32; 32; 32; 32; 32; 32; 32; 32; 32; 32; 32; 94; 94; 94; 94; 10; 32; 32; 32; 32; 32; 45; 62; 32; 105; 110; 112; 117; 116; 46; 104; 99; 108; 58; 51; 10; 32; 32; 32; 32; 32; 124; 10; 32; 32; 32; 51; 32; 124; 32; 119; 105; 114; 101; 32; 122; 113; 58; 56; 59; 32; 122; 113; 32; 61; 32; 91; 32; 112; 99; 32; 61; 61; 32; 48; 32; 58; 32; 48; 98; 49; 49; 59; 32; 112; 99; 32; 61; 61; 32; 49; 32; 58; 32; 48; 98; 49; 59; 32; 112; 99; 32; 61; 61; 32; 50; 32; 58; 32; 53; 59; 32; 112; 99; 32; 61; 61; 32; 51; 58; 32; 48; 98; 49; 49; 49; 59; 32; 49; 32; 58; 32; 48; 98; 49; 48; 59; 32; 93; 59; 10; 32; 32; 32; 32; 32; 124; 32; 32; 32; 32; 32; 32; 32; 32; 32; 32; 32; 32; 32; 32; 32; 32; 32; 32; 32; 32; 32; 32; 32; 32; 32; 32; 32; 32; 32; 32; 32; 32; 32; 32; 32; 32; 32; 32; 32; 32; 32; 32; 32; 32; 32; 32; 32; 32; 32; 32; 32; 32; 32; 32; 32; 32; 32; 32; 32; 32; 32; 32; 32; 32; 32; 32; 32; 32; 32; 32; 32; 32; 32; 32; 32; 32; 32; 32; 32; 32; 32; 32; 32; 94; 94; 94; 94; 10; 32; 32; 32; 32; 32; 32; 32; 49; 32; 111; 112; 116; 105; 111; 110; 32; 105; 115; 32; 51; 32; 98; 105; 116; 115; 32; 119; 105; 100; 101; 58; 10; 32; 32; 32; 32; 32; 45; 62; 32; 105; 110; 112; 117; 116; 46; 104; 99; 108; 58; 51; 10; 32; 32; 32; 32; 32; 124; 10; 32; 32; 32; 51; 32; 124; 32; 119; 105; 114; 101; 32; 122; 113; 58; 56; 59; 32; 122; 113; 32; 61; 32; 91; 32; 112; 99; 32; 61; 61; 32; 48; 32; 58; 32; 48; 98; 49; 49; 59; 32; 112; 99; 32; 61; 61; 32; 49; 32; 58; 32; 48; 98; 49; 59; 32; 112; 99; 32; 61; 61; 32; 50; 32; 58; 32; 53; 59; 32; 112; 99; 32; 61; 61; 32; 51; 58; 32; 48; 98; 49; 49; 49; 59; 32; 49; 32; 58; 32; 48; 98; 49; 48; 59; 32; 93; 59; 10; 32; 32; 32; 32; 32; 124; 32; 32; 32; 32; 32; 32; 32; 32; 32; 32; 32; 32; 32; 32; 32; 32; 32; 32; 32; 32; 32; 32; 32; 32; 32; 32; 32; 32; 32; 32; 32; 32; 32; 32; 32; 32; 32; 32; 32; 32; 32; 32; 32; 32; 32; 32; 32; 32; 32; 32; 32; 32; 32; 32; 32; 32; 32; 32; 32; 32; 32; 32; 32; 32; 32; 32; 32; 32; 32; 32; 32; 32; 94; 94; 94; 94; 94; 10].
Example ex_mux_widths_render :
  render_all test_uclass (real_file ex_mux_widths_user) ex_mux_widths_errors = Some ex_mux_widths_text.
Proof. vm_compute. reflexivity. Qed.

(* non-ASCII names, CRLF: UndeclaredWireRead twice, UndeclaredWireAssigned ("Missing register declaration?" is about characters, not bytes).  User text:
     pc = 0;
     Stat = STAT_AOK;
     wire zq:8; zq = é_r + αβ;
     é_x = 1;
   Text written:
     error: Undeclared wire 'é_x' assigned value:
          -> input.hcl:4
          |
        4 | é_x = 1;
          | ^^^^
            (Missing register declaration?)
     error: Usage of undeclared wire 'é_r' in expression:
          -> input.hcl:3
          |
        3 | wire zq:8; zq = é_r + αβ;
          |                 ^^^^
            (Missing register declaration?)
     error: Wire 'αβ' was read but never declared.
     error: Wire 'é_r' was read but never declared.
*)
Definition ex_non_ascii_user : list N := [112; 99; 32; 61; 32; 48; 59; 10; 83; 116; 97; 116; 32; 61; 32; 83; 84; 65; 84; 95; 65; 79; 75; 59; 10; 119; 105; 114; 101; 32; 122; 113; 58; 56; 59; 32; 122; 113; 32; 61; 32; 195; 169; 95; 114; 32; 43; 32; 206; 177; 206; 178; 59; 13; 10; 195; 169; 95; 120; 32; 61; 32; 49; 59; 13; 10].
Definition ex_non_ascii_errors : list rerror :=
  [(RUndeclaredWireAssigned (string_of_bytes [195; 169; 95; 120]) (1082, 1086)%nat None);
   (RUndeclaredWireRead (string_of_bytes [195; 169; 95; 114]) (1068, 1072)%nat None);
   (RUnsetUndeclaredWire (string_of_bytes [206; 177; 206; 178]));
   (RUnsetUndeclaredWire (string_of_bytes [195; 169; 95; 114]))].
Definition ex_non_ascii_text : string := string_of_bytes [101; 114; 114; 111; 114; 58; 32; 85; 110; 100; 101; 99; 108; 97; 114; 101; 100; 32; 119; 105; 114; 101; 32; 39; 195; 169; 95; 120; 39; 32; 97; 115; 115; 105; 103; 110; 101; 100; 32; 118; 97; 108; 117; 101; 58; 10; 32; 32; 32; 32; 32; 45; 62; 32; 105; 110; 112; 117; 116; 46; 104; 99; 108; 58; 52; 10; 32; 32; 32; 32; 32; 124; 10; 32; 32; 32; 52; 32; 124; 32; 195; 169; 95; 120; 32; 61; 32; 49; 59; 10; 32; 32; 32; 32; 32; 124; 32; 94; 94; 94; 94; 10; 32; 32; 32; 32; 32; 32; 32; 40; 77; 105; 115; 115; 105; 110; 103; 32; 114; 101; 103; 105; 115; 116; 101; 114; 32; 100; 101; 99; 108; 97; 114; 97; 116; 105; 111; 110; 63; 41; 10; 101; 114; 114; 111; 114; 58; 32; 85; 115; 97; 103; 101; 32; 111; 102; 32; 117; 110; 100; 101; 99; 108; 97; 114; 101; 100; 32; 119; 105; 114; 101; 32; 39; 195; 169; 95; 114; 39; 32; 105; 110; 32; 101; 120; 112; 114; 101; 115; 115; 105; 111; 110; 58; 10; 32; 32; 32; 32; 32; 45; 62; 32; 105; 110; 112; 117; 116; 46; 104; 99; 108; 58; 51; 10; 32; 32; 32; 32; 32; 124; 10; 32; 32; 32; 51; 32; 124; 32; 119; 105; 114; 101; 32; 122; 113; 58; 56; 59; 32; 122; 113; 32; 61; 32; 195; 169; 95; 114; 32; 43; 32; 206; 177; 206; 178; 59; 10; 32; 32; 32; 32; 32; 124; 32; 32; 32; 32; 32; 32; 32; 32; 32; 32; 32; 32; 32; 32; 32; 32; 32; 94; 94; 94; 94; 10; 32; 32; 32; 32; 32; 32; 32; 40; 77; 105; 115; 115; 105; 110; 103; 32; 114; 101; 103; 105; 115; 116; 101; 114; 32; 100; 101; 99; 108; 97; 114; 97; 116; 105; 111; 110; 63; 41; 10; 101; 114; 114; 111; 114; 58; 32; 87; 105; 114; 101; 32; 39; 206; 177; 206; 178; 39; 32; 119; 97; 115; 32; 114; 101; 97; 100; 32; 98; 117; 116; 32; 110; 101; 118; 101; 114; 32; 100; 101; 99; 108; 97; 114; 101; 100; 46; 10; 101; 114; 114; 111; 114; 58; 32; 87; 105; 114; 101; 32; 39; 195; 169; 95; 114; 39; 32; 119; 97; 115; 32; 114; 101; 97; 100; 32; 98; 117; 116; 32; 110; 101; 118; 101; 114; 32; 100; 101; 99; 108; 97; 114; 101; 100; 46; 10].
Example ex_non_ascii_render :
  render_all test_uclass (real_file ex_non_ascii_user) ex_non_ascii_errors = Some ex_non_ascii_text.
Proof. vm_compute. reflexivity. Qed.

(* PartialFixedInput with one and two names.  User text:
     pc = 0;
     Stat = STAT_AOK;
     mem_addr = 0; mem_input = 0;
   Text written:
     error: Wire 'mem_addr' set, but not the rest of the data memory read port.
            (Did you mean to set 'mem_readbit'?)
     error: Wire 'mem_addr' and 'mem_input' set, but not the rest of the data memory write port.
            (Did you mean to set 'mem_writebit'?)
*)
Definition ex_partial_port_user : list N := [112; 99; 32; 61; 32; 48; 59; 10; 83; 116; 97; 116; 32; 61; 32; 83; 84; 65; 84; 95; 65; 79; 75; 59; 10; 109; 101; 109; 95; 97; 100; 100; 114; 32; 61; 32; 48; 59; 32; 109; 101; 109; 95; 105; 110; 112; 117; 116; 32; 61; 32; 48; 59; 10].
Definition ex_partial_port_errors : list rerror :=
  [(RPartialFixedInput (string_of_bytes [100; 97; 116; 97; 32; 109; 101; 109; 111; 114; 121; 32; 114; 101; 97; 100; 32; 112; 111; 114; 116]) [(string_of_bytes [109; 101; 109; 95; 97; 100; 100; 114])] [(string_of_bytes [109; 101; 109; 95; 114; 101; 97; 100; 98; 105; 116])]);
   (RPartialFixedInput (string_of_bytes [100; 97; 116; 97; 32; 109; 101; 109; 111; 114; 121; 32; 119; 114; 105; 116; 101; 32; 112; 111; 114; 116]) [(string_of_bytes [109; 101; 109; 95; 97; 100; 100; 114]); (string_of_bytes [109; 101; 109; 95; 105; 110; 112; 117; 116])] [(string_of_bytes [109; 101; 109; 95; 119; 114; 105; 116; 101; 98; 105; 116])])].
Definition ex_partial_port_text : string := string_of_bytes [101; 114; 114; 111; 114; 58; 32; 87; 105; 114; 101; 32; 39; 109; 101; 109; 95; 97; 100; 100; 114; 39; 32; 115; 101; 116; 44; 32; 98; 117; 116; 32; 110; 111; 116; 32; 116; 104; 101; 32; 114; 101; 115; 116; 32; 111; 102; 32; 116; 104; 101; 32; 100; 97; 116; 97; 32; 109; 101; 109; 111; 114; 121; 32; 114; 101; 97; 100; 32; 112; 111; 114; 116; 46; 10; 32; 32; 32; 32; 32; 32; 32; 40; 68; 105; 100; 32; 121; 111; 117; 32; 109; 101; 97; 110; 32; 116; 111; 32; 115; 101; 116; 32; 39; 109; 101; 109; 95; 114; 101; 97; 100; 98; 105; 116; 39; 63; 41; 10; 101; 114; 114; 111; 114; 58; 32; 87; 105; 114; 101; 32; 39; 109; 101; 109; 95; 97; 100; 100; 114; 39; 32; 97; 110; 100; 32; 39; 109; 101; 109; 95; 105; 110; 112; 117; 116; 39; 32; 115; 101; 116; 44; 32; 98; 117; 116; 32; 110; 111; 116; 32; 116; 104; 101; 32; 114; 101; 115; 116; 32; 111; 102; 32; 116; 104; 101; 32; 100; 97; 116; 97; 32; 109; 101; 109; 111; 114; 121; 32; 119; 114; 105; 116; 101; 32; 112; 111; 114; 116; 46; 10; 32; 32; 32; 32; 32; 32; 32; 40; 68; 105; 100; 32; 121; 111; 117; 32; 109; 101; 97; 110; 32; 116; 111; 32; 115; 101; 116; 32; 39; 109; 101; 109; 95; 119; 114; 105; 116; 101; 98; 105; 116; 39; 63; 41; 10].
Example ex_partial_port_render :
  render_all test_uclass (real_file ex_partial_port_user) ex_partial_port_errors = Some ex_partial_port_text.
Proof. vm_compute. reflexivity. Qed.

(* WireLoop.  User text:
     pc = 0;
     Stat = STAT_AOK;
     wire é:8, αβ:8, c:8; é = αβ; αβ = c; c = é;
   Text written:
     error: Circular dependency detected:
              'é' depends on 'αβ' and
              'c' depends on 'é' and
              'αβ' depends on 'c'
*)
Definition ex_wire_loop_user : list N := [112; 99; 32; 61; 32; 48; 59; 10; 83; 116; 97; 116; 32; 61; 32; 83; 84; 65; 84; 95; 65; 79; 75; 59; 10; 119; 105; 114; 101; 32; 195; 169; 58; 56; 44; 32; 206; 177; 206; 178; 58; 56; 44; 32; 99; 58; 56; 59; 32; 195; 169; 32; 61; 32; 206; 177; 206; 178; 59; 32; 206; 177; 206; 178; 32; 61; 32; 99; 59; 32; 99; 32; 61; 32; 195; 169; 59; 10].
Definition ex_wire_loop_errors : list rerror :=
  [(RWireLoop [(string_of_bytes [206; 177; 206; 178]); (string_of_bytes [195; 169]); (string_of_bytes [99])])].
Definition ex_wire_loop_text : string := string_of_bytes [101; 114; 114; 111; 114; 58; 32; 67; 105; 114; 99; 117; 108; 97; 114; 32; 100; 101; 112; 101; 110; 100; 101; 110; 99; 121; 32; 100; 101; 116; 101; 99; 116; 101; 100; 58; 10; 32; 32; 32; 32; 32; 32; 32; 32; 32; 39; 195; 169; 39; 32; 100; 101; 112; 101; 110; 100; 115; 32; 111; 110; 32; 39; 206; 177; 206; 178; 39; 32; 97; 110; 100; 10; 32; 32; 32; 32; 32; 32; 32; 32; 32; 39; 99; 39; 32; 100; 101; 112; 101; 110; 100; 115; 32; 111; 110; 32; 39; 195; 169; 39; 32; 97; 110; 100; 10; 32; 32; 32; 32; 32; 32; 32; 32; 32; 39; 206; 177; 206; 178; 39; 32; 100; 101; 112; 101; 110; 100; 115; 32; 111; 110; 32; 39; 99; 39; 10].
Example ex_wire_loop_render :
  render_all test_uclass (real_file ex_wire_loop_user) ex_wire_loop_errors = Some ex_wire_loop_text.
Proof. vm_compute. reflexivity. Qed.

(* a span covering several CRLF lines (UnreachableOptions) and a hint after the region.  User text:
     pc = 0;
     Stat = STAT_AOK;
     wire zq : 8; zq = [
      1 : 1;
      pc == 0 : 2;
     ];
   Text written:
     error: Mux (case expression) has at least one case that will never be reached:
          -> input.hcl:3
          |
        3 | wire zq : 8; zq = [
          |                   ^
        4 |  1 : 1;
          | ^^^^^^^
        5 |  pc == 0 : 2;
          | ^^^^^^^^^^^^^
        6 | ];
          | ^
            (put cases after a default case?)
*)
Definition ex_several_lines_user : list N := [112; 99; 32; 61; 32; 48; 59; 10; 83; 116; 97; 116; 32; 61; 32; 83; 84; 65; 84; 95; 65; 79; 75; 59; 10; 119; 105; 114; 101; 32; 122; 113; 32; 58; 32; 56; 59; 32; 122; 113; 32; 61; 32; 91; 13; 10; 32; 49; 32; 58; 32; 49; 59; 13; 10; 32; 112; 99; 32; 61; 61; 32; 48; 32; 58; 32; 50; 59; 13; 10; 93; 59; 13; 10].
Definition ex_several_lines_errors : list rerror :=
  [(RUnreachableOptions (1070, 1098)%nat)].
Definition ex_several_lines_text : string := string_of_bytes [101; 114; 114; 111; 114; 58; 32; 77; 117; 120; 32; 40; 99; 97; 115; 101; 32; 101; 120; 112; 114; 101; 115; 115; 105; 111; 110; 41; 32; 104; 97; 115; 32; 97; 116; 32; 108; 101; 97; 115; 116; 32; 111; 110; 101; 32; 99; 97; 115; 101; 32; 116; 104; 97; 116; 32; 119; 105; 108; 108; 32; 110; 101; 118; 101; 114; 32; 98; 101; 32; 114; 101; 97; 99; 104; 101; 100; 58; 10; 32; 32; 32; 32; 32; 45; 62; 32; 105; 110; 112; 117; 116; 46; 104; 99; 108; 58; 51; 10; 32; 32; 32; 32; 32; 124; 10; 32; 32; 32; 51; 32; 124; 32; 119; 105; 114; 101; 32; 122; 113; 32; 58; 32; 56; 59; 32; 122; 113; 32; 61; 32; 91; 10; 32; 32; 32; 32; 32; 124; 32; 32; 32; 32; 32; 32; 32; 32; 32; 32; 32; 32; 32; 32; 32; 32; 32; 32; 32; 94; 10; 32; 32; 32; 52; 32; 124; 32; 32; 49; 32; 58; 32; 49; 59; 10; 32; 32; 32; 32; 32; 124; 32; 94; 94; 94; 94; 94; 94; 94; 10; 32; 32; 32; 53; 32; 124; 32; 32; 112; 99; 32; 61; 61; 32; 48; 32; 58; 32; 50; 59; 10; 32; 32; 32; 32; 32; 124; 32; 94; 94; 94; 94; 94; 94; 94; 94; 94; 94; 94; 94; 94; 10; 32; 32; 32; 54; 32; 124; 32; 93; 59; 10; 32; 32; 32; 32; 32; 124; 32; 94; 10; 32; 32; 32; 32; 32; 32; 32; 40; 112; 117; 116; 32; 99; 97; 115; 101; 115; 32; 97; 102; 116; 101; 114; 32; 97; 32; 100; 101; 102; 97; 117; 108; 116; 32; 99; 97; 115; 101; 63; 41; 10].
Example ex_several_lines_render :
  render_all test_uclass (real_file ex_several_lines_user) ex_several_lines_errors = Some ex_several_lines_text.
Proof. vm_compute. reflexivity. Qed.

(* UnrecognizedToken at the end of the input: '<end of file>', expected list with the unary-operator group.  User text:
     pc = 0;
     Stat = STAT_AOK;
     wire zq:8; zq = 1 +
   Text written:
     error: Unexpected token '<end of file>', expected '(', '+', '[', a unary operator, an identifier (wire name), or an integer constant:
          -> input.hcl:3
          |
        3 | wire zq:8; zq = 1 +
          |                    
*)
Definition ex_end_of_file_user : list N := [112; 99; 32; 61; 32; 48; 59; 10; 83; 116; 97; 116; 32; 61; 32; 83; 84; 65; 84; 95; 65; 79; 75; 59; 10; 119; 105; 114; 101; 32; 122; 113; 58; 56; 59; 32; 122; 113; 32; 61; 32; 49; 32; 43].
Definition ex_end_of_file_errors : list rerror :=
  [(RUnrecognizedToken (1071, 1072)%nat [(string_of_bytes [34; 33; 34]); (string_of_bytes [34; 40; 34]); (string_of_bytes [34; 43; 34]); (string_of_bytes [34; 45; 34]); (string_of_bytes [34; 91; 34]); (string_of_bytes [34; 126; 34]); (string_of_bytes [67; 79; 78; 83; 84; 65; 78; 84]); (string_of_bytes [73; 68])])].
Definition ex_end_of_file_text : string := string_of_bytes [101; 114; 114; 111; 114; 58; 32; 85; 110; 101; 120; 112; 101; 99; 116; 101; 100; 32; 116; 111; 107; 101; 110; 32; 39; 60; 101; 110; 100; 32; 111; 102; 32; 102; 105; 108; 101; 62; 39; 44; 32; 101; 120; 112; 101; 99; 116; 101; 100; 32; 39; 40; 39; 44; 32; 39; 43; 39; 44; 32; 39; 91; 39; 44; 32; 97; 32; 117; 110; 97; 114; 121; 32; 111; 112; 101; 114; 97; 116; 111; 114; 44; 32; 97; 110; 32; 105; 100; 101; 110; 116; 105; 102; 105; 101; 114; 32; 40; 119; 105; 114; 101; 32; 110; 97; 109; 101; 41; 44; 32; 111; 114; 32; 97; 110; 32; 105; 110; 116; 101; 103; 101; 114; 32; 99; 111; 110; 115; 116; 97; 110; 116; 58; 10; 32; 32; 32; 32; 32; 45; 62; 32; 105; 110; 112; 117; 116; 46; 104; 99; 108; 58; 51; 10; 32; 32; 32; 32; 32; 124; 10; 32; 32; 32; 51; 32; 124; 32; 119; 105; 114; 101; 32; 122; 113; 58; 56; 59; 32; 122; 113; 32; 61; 32; 49; 32; 43; 10; 32; 32; 32; 32; 32; 124; 32; 32; 32; 32; 32; 32; 32; 32; 32; 32; 32; 32; 32; 32; 32; 32; 32; 32; 32; 32; 10].
Example ex_end_of_file_render :
  render_all test_uclass (real_file ex_end_of_file_user) ex_end_of_file_errors = Some ex_end_of_file_text.
Proof. vm_compute. reflexivity. Qed.

(* InvalidRegisterBankName: a four-line message.  User text:
     pc = 0;
     Stat = STAT_AOK;
     register x中 { a:8=0; }
   Text written:
     error: Register bank name 'x中' invalid.
            Register bank names must be two characters.
            The first character (input prefix) must be a lowercase letter.
            The second character (output prefix) must be an uppercase lettter.
          -> input.hcl:3
          |
        3 | register x中 { a:8=0; }
          |          ^^^^
*)
Definition ex_bank_name_user : list N := [112; 99; 32; 61; 32; 48; 59; 10; 83; 116; 97; 116; 32; 61; 32; 83; 84; 65; 84; 95; 65; 79; 75; 59; 10; 114; 101; 103; 105; 115; 116; 101; 114; 32; 120; 228; 184; 173; 32; 123; 32; 97; 58; 56; 61; 48; 59; 32; 125; 10].
Definition ex_bank_name_errors : list rerror :=
  [(RInvalidRegisterBankName (string_of_bytes [120; 228; 184; 173]) (1061, 1065)%nat)].
Definition ex_bank_name_text : string := string_of_bytes [101; 114; 114; 111; 114; 58; 32; 82; 101; 103; 105; 115; 116; 101; 114; 32; 98; 97; 110; 107; 32; 110; 97; 109; 101; 32; 39; 120; 228; 184; 173; 39; 32; 105; 110; 118; 97; 108; 105; 100; 46; 10; 32; 32; 32; 32; 32; 32; 32; 82; 101; 103; 105; 115; 116; 101; 114; 32; 98; 97; 110; 107; 32; 110; 97; 109; 101; 115; 32; 109; 117; 115; 116; 32; 98; 101; 32; 116; 119; 111; 32; 99; 104; 97; 114; 97; 99; 116; 101; 114; 115; 46; 10; 32; 32; 32; 32; 32; 32; 32; 84; 104; 101; 32; 102; 105; 114; 115; 116; 32; 99; 104; 97; 114; 97; 99; 116; 101; 114; 32; 40; 105; 110; 112; 117; 116; 32; 112; 114; 101; 102; 105; 120; 41; 32; 109; 117; 115; 116; 32; 98; 101; 32; 97; 32; 108; 111; 119; 101; 114; 99; 97; 115; 101; 32; 108; 101; 116; 116; 101; 114; 46; 10; 32; 32; 32; 32; 32; 32; 32; 84; 104; 101; 32; 115; 101; 99; 111; 110; 100; 32; 99; 104; 97; 114; 97; 99; 116; 101; 114; 32; 40; 111; 117; 116; 112; 117; 116; 32; 112; 114; 101; 102; 105; 120; 41; 32; 109; 117; 115; 116; 32; 98; 101; 32; 97; 110; 32; 117; 112; 112; 101; 114; 99; 97; 115; 101; 32; 108; 101; 116; 116; 116; 101; 114; 46; 10; 32; 32; 32; 32; 32; 45; 62; 32; 105; 110; 112; 117; 116; 46; 104; 99; 108; 58; 51; 10; 32; 32; 32; 32; 32; 124; 10; 32; 32; 32; 51; 32; 124; 32; 114; 101; 103; 105; 115; 116; 101; 114; 32; 120; 228; 184; 173; 32; 123; 32; 97; 58; 56; 61; 48; 59; 32; 125; 10; 32; 32; 32; 32; 32; 124; 32; 32; 32; 32; 32; 32; 32; 32; 32; 32; 94; 94; 94; 94; 10].
Example ex_bank_name_render :
  render_all test_uclass (real_file ex_bank_name_user) ex_bank_name_errors = Some ex_bank_name_text.
Proof. vm_compute. reflexivity. Qed.

(* ---- (a) ---- *)
Lemma wf_ex_non_ascii : wf_text ex_non_ascii_user.
Proof. apply wf_check_ok. vm_compute. reflexivity. Qed.

Example ex_render_total :
  forallb (renderable (real_file ex_missing_semicolon_user)) ex_missing_semicolon_errors = true /\
  forallb (renderable (real_file ex_mux_widths_user)) ex_mux_widths_errors = true /\
  exists text, render_all test_uclass (real_file ex_non_ascii_user) ex_non_ascii_errors = Some text.
Proof.
  split; [vm_compute; reflexivity |]. split; [vm_compute; reflexivity |].
  apply render_all_total_holds; [exact wf_preamble | exact wf_ex_non_ascii | vm_compute; reflexivity].
Qed.

(* the three side conditions, each failing alone: the renderer (and the Rust code) would panic *)
Example ex_not_renderable :
  let fc := real_file ex_non_ascii_user in
  (* a slice ending inside the two-byte character at 1068 *)
  renderable fc (RExtraToken (1068, 1069)%nat) = false /\
  render_one test_uclass fc (RExtraToken (1068, 1069)%nat) = None /\
  (* ";" expected and the location starts inside that character *)
  renderable fc (RUnrecognizedToken (1069, 1070)%nat [quoted ";"]) = false /\
  render_one test_uclass fc (RUnrecognizedToken (1069, 1070)%nat [quoted ";"]) = None /\
  (* ... which is harmless when ";" is not expected (str::get) *)
  renderable fc (RUnrecognizedToken (1069, 1070)%nat [quoted ","]) = true /\
  (* an expected string that is empty, or begins with a two-byte character *)
  renderable fc (RUnrecognizedToken (1068, 1070)%nat [""]) = false /\
  renderable fc (RUnrecognizedToken (1068, 1070)%nat [string_of_bytes [195; 169]]) = false /\
  (* fewer widths than options *)
  renderable fc (RMismatchedMuxWidths [(1068, 1070)%nat] []) = false.
Proof. vm_compute. repeat split. Qed.

Example ex_token_offsets :
  let text := [233; 95; 120; 32; 61; 32; 0x3b1; 59] in            (* e-acute _ x = alpha ; *)
  forall t, In t (fst (lex test_uclass (utf8 text))) ->
    on_boundary (utf8 text) (tstart t) = true /\ on_boundary (utf8 text) (tend t) = true.
Proof.
  intros text t Ht.
  assert (Hsc : Forall scalar text) by (repeat constructor).
  destruct (lex test_uclass (utf8 text)) as [toks err] eqn:Hlex.
  destruct (token_offsets_on_boundaries_holds test_uclass text toks err Hsc Hlex t Ht) as (_ & A & B).
  split; assumption.
Qed.

(* ---- (b) ---- *)
Example ex_starts_with_error :
  starts_with "error: " ex_mux_widths_text /\ ends_with nl ex_mux_widths_text.
Proof.
  assert (H : render_one test_uclass (real_file ex_mux_widths_user) (hd RIoError ex_mux_widths_errors) = Some ex_mux_widths_text)
    by (vm_compute; reflexivity).
  destruct (render_starts_with_error_holds _ _ _ _ H) as (A & B & _). split; assumption.
Qed.

(* ---- (c) ---- *)
Example ex_mux_regions :
  error_spans (hd RIoError ex_mux_widths_errors) = [(1096, 1099); (1080, 1084); (1134, 1138); (1123, 1128)]%nat /\
  hook_spans (hd RIoError ex_mux_widths_errors) = [(1080, 1084); (1096, 1099); (1111, 1112); (1123, 1128); (1134, 1138)]%nat.
Proof. vm_compute. split; reflexivity. Qed.

(* the second error of ex_non_ascii: its span lies in the user's text on line 3; the region is the
   one-line region of RegionSpec *)
Example ex_regions_located :
  let e := RUndeclaredWireRead (string_of_bytes [195; 169; 95; 114]) (1068, 1072)%nat None in
  exists text ps,
    render_one test_uclass (real_file ex_non_ascii_user) e = Some text /\
    render_parts test_uclass (real_file ex_non_ascii_user) e = Some ps /\
    regions_of ps = [(1068, 1072)%nat] /\
    assembled (user_region preamble_bytes ex_non_ascii_user input_hcl) ps text.
Proof.
  intros e.
  destruct (render_total_holds test_uclass preamble_bytes ex_non_ascii_user input_hcl e wf_preamble wf_ex_non_ascii eq_refl)
    as (text & Ht).
  destruct (render_regions_located_holds test_uclass preamble_bytes ex_non_ascii_user input_hcl e text
              wf_preamble wf_ex_non_ascii Ht) as (ps & Hp & Hr & Ha).
  { intros sp Hsp. cbn in Hsp. destruct Hsp as [<- | []]. exists 41%nat, 45%nat. repeat split;
      first [vm_compute; reflexivity | vm_compute; lia | vm_compute; discriminate]. }
  exists text, ps. repeat split; assumption.
Qed.

(* ---- (d) ---- *)
Example ex_no_internal_error_text :
  forall ps m, render_parts test_uclass (real_file ex_wire_loop_user) (hd RIoError ex_wire_loop_errors) = Some ps ->
    In (Msg m) ps -> ~ contains "Internal parser error" m /\ ~ contains "parser bug" m.
Proof.
  intros ps m Hp Hm.
  set (fc := real_file ex_wire_loop_user) in *. set (e := hd RIoError ex_wire_loop_errors) in *.
  assert (Hs : forall w, In w internal_error_words ->
                 forall s, In s (strings_of e ++ token_text_of fc e)%list -> ~ contains w s).
  { intros w Hw s Hs. destruct (words_cases w Hw) as [-> | ->]; cbn in Hs;
      repeat (destruct Hs as [<- | Hs]; [closed_no_word |]); destruct Hs. }
  split.
  - exact (no_internal_error_text_holds test_uclass fc e ps "Internal parser error" (or_introl eq_refl)
             (fun x => x) Hp (Hs _ (or_introl eq_refl)) m Hm).
  - exact (no_internal_error_text_holds test_uclass fc e ps "parser bug" (or_intror (or_introl eq_refl))
             (fun x => x) Hp (Hs _ (or_intror (or_introl eq_refl))) m Hm).
Qed.

(* ---- (e) ---- *)
Example ex_names_the_wire :
  contains (string_of_bytes [39; 195; 169; 39]) ex_wire_loop_text /\                 (* 'e-acute' *)
  contains (string_of_bytes [39; 206; 177; 206; 178; 39]) ex_wire_loop_text.         (* 'alpha beta' *)
Proof.
  assert (H : render_one test_uclass (real_file ex_wire_loop_user) (hd RIoError ex_wire_loop_errors) = Some ex_wire_loop_text)
    by (vm_compute; reflexivity).
  split.
  - apply (names_the_wire_holds _ _ _ _ (string_of_bytes [195; 169]) H); [vm_compute; tauto | reflexivity].
  - apply (names_the_wire_holds _ _ _ _ (string_of_bytes [206; 177; 206; 178]) H); [vm_compute; tauto | reflexivity].
Qed.

(* ---- (f) ---- *)
(* the expected list of ex_end_of_file: the three unary operators collapse; "(" ID CONSTANT "[" do not *)
Example ex_format_token_list :
  format_token_list [quoted "!"; quoted "("; quoted "-"; quoted "["; quoted "~"; "CONSTANT"; "ID"] =
  Some "'(', '[', a unary operator, an identifier (wire name), or an integer constant" /\
  format_token_list [quoted "!"; quoted "("; quoted "-"] = Some "'!', '(', or '-'" /\
  format_token_list [quoted ";"; quoted ";"] = Some "';'" /\
  format_token_list [quoted ")"; quoted ","] = Some "')' or ','" /\
  format_token_list [] = Some "" /\
  format_token_list (map quoted all_compare_operators ++ map quoted all_bin_operators)%list =
  Some "a binary operator or a comparison operator" /\
  format_token_list [dquote] = None.
Proof. vm_compute. repeat split. Qed.
