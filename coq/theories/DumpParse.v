(* C16, last sentence: "Every line is delimited in the same way, so the dump can be read back
   into exactly that state."

   A READER of the state dump, written the way a user's script would do it: split the text into
   lines, check the '| ' ... ' |' delimiters, split fields at blanks / '=' / '(' / '_', convert
   the hexadecimal fields with [unhex].  Definitions only, all executable; the reader does not
   mention the printer (the dump functions of Machine.v).  The statements proved about it are at the end
   (stmt_...); the proofs are in DumpParseProofs.v. *)
From HclV Require Import Base Expr Disasm DisasmProofs Machine MemSpec.
From Coq Require Import Sorted.
Open Scope string_scope.
Open Scope N_scope.

(* ================================================================================== *)
(* 0. text helpers (the only place where strings are taken apart)                     *)
(* ================================================================================== *)
Definition is_char (n : N) (c : ascii) : bool := N_of_ascii c =? n.
Definition is_newline : ascii -> bool := is_char 10.
Definition is_space : ascii -> bool := is_char 32.
Definition is_equals : ascii -> bool := is_char 61.     (* '=' *)
Definition is_lparen : ascii -> bool := is_char 40.     (* '(' *)
Definition is_hexdigit (c : ascii) : bool := match hexval c with Some _ => true | None => false end.

(* every character of s satisfies p *)
Fixpoint sall (p : ascii -> bool) (s : string) : bool :=
  match s with
  | EmptyString => true
  | String c r => p c && sall p r
  end.

(* [strip_prefix p s]: s without its prefix p, if it has that prefix *)
Fixpoint strip_prefix (p s : string) : option string :=
  match p with
  | EmptyString => Some s
  | String a p' =>
      match s with
      | EmptyString => None
      | String b s' => if Ascii.eqb a b then strip_prefix p' s' else None
      end
  end.

(* [strip_suffix suf s]: s without its suffix suf, if it has that suffix *)
Fixpoint strip_suffix (suf s : string) : option string :=
  if String.eqb s suf then Some EmptyString
  else match s with
       | EmptyString => None
       | String c r => option_map (String c) (strip_suffix suf r)
       end.

(* the longest prefix of characters satisfying p, and what follows it *)
Fixpoint span (p : ascii -> bool) (s : string) : string * string :=
  match s with
  | EmptyString => (EmptyString, EmptyString)
  | String c r => if p c then let '(a, b) := span p r in (String c a, b) else (EmptyString, s)
  end.

(* the fields of s separated by the characters satisfying p: first field, other fields *)
Fixpoint fields (p : ascii -> bool) (s : string) : string * list string :=
  match s with
  | EmptyString => (EmptyString, [])
  | String c r => let '(f, fs) := fields p r in
                  if p c then (EmptyString, f :: fs) else (String c f, fs)
  end.
Definition split_on (p : ascii -> bool) (s : string) : list string :=
  let '(f, fs) := fields p s in f :: fs.

(* the lines of a text in which every line is terminated by a newline *)
Fixpoint but_last_empty (l : list string) : option (list string) :=
  match l with
  | [] => None
  | x :: r => match r with
              | [] => if String.eqb x EmptyString then Some [] else None
              | _ :: _ => option_map (cons x) (but_last_empty r)
              end
  end.
Definition lines (s : string) : option (list string) := but_last_empty (split_on is_newline s).

(* blank-separated words *)
Definition words (s : string) : list string :=
  filter (fun w => negb (String.eqb w EmptyString)) (split_on is_space s).

Fixpoint map_opt {A B : Type} (f : A -> option B) (l : list A) : option (list B) :=
  match l with
  | [] => Some []
  | x :: r => match f x, map_opt f r with
              | Some y, Some ys => Some (y :: ys)
              | _, _ => None
              end
  end.

(* every line of the dump is '| ' body ' |' *)
Definition strip_delims (line : string) : option string :=
  match strip_prefix "| " line with
  | None => None
  | Some r => strip_suffix " |" r
  end.

(* ================================================================================== *)
(* 1. the memory section                                                              *)
(* ================================================================================== *)
Definition memory_header_line : string :=
  "| used memory:   _0 _1 _2 _3  _4 _5 _6 _7   _8 _9 _a _b  _c _d _e _f    |".

(* the extra blanks after columns 3, 7 and 11 *)
Definition col_gap (i : N) : string :=
  if (i =? 3) || (i =? 11) then " " else if i =? 7 then "  " else "".

(* [n] cells from column [i] on, then the end of the row.  A cell is a blank and two more
   characters: two blanks (no byte at this address) or two hexadecimal digits. *)
Fixpoint parse_cells (n : nat) (row i : N) (s : string) : option (list (N * N)) :=
  match n with
  | O => if String.eqb s "    |" then Some [] else None
  | S n' =>
      match s with
      | String c0 (String c1 (String c2 r)) =>
          if is_space c0 then
            match strip_prefix (col_gap i) r with
            | None => None
            | Some r' =>
                match parse_cells n' row (i + 1) r' with
                | None => None
                | Some rest =>
                    if is_space c1 && is_space c2 then Some rest
                    else match unhex (String c1 (String c2 EmptyString)) with
                         | Some v => Some ((row + i, v) :: rest)
                         | None => None
                         end
                end
            end
          else None
      | _ => None
      end
  end.

(* one row: '|  0x' label '_:  ' 16 cells '    |'; the label is the row address without its
   last hexadecimal digit *)
Definition parse_row (line : string) : option (list (N * N)) :=
  match strip_prefix "|  0x" line with
  | None => None
  | Some r1 =>
      let '(label, r2) := span is_hexdigit r1 in
      match unhex label, strip_prefix "_:  " r2 with
      | Some hi, Some r3 => parse_cells 16 (16 * hi) 0 r3
      | _, _ => None
      end
  end.

Fixpoint parse_rows (ls : list string) : option memory :=
  match ls with
  | [] => Some []
  | l :: r => match parse_row l, parse_rows r with
              | Some a, Some b => Some (a ++ b)%list
              | _, _ => None
              end
  end.

(* what is read must be a memory state: addresses strictly ascending and below 2^64
   (a byte read from two hexadecimal digits is below 256 anyway) *)
Fixpoint ascending (m : memory) : bool :=
  match m with
  | [] => true
  | (k1, _) :: r => match r with
                    | [] => true
                    | (k2, _) :: _ => (k1 <? k2) && ascending r
                    end
  end.
Definition memory_ok (m : memory) : bool := ascending m && forallb (fun kv => fst kv <? two64) m.

Definition parse_memory_section (s : string) : option memory :=
  match lines s with
  | Some (h :: rows) =>
      if String.eqb h memory_header_line then
        match parse_rows rows with
        | Some m => if memory_ok m then Some m else None
        | None => None
        end
      else None
  | _ => None
  end.

(* ================================================================================== *)
(* 2. the fifteen program registers                                                   *)
(* ================================================================================== *)
Definition skip_spaces (s : string) : string := snd (span is_space s).

(* 'NAME: ' blanks hexadecimal-digits; returns the value and the unread text *)
Definition parse_reg_field (label s : string) : option (N * string) :=
  match strip_prefix label s with
  | None => None
  | Some r =>
      let '(digits, rest) := span is_hexdigit (skip_spaces r) in
      match unhex digits with
      | Some v => Some (v, rest)
      | None => None
      end
  end.

(* '| ' field '   ' field '   ' field ' |' *)
Definition parse_reg_line (names : string * string * string) (line : string) : option (list N) :=
  let '(n1, n2, n3) := names in
  match strip_prefix "| " line with
  | None => None
  | Some r0 =>
  match parse_reg_field n1 r0 with
  | None => None
  | Some (v1, r1) =>
  match strip_prefix "   " r1 with
  | None => None
  | Some r1' =>
  match parse_reg_field n2 r1' with
  | None => None
  | Some (v2, r2) =>
  match strip_prefix "   " r2 with
  | None => None
  | Some r2' =>
  match parse_reg_field n3 r2' with
  | None => None
  | Some (v3, r3) => if String.eqb r3 " |" then Some [v1; v2; v3] else None
  end end end end end end.

Definition register_names : list (string * string * string) :=
  [("RAX: ", "RCX: ", "RDX: "); ("RBX: ", "RSP: ", "RBP: "); ("RSI: ", "RDI: ", "R8:  ");
   ("R9:  ", "R10: ", "R11: "); ("R12: ", "R13: ", "R14: ")].

Fixpoint parse_reg_lines (names : list (string * string * string)) (ls : list string)
  : option (list N) :=
  match names, ls with
  | [], [] => Some []
  | n :: nr, l :: lr => match parse_reg_line n l, parse_reg_lines nr lr with
                        | Some a, Some b => Some (a ++ b)%list
                        | _, _ => None
                        end
  | _, _ => None
  end.

Definition parse_registers_section (s : string) : option (list N) :=
  match lines s with
  | Some ls => parse_reg_lines register_names ls
  | None => None
  end.

(* ================================================================================== *)
(* 3. one register bank                                                               *)
(* ================================================================================== *)
(* the bank may be wrapped over several lines: take the delimiters off every line and join
   what is between them *)
Definition unwrap (text : string) : option string :=
  match lines text with
  | None => None
  | Some ls => option_map concat_strings (map_opt strip_delims ls)
  end.

(* 'name=hexdigits' *)
Definition parse_item (w : string) : option (string * N) :=
  match fields is_equals w with
  | (name, [digits]) => match unhex digits with
                        | Some v => Some (name, v)
                        | None => None
                        end
  | _ => None
  end.

(* the words after '{': items, then the closing '}' *)
Fixpoint parse_items (ws : list string) : option (list (string * N)) :=
  match ws with
  | [] => None
  | w :: r => match r with
              | [] => if String.eqb w "}" then Some [] else None
              | _ :: _ => match parse_item w, parse_items r with
                          | Some x, Some y => Some (x :: y)
                          | _, _ => None
                          end
              end
  end.

Definition is_state_letter (c : ascii) : bool :=
  is_char 78 c || is_char 83 c || is_char 66 c.          (* 'N' 'S' 'B' *)

(* 'register ' label '(' state-letter ') {' items ' }': (label, state letter, registers) *)
Definition parse_bank_body (body : string) : option (string * string * list (string * N)) :=
  match strip_prefix "register " body with
  | None => None
  | Some r1 =>
      let '(label, r2) := span (fun c => negb (is_lparen c)) r1 in
      match r2 with
      | String _ (String st r3) =>
          match strip_prefix ") {" r3 with
          | None => None
          | Some r4 =>
              if is_state_letter st then
                match parse_items (words r4) with
                | Some regs => Some (label, String st EmptyString, regs)
                | None => None
                end
              else None
          end
      | _ => None
      end
  end.

Definition parse_bank (text : string) : option (string * string * list (string * N)) :=
  match unwrap text with
  | None => None
  | Some body => parse_bank_body body
  end.

(* the same for a bank already split into its lines *)
Definition parse_bank_lines (ls : list string) : option (string * string * list (string * N)) :=
  match option_map concat_strings (map_opt strip_delims ls) with
  | None => None
  | Some body => parse_bank_body body
  end.

(* ================================================================================== *)
(* 4. the whole state dump                                                            *)
(* ================================================================================== *)
Definition starts_with (p s : string) : bool :=
  match strip_prefix p s with Some _ => true | None => false end.

(* the elements before the first one satisfying f, and the rest (starting with that one) *)
Fixpoint break_at {A : Type} (f : A -> bool) (l : list A) : list A * list A :=
  match l with
  | [] => ([], [])
  | x :: r => if f x then ([], l) else let '(a, b) := break_at f r in (x :: a, b)
  end.

(* the lines of the register banks: a line starting '| register ' opens a bank, the lines up
   to the next such line continue it.  Returns (lines before the first bank, banks). *)
Fixpoint group_banks (ls : list string) : list string * list (list string) :=
  match ls with
  | [] => ([], [])
  | l :: r => let '(pending, groups) := group_banks r in
              if starts_with "| register " l then ([], (l :: pending) :: groups)
              else (l :: pending, groups)
  end.

(* '+--- title ---+' / five register lines / bank lines / memory section / '+---...---+' / trailer;
   returns (registers, banks, memory) *)
Definition parse_dump (text : string)
  : option (list N * list (string * string * list (string * N)) * memory) :=
  match lines text with
  | Some (top :: l1 :: l2 :: l3 :: l4 :: l5 :: rest) =>
      if starts_with "+" top then
        match parse_reg_lines register_names [l1; l2; l3; l4; l5] with
        | None => None
        | Some regs =>
            let '(bank_lines, rest2) := break_at (String.eqb memory_header_line) rest in
            match rest2 with
            | [] => None
            | _ :: rest3 =>
                let '(rows, rest4) := break_at (starts_with "+") rest3 in
                match rest4 with
                | [] => None
                | _ :: _ =>
                    match group_banks bank_lines with
                    | ([], groups) =>
                        match map_opt parse_bank_lines groups, parse_rows rows with
                        | Some banks, Some m =>
                            if memory_ok m then Some (regs, banks, m) else None
                        | _, _ => None
                        end
                    | _ => None
                    end
                end
            end
        end
      else None
  | _ => None
  end.
