From Coq Require Import List NArith String Ascii Lia ZifyBool ZifyNat ZifyN Bool.
From HclV Require Import Base Expr ExprSpec Machine MachineSpec MachineProofs MemSpec MemProofs
     SchedSpec SchedProofs Build BuildSpec Generated BuildProofs HistorySpec.
Open Scope string_scope.
Open Scope list_scope.
Open Scope N_scope.

(* ================================================================================== *)
(* Part A: the table, the port tests, runs                                             *)
(* ================================================================================== *)
Theorem table_is_generated_holds : stmt_table_is_generated.
Proof. repeat split; vm_compute; reflexivity. Qed.

Lemma subseq_nil_inv {A} (E : list A) : subseq E [] -> E = [].
Proof. intros H. inversion H. reflexivity. Qed.

Lemma subseq_cons_inv {A} (E : list A) x l :
  subseq E (x :: l) -> subseq E l \/ exists E', E = x :: E' /\ subseq E' l.
Proof.
  intros H. inversion H as [l0 | x0 a b Hab | x0 a b Hab]; subst.
  - left. constructor.
  - right. exists a. split; [reflexivity | exact Hab].
  - left. exact Hab.
Qed.

Definition is_status (a : action) : bool := match a with ASetStatus _ => true | _ => false end.
Definition is_mem_write (a : action) : bool := match a with AWriteMemory _ _ _ _ => true | _ => false end.
Definition is_reg_write (dst : string) (a : action) : bool :=
  match a with AWriteReg d _ => String.eqb d dst | _ => false end.

Definition opt1 (h : bool) (a : action) : list action := if h then [a] else [].

Lemma effects_enumerated (E : list action) :
  subseq E table_effects ->
  E = opt1 (existsb is_status E) port_status ++ opt1 (existsb is_mem_write E) port_mem_write ++
      opt1 (existsb (is_reg_write "reg_dstE") E) port_writeE ++
      opt1 (existsb (is_reg_write "reg_dstM") E) port_writeM.
Proof.
  intros H. unfold table_effects in H.
  repeat (apply subseq_cons_inv in H; destruct H as [H | (? & -> & H)]);
    apply subseq_nil_inv in H; subst; reflexivity.
Qed.

Lemma existsb_effect_part (test : action -> bool) (l : list action) :
  (forall a, test a = true -> is_effect a = true) ->
  existsb test (effect_part l) = existsb test l.
Proof.
  intros Ht. unfold effect_part. induction l as [|a r IH]; [reflexivity|].
  cbn [filter existsb]. destruct (is_effect a) eqn:Ea.
  - cbn [existsb]. rewrite IH. reflexivity.
  - rewrite IH. destruct (test a) eqn:Eta; [|reflexivity].
    apply Ht in Eta. rewrite Eta in Ea. discriminate Ea.
Qed.

Lemma effects_shape p :
  subseq (effect_part (p_actions p)) table_effects ->
  effect_part (p_actions p) =
    opt1 (existsb is_status (p_actions p)) port_status ++ opt1 (has_mem_write p) port_mem_write ++
    opt1 (has_reg_write "reg_dstE" p) port_writeE ++ opt1 (has_reg_write "reg_dstM" p) port_writeM.
Proof.
  intros H. pose proof (effects_enumerated _ H) as HE.
  rewrite !existsb_effect_part in HE.
  - exact HE.
  - intros [] Ha; try discriminate Ha; reflexivity.
  - intros [] Ha; try discriminate Ha; reflexivity.
  - intros [] Ha; try discriminate Ha; reflexivity.
  - intros [] Ha; try discriminate Ha; reflexivity.
Qed.

Lemma in_effect_part a l : In a (effect_part l) <-> In a l /\ is_effect a = true.
Proof. unfold effect_part. apply filter_In. Qed.

Theorem port_tests_hold : stmt_port_tests.
Proof.
  intros p [Hsub _]. pose proof (effects_shape p Hsub) as HE.
  assert (Hin : forall a, is_effect a = true ->
                  (In a (p_actions p) <-> In a (effect_part (p_actions p)))).
  { intros a Ha. rewrite in_effect_part. tauto. }
  split; [|split].
  - rewrite (Hin port_mem_write eq_refl), HE.
    destruct (has_mem_write p); destruct (existsb is_status (p_actions p));
      destruct (has_reg_write "reg_dstE" p); destruct (has_reg_write "reg_dstM" p);
      cbn [opt1 app In]; unfold port_status, port_mem_write, port_writeE, port_writeM;
      split; intros H; try reflexivity; try discriminate H; try tauto;
      repeat (destruct H as [H|H]; try discriminate H); try contradiction.
  - rewrite (Hin port_writeE eq_refl), HE.
    destruct (has_mem_write p); destruct (existsb is_status (p_actions p));
      destruct (has_reg_write "reg_dstE" p); destruct (has_reg_write "reg_dstM" p);
      cbn [opt1 app In]; unfold port_status, port_mem_write, port_writeE, port_writeM;
      split; intros H; try reflexivity; try discriminate H; try tauto;
      repeat (destruct H as [H|H]; try discriminate H); try contradiction.
  - rewrite (Hin port_writeM eq_refl), HE.
    destruct (has_mem_write p); destruct (existsb is_status (p_actions p));
      destruct (has_reg_write "reg_dstE" p); destruct (has_reg_write "reg_dstM" p);
      cbn [opt1 app In]; unfold port_status, port_mem_write, port_writeE, port_writeM;
      split; intros H; try reflexivity; try discriminate H; try tauto;
      repeat (destruct H as [H|H]; try discriminate H); try contradiction.
Qed.

(* ---- runs as chains --------------------------------------------------------------------------- *)
Fixpoint chain (R : mstate -> mstate -> Prop) (s : mstate) (l : list mstate) : Prop :=
  match l with
  | [] => True
  | s' :: r => R s s' /\ chain R s' r
  end.

Definition stepped (f : features) (o : options) (p : program) (s s' : mstate) : Prop :=
  exists t, step f o p s = Ok (s', t).

Lemma run_posts_chain f o p : forall n s sn,
  iter_step n f o p s = Ok sn ->
  chain (stepped f o p) s (run_posts n f o p s) /\
  List.length (run_posts n f o p s) = n /\
  nth_error (s :: run_posts n f o p s) n = Some sn.
Proof.
  induction n as [|k IH]; intros s sn H.
  - cbn [iter_step] in H. injection H as <-. cbn. repeat split; reflexivity.
  - cbn [iter_step] in H. cbn [run_posts].
    destruct (step f o p s) as [[s' t]|es] eqn:Es; cbn [bind fst] in H; [|discriminate H].
    destruct (IH s' sn H) as (Hc & Hl & Hn).
    split; [|split].
    + cbn [chain]. split; [exists t; exact Es | exact Hc].
    + cbn [List.length]. rewrite Hl. reflexivity.
    + cbn [nth_error]. exact Hn.
Qed.

Lemma chain_cycle (R : mstate -> mstate -> Prop) : forall l s i si si',
  chain R s l -> cycle_of (s :: l) i si si' -> R si si'.
Proof.
  induction l as [|s1 r IH]; intros s i si si' Hc [H1 H2].
  - destruct i; cbn in H2; discriminate H2.
  - destruct Hc as [HR Hc]. destruct i as [|j].
    + cbn in H1, H2. injection H1 as <-. injection H2 as <-. exact HR.
    + cbn [nth_error] in H1, H2. apply (IH s1 j si si' Hc). split; assumption.
Qed.

Lemma chain_inv (R : mstate -> mstate -> Prop) (I : mstate -> Prop) : (forall s s', I s -> R s s' -> I s') ->
  forall l s i si, I s -> chain R s l -> nth_error (s :: l) i = Some si -> I si.
Proof.
  intros Hpres. induction l as [|s1 r IH]; intros s i si Hs Hc Hn.
  - destruct i as [|j]; [cbn in Hn; injection Hn as <-; exact Hs | destruct j; discriminate Hn].
  - destruct Hc as [HR Hc]. destruct i as [|j].
    + cbn in Hn. injection Hn as <-. exact Hs.
    + cbn [nth_error] in Hn. apply (IH s1 j si (Hpres s s1 Hs HR) Hc Hn).
Qed.

Lemma chain_weaken (R R' : mstate -> mstate -> Prop) (I : mstate -> Prop) :
  (forall s s', I s -> R s s' -> I s' /\ R' s s') ->
  forall l s, I s -> chain R s l -> chain R' s l.
Proof.
  intros H. induction l as [|s1 r IH]; intros s Hs Hc; [exact Logic.I|].
  destruct Hc as [HR Hc]. destruct (H s s1 Hs HR) as [Hs1 HR'].
  split; [exact HR' | apply IH; assumption].
Qed.

(* a quantity that every cycle updates by folding the cycle's events is, after i cycles, the fold
   of all events so far *)
Lemma chain_fold {S A} (R : mstate -> mstate -> Prop) (proj : mstate -> S) (ev : mstate -> list A)
      (app : S -> A -> S) :
  (forall s s', R s s' -> proj s' = fold_left app (ev s') (proj s)) ->
  forall i l s si, chain R s l -> nth_error (s :: l) i = Some si ->
    proj si = fold_left app (flat_map ev (firstn i l)) (proj s).
Proof.
  intros Hstep. induction i as [|j IH]; intros l s si Hc Hn.
  - cbn in Hn. injection Hn as <-. reflexivity.
  - destruct l as [|s1 r]; [destruct j; discriminate Hn|].
    destruct Hc as [HR Hc]. cbn [nth_error] in Hn.
    cbn [firstn flat_map]. rewrite fold_left_app, <- (Hstep s s1 HR).
    apply (IH r s1 si Hc Hn).
Qed.

Lemma firstn_run_posts f o p : forall n i s, (i <= n)%nat ->
  (exists sn, iter_step n f o p s = Ok sn) ->
  firstn i (run_posts n f o p s) = run_posts i f o p s /\ exists si, iter_step i f o p s = Ok si.
Proof.
  induction n as [|k IH]; intros i s Hi [sn Hn].
  - assert (i = O) by lia. subst i. split; [reflexivity | exists s; reflexivity].
  - destruct i as [|j]; [split; [reflexivity | exists s; reflexivity]|].
    cbn [iter_step] in Hn. cbn [run_posts iter_step].
    destruct (step f o p s) as [[s' t]|es] eqn:Es; cbn [bind fst] in Hn |- *; [|discriminate Hn].
    destruct (IH j s' ltac:(lia) (ex_intro _ sn Hn)) as [Hf Hs].
    cbn [firstn]. rewrite Hf. split; [reflexivity | exact Hs].
Qed.

Theorem run_states_hold : stmt_run_states.
Proof.
  intros n f o p s0 sn H. unfold run_states.
  destruct (run_posts_chain f o p n s0 sn H) as (Hc & Hl & Hn).
  split; [cbn [List.length]; rewrite Hl; reflexivity|].
  split; [reflexivity|]. split; [exact Hn|]. split.
  - intros i s s' Hcy. exact (chain_cycle _ _ _ _ _ _ Hc Hcy).
  - intros i Hi. destruct (firstn_run_posts f o p n i s0 Hi (ex_intro _ sn H)) as [Hf Hs].
    cbn [firstn]. rewrite Hf. split; [reflexivity | exact Hs].
Qed.

(* ================================================================================== *)
(* Part B: one cycle of a well-typed program                                           *)
(* ================================================================================== *)
Lemma fold_apply_effect_agree V1 V2 : forall l st,
  (forall a n, In a l -> In n (reads a) -> lookup V1 n = lookup V2 n) ->
  fold_left (apply_effect V1) l st = fold_left (apply_effect V2) l st.
Proof.
  induction l as [|a r IH]; intros st H; [reflexivity|]. cbn [fold_left].
  rewrite (apply_effect_ext V1 V2 st a) by (intros n Hn; apply (H a n (or_introl eq_refl) Hn)).
  apply IH. intros a' n Ha' Hn. apply (H a' n (or_intror Ha') Hn).
Qed.

Lemma subseq_In {A} (a b : list A) x : subseq a b -> In x a -> In x b.
Proof.
  intros H. induction H as [l | y a b Hab IH | y a b Hab IH]; intros Hx.
  - destruct Hx.
  - destruct Hx as [<-|Hx]; [left; reflexivity | right; apply IH, Hx].
  - right. apply IH, Hx.
Qed.

Lemma table_names_ok :
  forallb (fun a => forallb (fun n => mem_str n table_wires) (reads a ++ opt_list (written a)))
          table_actions = true.
Proof. vm_compute. reflexivity. Qed.

Lemma table_reads a n : In a table_actions -> In n (reads a) -> In n table_wires.
Proof.
  intros Ha Hn. pose proof table_names_ok as H. rewrite forallb_forall in H. specialize (H a Ha).
  rewrite forallb_forall in H. apply SchedProofs.mem_str_In. apply H. apply in_or_app. left. exact Hn.
Qed.

Lemma table_written a w : In a table_actions -> written a = Some w -> In w table_wires.
Proof.
  intros Ha Hw. pose proof table_names_ok as H. rewrite forallb_forall in H. specialize (H a Ha).
  rewrite forallb_forall in H. apply SchedProofs.mem_str_In. apply H. apply in_or_app. right.
  rewrite Hw. left. reflexivity.
Qed.

Lemma table_effects_actions a : In a table_effects -> In a table_actions.
Proof.
  unfold table_effects, table_actions. cbn [In]. intros H.
  repeat (destruct H as [H|H]; [subst a; tauto|]). destruct H.
Qed.

(* the number a wire shows in a map of wire values *)
Definition wv (W : list (string * wval)) (k : string) : N :=
  match lookup W k with Some v => bits v | None => 0 end.

Definition MW (m : memory) (aw : N * N) : memory := mem_write m (fst aw) (snd aw) 8.

Lemma fold_opt1 {S} (g : S -> action -> S) (h : bool) (a : action) (st : S) :
  fold_left g (opt1 h a) st = if h then g st a else st.
Proof. destruct h; reflexivity. Qed.

(* the state changes of the table's effect actions, computed *)
Lemma effects_compute W (hs hm he hM : bool) m r ls :
  (hm = true -> exists wb av iv,
      lookup W "mem_writebit" = Some wb /\ lookup W "mem_addr" = Some av /\
      lookup W "mem_input" = Some iv /\ bits av < two64) ->
  (he = true -> exists nv iv,
      lookup W "reg_dstE" = Some nv /\ lookup W "reg_inputE" = Some iv /\ bits nv < two64) ->
  (hM = true -> exists nv iv,
      lookup W "reg_dstM" = Some nv /\ lookup W "reg_inputM" = Some iv /\ bits nv < two64) ->
  exists ls',
    fold_left (apply_effect W)
      (opt1 hs port_status ++ opt1 hm port_mem_write ++ opt1 he port_writeE ++ opt1 hM port_writeM)
      (m, r, ls) =
    (fold_left MW (if hm && (0 <? wv W "mem_writebit")
                   then [(wv W "mem_addr", wv W "mem_input")] else []) m,
     rf_apply r ((if he then [(wv W "reg_dstE", wv W "reg_inputE")] else []) ++
                 (if hM then [(wv W "reg_dstM", wv W "reg_inputM")] else [])),
     ls').
Proof.
  intros Hm He HM. rewrite !fold_left_app, !fold_opt1.
  assert (Hst : exists ls1, (if hs then apply_effect W (m, r, ls) port_status else (m, r, ls)) = (m, r, ls1)).
  { destruct hs; [|eauto]. cbn [apply_effect port_status]. destruct (lookup W "Stat"); eauto. }
  destruct Hst as (ls1 & ->). exists ls1.
  assert (Hmw : (if hm then apply_effect W (m, r, ls1) port_mem_write else (m, r, ls1)) =
                (fold_left MW (if hm && (0 <? wv W "mem_writebit")
                               then [(wv W "mem_addr", wv W "mem_input")] else []) m, r, ls1)).
  { destruct hm; [|reflexivity]. destruct (Hm eq_refl) as (wb & av & iv & Ewb & Eav & Eiv & Hav).
    cbn [apply_effect port_mem_write enabled andb]. rewrite (get_value_some _ _ _ Ewb). cbn [bind].
    unfold wv. rewrite Ewb, Eav, Eiv. unfold is_true.
    destruct (0 <? bits wb); [|reflexivity].
    cbn [fold_left MW fst snd]. rewrite (N.mod_small _ _ Hav). reflexivity. }
  rewrite Hmw. clear Hmw.
  set (m' := fold_left MW _ m).
  assert (HE : (if he then apply_effect W (m', r, ls1) port_writeE else (m', r, ls1)) =
               (m', rf_apply r (if he then [(wv W "reg_dstE", wv W "reg_inputE")] else []), ls1)).
  { destruct he; [|reflexivity]. destruct (He eq_refl) as (nv & iv & Env & Eiv & Hnv).
    cbn [apply_effect port_writeE]. unfold wv. rewrite Env, Eiv.
    unfold rf_apply. cbn [fold_left fst snd]. rewrite (N.mod_small _ _ Hnv). reflexivity. }
  rewrite HE. clear HE.
  unfold rf_apply. rewrite fold_left_app.
  set (r' := fold_left _ (if he then _ else _) r).
  destruct hM; [|reflexivity]. destruct (HM eq_refl) as (nv & iv & Env & Eiv & Hnv).
  cbn [apply_effect port_writeM]. unfold wv. rewrite Env, Eiv.
  cbn [fold_left fst snd]. rewrite (N.mod_small _ _ Hnv). reflexivity.
Qed.

Lemma wire_wv s k : wire s k = wv (values s) k.
Proof. reflexivity. Qed.

Section Cycle.
  Variable f : features.
  Variable o : options.
  Variable G : string -> option width.
  Variable p : program.
  Hypothesis Hp : program_ok f G p.

  Lemma cycle_facts s s' t :
    state_ok G p s -> step f o p s = Ok (s', t) ->
    state_ok G p s' /\
    exists s1 t1,
      exec_actions f o (p_actions p) s = Ok (s1, t1) /\
      process_banks (values s1) (p_banks p) = Ok (values s') /\
      mem s' = mem s1 /\ regs s' = regs s1 /\
      (forall k, ~ In k (all_outs (p_banks p)) -> lookup (values s') k = lookup (values s1) k) /\
      (forall a n, In a (p_actions p) -> In n (reads a) -> lookup (values s1) n <> None) /\
      (forall a w, In a (p_actions p) -> written a = Some w ->
         lookup (values s1) w = exec_value f (values s1) (mem s) (regs s) a) /\
      (forall k, In k (known0 p) -> lookup (values s1) k = lookup (values s) k) /\
      (mem s1, regs s1, last_status s1) =
        fold_left (apply_effect (values s1)) (effect_part (p_actions p)) (mem s, regs s, last_status s).
  Proof.
    intros Hs H.
    pose proof (step_safe_ok f o G p s Hp Hs) as Hsafe. rewrite H in Hsafe.
    split; [exact Hsafe|].
    destruct (step_inv f o p s s' t H) as (s1 & t1 & v2 & Ha & Hb & ->).
    exists s1, t1. cbn [values mem regs].
    pose proof Hp as (_ & Hvalid & Hbwf & _).
    destruct Hs as (Hstart & _).
    assert (Hk0 : forall k, In k (known0 p) -> lookup (values s) k <> None).
    { intros k Hk. unfold known0 in Hk. apply filter_In in Hk. apply Hstart. exact (proj1 Hk). }
    destruct (settles_lazy f o (known0 p) (p_actions p) s s1 t1 Hvalid Ha) as (HB & HA & HC).
    split; [exact Ha|]. split; [exact Hb|]. split; [reflexivity|]. split; [reflexivity|].
    split; [exact (proj2 (clock_edge_ok (p_banks p) (values s1) v2 Hbwf Hb))|].
    split; [exact (reads_valued f o (p_actions p) (known0 p) s s1 t1 Hvalid Ha Hk0)|].
    split; [intros a w Hin Hw; exact (proj1 (HB a w Hin Hw))|].
    split; [exact HA | exact HC].
  Qed.

  Lemma typed_bits s k v n :
    state_ok G p s -> lookup (values s) k = Some v -> G k = Some (Bits n) ->
    bits v < 2 ^ n /\ wd v = Bits n.
  Proof.
    intros (_ & HT & _) Hl HG. destruct (HT k v (Bits n) Hl HG) as (Hw & Hf & _).
    split; [|exact Hw]. rewrite Hw in Hf. exact Hf.
  Qed.

  Hypothesis Ht : uses_table p.

  Lemma table_wire_not_out k : In k table_wires -> ~ In k (all_outs (p_banks p)).
  Proof.
    destruct Ht as [_ Hb]. unfold ports_not_banked in Hb. rewrite forallb_forall in Hb.
    intros Hk Hin. specialize (Hb k Hk). apply negb_true_iff in Hb.
    apply SchedProofs.mem_str_false in Hb. contradiction.
  Qed.

  (* the wires of a scheduled component hold values at the end of the cycle, and values s' shows
     them *)
  Lemma port_wire_valued s s' t a n :
    state_ok G p s -> step f o p s = Ok (s', t) ->
    In a (p_actions p) -> In a table_actions -> In n (reads a) ->
    exists v, lookup (values s') n = Some v.
  Proof.
    intros Hs H Ha Hta Hn.
    destruct (cycle_facts s s' t Hs H) as (_ & s1 & t1 & _ & _ & _ & _ & Hsame & Hval & _).
    rewrite (Hsame n (table_wire_not_out n (table_reads a n Hta Hn))).
    apply valued_some. exact (Hval a n Ha Hn).
  Qed.

  (* C01 at the level of states: the state changes of a cycle are those of the scheduled effect
     components, all reading the wire values values s' still shows *)
  Lemma cycle_effects s s' t :
    state_ok G p s -> step f o p s = Ok (s', t) ->
    exists ls',
      (mem s', regs s', ls') =
      fold_left (apply_effect (values s')) (effect_part (p_actions p)) (mem s, regs s, last_status s).
  Proof.
    intros Hs H.
    destruct (cycle_facts s s' t Hs H) as (_ & s1 & t1 & _ & _ & Hm & Hr & Hsame & _ & _ & _ & HC).
    exists (last_status s1). rewrite Hm, Hr, HC.
    apply fold_apply_effect_agree. intros a n Ha Hn. symmetry. apply Hsame.
    apply table_wire_not_out. apply (table_reads a n); [|exact Hn].
    apply table_effects_actions. exact (subseq_In _ _ a (proj1 Ht) Ha).
  Qed.

  Lemma in_actions_of_test (test : action -> bool) (a0 : action) :
    (forall a, In a table_effects -> test a = true -> a = a0) ->
    (forall a, test a = true -> is_effect a = true) ->
    existsb test (p_actions p) = true -> In a0 (p_actions p).
  Proof.
    intros Huniq Heff Hex. apply existsb_exists in Hex. destruct Hex as (a & Ha & Hta).
    assert (Hae : In a (effect_part (p_actions p))) by (apply in_effect_part; split; [exact Ha | apply Heff, Hta]).
    rewrite <- (Huniq a (subseq_In _ _ a (proj1 Ht) Hae) Hta). exact Ha.
  Qed.

  Lemma has_mem_write_in : has_mem_write p = true -> In port_mem_write (p_actions p).
  Proof.
    apply in_actions_of_test.
    - unfold table_effects. cbn [In]. intros a Ha Hta.
      repeat (destruct Ha as [<-|Ha]; [try discriminate Hta; reflexivity|]). destruct Ha.
    - intros [] Ha; try discriminate Ha; reflexivity.
  Qed.

  Lemma has_writeE_in : has_reg_write "reg_dstE" p = true -> In port_writeE (p_actions p).
  Proof.
    apply in_actions_of_test.
    - unfold table_effects. cbn [In]. intros a Ha Hta.
      repeat (destruct Ha as [<-|Ha]; [try discriminate Hta; reflexivity|]). destruct Ha.
    - intros [] Ha; try discriminate Ha; reflexivity.
  Qed.

  Lemma has_writeM_in : has_reg_write "reg_dstM" p = true -> In port_writeM (p_actions p).
  Proof.
    apply in_actions_of_test.
    - unfold table_effects. cbn [In]. intros a Ha Hta.
      repeat (destruct Ha as [<-|Ha]; [try discriminate Hta; reflexivity|]). destruct Ha.
    - intros [] Ha; try discriminate Ha; reflexivity.
  Qed.

  Lemma action_typed_of a : In a (p_actions p) -> action_typed f G p a.
  Proof. destruct Hp as (Hact & _). apply Hact. Qed.

  (* a scheduled port wire with a declared width: its value at the end of the cycle *)
  Lemma port_wire_typed s s' t a k n :
    state_ok G p s -> step f o p s = Ok (s', t) ->
    In a (p_actions p) -> In a table_actions -> In k (reads a) -> G k = Some (Bits n) ->
    exists v, lookup (values s') k = Some v /\ bits v < 2 ^ n /\ wd v = Bits n.
  Proof.
    intros Hs H Ha Hta Hk HG.
    destruct (port_wire_valued s s' t a k Hs H Ha Hta Hk) as (v & Hv).
    exists v. split; [exact Hv|].
    destruct (cycle_facts s s' t Hs H) as (Hs' & _).
    exact (typed_bits s' k v n Hs' Hv HG).
  Qed.

  Lemma cycle_mem_regs s s' t :
    state_ok G p s -> step f o p s = Ok (s', t) ->
    mem s' = fold_left MW (mem_write_of p s') (mem s) /\
    Forall (fun aw => fst aw < two64 /\ snd aw < two64) (mem_write_of p s') /\
    regs s' = rf_apply (regs s) (reg_writes_of p s') /\
    Forall (fun dv => fst dv < 16 /\ snd dv < two64) (reg_writes_of p s').
  Proof.
    intros Hs H.
    destruct (cycle_effects s s' t Hs H) as (ls' & Hfold).
    rewrite (effects_shape p (proj1 Ht)) in Hfold.
    assert (Hm : has_mem_write p = true -> exists wb av iv,
               lookup (values s') "mem_writebit" = Some wb /\ lookup (values s') "mem_addr" = Some av /\
               lookup (values s') "mem_input" = Some iv /\ bits av < two64 /\ bits iv < two64).
    { intros Hh. pose proof (has_mem_write_in Hh) as Hin.
      destruct (action_typed_of _ Hin) as (Ga & Gi & _ & Gw).
      assert (Hta : In port_mem_write table_actions) by (unfold table_actions; cbn [In]; tauto).
      destruct (port_wire_valued s s' t port_mem_write "mem_writebit" Hs H Hin Hta) as (wb & Ewb);
        [cbn; tauto|].
      destruct (port_wire_typed s s' t port_mem_write "mem_addr" 64 Hs H Hin Hta) as (av & Eav & Hav & _);
        [cbn; tauto | exact Ga |].
      destruct (port_wire_typed s s' t port_mem_write "mem_input" 64 Hs H Hin Hta) as (iv & Eiv & Hiv & _);
        [cbn; tauto | exact Gi |].
      exists wb, av, iv. unfold two64. repeat split; assumption. }
    assert (HR : forall num inp, In (AWriteReg num inp) (p_actions p) -> In (AWriteReg num inp) table_actions ->
               exists nv iv, lookup (values s') num = Some nv /\ lookup (values s') inp = Some iv /\
                             bits nv < 16 /\ bits iv < two64).
    { intros num inp Hin Hta. destruct (action_typed_of _ Hin) as (Gn & Gi).
      destruct (port_wire_typed s s' t _ num 4 Hs H Hin Hta) as (nv & Env & Hnv & _);
        [cbn; tauto | exact Gn |].
      destruct (port_wire_typed s s' t _ inp 64 Hs H Hin Hta) as (iv & Eiv & Hiv & _);
        [cbn; tauto | exact Gi |].
      exists nv, iv. unfold two64. repeat split; try assumption. }
    assert (HE : has_reg_write "reg_dstE" p = true -> exists nv iv,
               lookup (values s') "reg_dstE" = Some nv /\ lookup (values s') "reg_inputE" = Some iv /\
               bits nv < 16 /\ bits iv < two64).
    { intros Hh. apply HR; [exact (has_writeE_in Hh) | unfold table_actions; cbn [In]; tauto]. }
    assert (HM : has_reg_write "reg_dstM" p = true -> exists nv iv,
               lookup (values s') "reg_dstM" = Some nv /\ lookup (values s') "reg_inputM" = Some iv /\
               bits nv < 16 /\ bits iv < two64).
    { intros Hh. apply HR; [exact (has_writeM_in Hh) | unfold table_actions; cbn [In]; tauto]. }
    destruct (effects_compute (values s') (existsb is_status (p_actions p)) (has_mem_write p)
                (has_reg_write "reg_dstE" p) (has_reg_write "reg_dstM" p) (mem s) (regs s) (last_status s))
      as (ls1 & Hcomp).
    { intros Hh. destruct (Hm Hh) as (wb & av & iv & E1 & E2 & E3 & H4 & _). exists wb, av, iv. tauto. }
    { intros Hh. destruct (HE Hh) as (nv & iv & E1 & E2 & H3 & _). exists nv, iv.
      repeat split; try assumption. rewrite two64_lit. lia. }
    { intros Hh. destruct (HM Hh) as (nv & iv & E1 & E2 & H3 & _). exists nv, iv.
      repeat split; try assumption. rewrite two64_lit. lia. }
    rewrite Hcomp in Hfold. injection Hfold as Hmem Hregs _.
    split; [exact Hmem|]. split; [|split; [exact Hregs|]].
    - unfold mem_write_of. rewrite !wire_wv.
      destruct (has_mem_write p) eqn:Eh; cbn [andb]; [|constructor].
      destruct (0 <? wv (values s') "mem_writebit"); [|constructor].
      destruct (Hm eq_refl) as (wb & av & iv & E1 & E2 & E3 & H4 & H5).
      constructor; [|constructor]. cbn [fst snd]. unfold wv. rewrite E2, E3. split; assumption.
    - unfold reg_writes_of. rewrite !wire_wv. apply Forall_app. split.
      + destruct (has_reg_write "reg_dstE" p) eqn:Eh; [|constructor].
        destruct (HE eq_refl) as (nv & iv & E1 & E2 & H3 & H4).
        constructor; [|constructor]. cbn [fst snd]. unfold wv. rewrite E1, E2. split; assumption.
      + destruct (has_reg_write "reg_dstM" p) eqn:Eh; [|constructor].
        destruct (HM eq_refl) as (nv & iv & E1 & E2 & H3 & H4).
        constructor; [|constructor]. cbn [fst snd]. unfold wv. rewrite E1, E2. split; assumption.
  Qed.
End Cycle.

(* ---- the read ports in one cycle ---------------------------------------------------------------- *)
Section CycleReads.
  Variable f : features.
  Variable o : options.
  Variable G : string -> option width.
  Variable p : program.
  Hypothesis Hp : program_ok f G p.
  Hypothesis Ht : uses_table p.

  (* a scheduled table component with an output: values s' shows its settled output, computed
     from the wire values values s' shows and the memory / registers at the START of the cycle *)
  Lemma cycle_pure_port s s' t a w :
    state_ok G p s -> step f o p s = Ok (s', t) ->
    In a (p_actions p) -> In a table_actions -> written a = Some w ->
    lookup (values s') w = exec_value f (values s') (mem s) (regs s) a.
  Proof.
    intros Hs H Ha Hta Hw.
    destruct (cycle_facts f o G p Hp s s' t Hs H) as (_ & s1 & t1 & _ & _ & _ & _ & Hsame & _ & Hval & _).
    rewrite (Hsame w (table_wire_not_out p Ht w (table_written a w Hta Hw))).
    rewrite (Hval a w Ha Hw). apply exec_value_ext. intros n Hn. symmetry. apply Hsame.
    apply (table_wire_not_out p Ht). exact (table_reads a n Hta Hn).
  Qed.

  Lemma cycle_mem_read s s' t :
    state_ok G p s -> step f o p s = Ok (s', t) -> In port_mem_read (p_actions p) ->
    lookup (values s') "mem_output" =
    Some (mkV (if 0 <? wire s' "mem_readbit"
               then le_bytes (byte_at (mem s)) (wire s' "mem_addr") 8 else 0) (Bits 64)).
  Proof.
    intros Hs H Hin.
    assert (Hta : In port_mem_read table_actions) by (unfold table_actions; cbn [In]; tauto).
    rewrite (cycle_pure_port s s' t port_mem_read "mem_output" Hs H Hin Hta eq_refl).
    destruct (action_typed_of f G p Hp _ Hin) as (Ga & _).
    destruct (port_wire_valued f o G p Hp Ht s s' t port_mem_read "mem_readbit" Hs H Hin Hta) as (rb & Erb);
      [cbn; tauto|].
    destruct (port_wire_typed f o G p Hp Ht s s' t port_mem_read "mem_addr" 64 Hs H Hin Hta)
      as (av & Eav & Hav & _); [cbn; tauto | exact Ga |].
    cbn [exec_value port_mem_read enabled]. rewrite (get_value_some _ _ _ Erb). cbn [bind].
    unfold wire. rewrite Erb, Eav. unfold is_true.
    destruct (0 <? bits rb); [|reflexivity].
    fold two64 in Hav. rewrite (N.mod_small _ _ Hav).
    destruct Hs as (_ & _ & _ & _ & Hwf).
    rewrite (mem_read_ok (mem s) (bits av) 8 Hwf Hav) by lia. reflexivity.
  Qed.

  Lemma cycle_instr s s' t :
    state_ok G p s -> step f o p s = Ok (s', t) -> In port_instr (p_actions p) ->
    lookup (values s') "i10bytes" =
    Some (mkV (le_bytes (byte_at (mem s)) (wire s' "pc") 10) (Bits 80)).
  Proof.
    intros Hs H Hin.
    assert (Hta : In port_instr table_actions) by (unfold table_actions; cbn [In]; tauto).
    rewrite (cycle_pure_port s s' t port_instr "i10bytes" Hs H Hin Hta eq_refl).
    destruct (action_typed_of f G p Hp _ Hin) as (Ga & _).
    destruct (port_wire_typed f o G p Hp Ht s s' t port_instr "pc" 64 Hs H Hin Hta)
      as (av & Eav & Hav & _); [cbn; tauto | exact Ga |].
    cbn [exec_value port_instr enabled]. unfold wire. rewrite Eav.
    fold two64 in Hav. rewrite (N.mod_small _ _ Hav).
    destruct Hs as (_ & _ & _ & _ & Hwf).
    rewrite (mem_read_ok (mem s) (bits av) 10 Hwf Hav) by lia. reflexivity.
  Qed.

  Lemma cycle_reg_read s s' t num outp :
    state_ok G p s -> step f o p s = Ok (s', t) ->
    In (AReadReg num outp) (p_actions p) -> In (AReadReg num outp) table_actions ->
    lookup (values s') outp = Some (mkV (rf_read (regs s) (wire s' num)) (Bits 64)).
  Proof.
    intros Hs H Hin Hta.
    rewrite (cycle_pure_port s s' t _ outp Hs H Hin Hta eq_refl).
    destruct (action_typed_of f G p Hp _ Hin) as (Gn & _).
    destruct (port_wire_typed f o G p Hp Ht s s' t _ num 4 Hs H Hin Hta)
      as (nv & Env & Hnv & _); [cbn; tauto | exact Gn |].
    cbn [exec_value]. unfold wire. rewrite Env.
    rewrite N.mod_small; [reflexivity|]. rewrite two64_lit. change (2 ^ 4) with 16 in Hnv. lia.
  Qed.
End CycleReads.

(* ================================================================================== *)
(* Part C: whole runs                                                                  *)
(* ================================================================================== *)
Lemma chain_Forall (R : mstate -> mstate -> Prop) (P : mstate -> Prop) :
  (forall s s', R s s' -> P s') -> forall l s, chain R s l -> Forall P l.
Proof.
  intros H. induction l as [|s1 r IH]; intros s Hc; [constructor|].
  destruct Hc as [HR Hc]. constructor; [exact (H s s1 HR) | exact (IH s1 Hc)].
Qed.

Lemma Forall_flat_map {A B} (P : B -> Prop) (g : A -> list B) (l : list A) :
  Forall (fun a => Forall P (g a)) l -> Forall P (flat_map g l).
Proof.
  induction 1 as [|a r Ha Hr IH]; cbn [flat_map]; [constructor|].
  apply Forall_app. split; assumption.
Qed.

Lemma Forall_firstn {A} (P : A -> Prop) (l : list A) i : Forall P l -> Forall P (firstn i l).
Proof.
  intros H. apply Forall_forall. intros x Hx. rewrite Forall_forall in H. apply H.
  rewrite <- (firstn_skipn i l). apply in_or_app. left. exact Hx.
Qed.

Lemma load_image_ok G p s img : state_ok G p s -> wf_mem img -> state_ok G p (load_image s img).
Proof.
  intros (H1 & H2 & H3 & H4 & _) Hw. unfold state_ok, load_image. cbn [values mem regs].
  split; [exact H1|]. split; [exact H2|]. split; [exact H3|]. split; [exact H4 | exact Hw].
Qed.

Section History.
  Variable f : features.
  Variable o : options.
  Variable G : string -> option width.
  Variable p : program.
  Variable img : memory.
  Variable n : nat.
  Variable states : list mstate.
  Hypothesis Hrun : run_of f o G p img n states.

  (* a cycle of a well-typed run: starts in a well-typed state and steps *)
  Definition good_cycle (s s' : mstate) : Prop := state_ok G p s /\ stepped f o p s s'.

  Lemma run_unpack :
    program_ok f G p /\ uses_table p /\ wf_mem img /\
    exists s0 posts,
      initial_state p = Ok s0 /\ states = load_image s0 img :: posts /\
      state_ok G p (load_image s0 img) /\ chain good_cycle (load_image s0 img) posts.
  Proof.
    destruct Hrun as (Hp & Ht & Hw & s0 & sn & Hi & Hit & Hst).
    split; [exact Hp|]. split; [exact Ht|]. split; [exact Hw|].
    exists s0, (run_posts n f o p (load_image s0 img)).
    split; [exact Hi|]. split; [exact Hst|].
    destruct (initial_state_safe_ok f G p Hp) as (s0' & Hi' & Hok). rewrite Hi in Hi'. injection Hi' as <-.
    pose proof (load_image_ok G p s0 img Hok Hw) as Hok0.
    split; [exact Hok0|].
    destruct (run_posts_chain f o p n _ sn Hit) as (Hc & _).
    apply (chain_weaken (stepped f o p) good_cycle (state_ok G p)); [|exact Hok0 | exact Hc].
    intros s s' Hs [t Hstep].
    destruct (cycle_facts f o G p Hp s s' t Hs Hstep) as (Hs' & _).
    split; [exact Hs' | split; [exact Hs | exists t; exact Hstep]].
  Qed.

  Theorem memory_history_run :
    (forall i si, nth_error states i = Some si ->
       wf_mem (mem si) /\
       Forall (fun aw => fst aw < two64 /\ snd aw < two64) (mem_writes p (firstn i (tl states))) /\
       forall x, x < two64 ->
         byte_at (mem si) x = byte_after img (mem_writes p (firstn i (tl states))) x) /\
    (forall i si si', cycle_of states i si si' ->
       mem si' = fold_left (fun m aw => mem_write m (fst aw) (snd aw) 8) (mem_write_of p si') (mem si) /\
       (In port_mem_read (p_actions p) ->
          lookup (values si') "mem_output" =
          Some (mkV (if 0 <? wire si' "mem_readbit"
                     then le_bytes (byte_at (mem si)) (wire si' "mem_addr") 8 else 0) (Bits 64)) /\
          le_bytes (byte_at (mem si)) (wire si' "mem_addr") 8 =
          le_bytes (byte_after img (mem_writes p (firstn i (tl states)))) (wire si' "mem_addr") 8) /\
       (In port_instr (p_actions p) ->
          lookup (values si') "i10bytes" =
          Some (mkV (le_bytes (byte_at (mem si)) (wire si' "pc") 10) (Bits 80)) /\
          le_bytes (byte_at (mem si)) (wire si' "pc") 10 =
          le_bytes (byte_after img (mem_writes p (firstn i (tl states)))) (wire si' "pc") 10)).
  Proof.
    destruct run_unpack as (Hp & Ht & Hw & s0 & posts & Hi & -> & Hok0 & Hc).
    cbn [tl].
    assert (Hcyc : forall s s', good_cycle s s' ->
              mem s' = fold_left MW (mem_write_of p s') (mem s) /\
              Forall (fun aw => fst aw < two64 /\ snd aw < two64) (mem_write_of p s')).
    { intros s s' [Hs [t Hstep]].
      destruct (cycle_mem_regs f o G p Hp Ht s s' t Hs Hstep) as (H1 & H2 & _). split; assumption. }
    assert (Hhist : forall i si, nth_error (load_image s0 img :: posts) i = Some si ->
       wf_mem (mem si) /\
       Forall (fun aw => fst aw < two64 /\ snd aw < two64) (mem_writes p (firstn i posts)) /\
       forall x, x < two64 -> byte_at (mem si) x = byte_after img (mem_writes p (firstn i posts)) x).
    { intros i si Hn.
      pose proof (chain_fold good_cycle mem (mem_write_of p) MW (fun s s' HR => proj1 (Hcyc s s' HR))
                    i posts _ si Hc Hn) as Hmem.
      cbn [load_image mem] in Hmem. fold (mem_writes p (firstn i posts)) in Hmem.
      assert (HF : Forall (fun aw => fst aw < two64 /\ snd aw < two64) (mem_writes p (firstn i posts))).
      { apply Forall_flat_map. apply Forall_firstn.
        apply (chain_Forall good_cycle _ (fun s s' HR => proj2 (Hcyc s s' HR)) posts _ Hc). }
      assert (HF1 : Forall (fun aw => fst aw < two64) (mem_writes p (firstn i posts))).
      { apply Forall_forall. intros aw Haw. rewrite Forall_forall in HF. exact (proj1 (HF aw Haw)). }
      destruct (latest_write_wins (mem_writes p (firstn i posts)) img Hw HF1) as (Hwf & Hget).
      unfold MW in Hmem. rewrite <- Hmem in Hwf, Hget.
      split; [exact Hwf|]. split; [exact HF|].
      intros x Hx. unfold byte_at, byte_after. rewrite (Hget x Hx). reflexivity. }
    split; [exact Hhist|].
    intros i si si' Hcy.
    destruct (chain_cycle good_cycle _ _ _ _ _ Hc Hcy) as [Hs [t Hstep]].
    destruct (Hhist i si (proj1 Hcy)) as (_ & _ & Hbytes).
    assert (Hle : forall a k, le_bytes (byte_at (mem si)) a k =
                              le_bytes (byte_after img (mem_writes p (firstn i posts))) a k).
    { intros a k. unfold le_bytes. apply le_sum_ext. intros j _. apply Hbytes.
      apply N.mod_lt. rewrite two64_lit. lia. }
    split; [exact (proj1 (Hcyc si si' (conj Hs (ex_intro _ t Hstep))))|]. split.
    - intros Hin. split; [exact (cycle_mem_read f o G p Hp Ht si si' t Hs Hstep Hin) | apply Hle].
    - intros Hin. split; [exact (cycle_instr f o G p Hp Ht si si' t Hs Hstep Hin) | apply Hle].
  Qed.
End History.

Theorem byte_after_unfold_holds : stmt_byte_after_unfold.
Proof.
  intros img ws a d x. split; [reflexivity|].
  unfold byte_after. rewrite fold_left_app. cbn [fold_left fst snd]. unfold awrite at 1.
  destruct (offset_of a x 8); reflexivity.
Qed.

Theorem memory_history_holds : stmt_memory_history.
Proof. intros f o G p img n states Hrun. exact (memory_history_run f o G p img n states Hrun). Qed.

(* ---- 2. the register file ---------------------------------------------------------------------- *)
Lemma rf_apply_cons rf d v ws : rf_apply rf ((d, v) :: ws) = rf_apply (rf_write rf d v) ws.
Proof. reflexivity. Qed.

Lemma rf_apply_snoc rf ws d v : rf_apply rf (ws ++ [(d, v)]) = rf_write (rf_apply rf ws) d v.
Proof. unfold rf_apply. rewrite fold_left_app. reflexivity. Qed.

Lemma rf_write_length rf d v : List.length rf = 16%nat -> List.length (rf_write rf d v) = 16%nat.
Proof. intros H. exact (proj1 (rf_laws_ok rf d v 0 H)). Qed.

Lemma rf_apply_length ws : forall rf, List.length rf = 16%nat -> List.length (rf_apply rf ws) = 16%nat.
Proof.
  induction ws as [|[d v] ws IH]; intros rf H; [exact H|].
  rewrite rf_apply_cons. apply IH. apply rf_write_length. exact H.
Qed.

Lemma rf_read_write rf d v r : List.length rf = 16%nat -> d < 16 -> v < two64 -> r < 15 ->
  rf_read (rf_write rf d v) r = if d =? r then v else rf_read rf r.
Proof.
  intros HL Hd Hv Hr. destruct (rf_laws_ok rf d v r HL) as (_ & Hsame & Hother & _).
  destruct (d =? r) eqn:E.
  - apply N.eqb_eq in E. subst d. rewrite (Hsame Hr). apply N.mod_small. exact Hv.
  - apply N.eqb_neq in E. apply Hother. intros Heq. apply E. symmetry. exact Heq.
Qed.

Lemma rf_apply_other ws : forall rf r, List.length rf = 16%nat ->
  (forall dv, In dv ws -> fst dv <> r) -> rf_read (rf_apply rf ws) r = rf_read rf r.
Proof.
  induction ws as [|[d v] ws IH]; intros rf r HL H; [reflexivity|].
  rewrite rf_apply_cons. rewrite IH.
  - destruct (rf_laws_ok rf d v r HL) as (_ & _ & Hother & _). apply Hother.
    intros Heq. apply (H (d, v) (or_introl eq_refl)). cbn [fst]. symmetry. exact Heq.
  - apply rf_write_length. exact HL.
  - intros dv Hdv. apply H. right. exact Hdv.
Qed.

Lemma rf_apply_closed ws : forall rf r, List.length rf = 16%nat ->
  Forall (fun dv => fst dv < 16 /\ snd dv < two64) ws -> r < 15 ->
  rf_read (rf_apply rf ws) r =
  fold_left (fun acc dv => if fst dv =? r then snd dv else acc) ws (rf_read rf r).
Proof.
  induction ws as [|[d v] ws IH]; intros rf r HL HF Hr; [reflexivity|].
  inversion HF as [|x l [Hd Hv] HF']; subst. cbn [fst snd] in Hd, Hv.
  rewrite rf_apply_cons. rewrite (IH (rf_write rf d v) r (rf_write_length rf d v HL) HF' Hr).
  cbn [fold_left fst snd]. rewrite (rf_read_write rf d v r HL Hd Hv Hr). reflexivity.
Qed.

Lemma rf_apply_15 ws : forall rf, List.length rf = 16%nat -> rf_read rf 15 = 0 ->
  rf_read (rf_apply rf ws) 15 = 0.
Proof.
  induction ws as [|[d v] ws IH]; intros rf HL H; [exact H|].
  rewrite rf_apply_cons. apply IH; [apply rf_write_length; exact HL|].
  exact (proj2 reg15_zero_ok rf d v HL H).
Qed.

Lemma rf_read_zeros r : rf_read (repeat 0 16) r = 0.
Proof.
  unfold rf_read. destruct (r <? N.of_nat (List.length (repeat 0 16))); [|reflexivity].
  apply nth_repeat.
Qed.

Section History2.
  Variable f : features.
  Variable o : options.
  Variable G : string -> option width.
  Variable p : program.
  Variable img : memory.
  Variable n : nat.
  Variable states : list mstate.
  Hypothesis Hrun : run_of f o G p img n states.

  Theorem regfile_history_run :
    (forall s0, nth_error states O = Some s0 -> regs s0 = repeat 0 16) /\
    (forall i si si', cycle_of states i si si' ->
       regs si' = rf_apply (regs si) (reg_writes_of p si') /\
       Forall (fun dv => fst dv < 16 /\ snd dv < two64) (reg_writes_of p si') /\
       (has_reg_write "reg_dstM" p = true -> wire si' "reg_dstM" < 15 ->
          rf_read (regs si') (wire si' "reg_dstM") = wire si' "reg_inputM") /\
       (has_reg_write "reg_dstE" p = true -> wire si' "reg_dstE" < 15 ->
          (has_reg_write "reg_dstM" p = true -> wire si' "reg_dstM" <> wire si' "reg_dstE") ->
          rf_read (regs si') (wire si' "reg_dstE") = wire si' "reg_inputE") /\
       (forall r, (forall dv, In dv (reg_writes_of p si') -> fst dv <> r) ->
          rf_read (regs si') r = rf_read (regs si) r) /\
       (In port_readA (p_actions p) ->
          lookup (values si') "reg_outputA" =
          Some (mkV (rf_read (regs si) (wire si' "reg_srcA")) (Bits 64))) /\
       (In port_readB (p_actions p) ->
          lookup (values si') "reg_outputB" =
          Some (mkV (rf_read (regs si) (wire si' "reg_srcB")) (Bits 64)))) /\
    (forall i si, nth_error states i = Some si ->
       List.length (regs si) = 16%nat /\
       forall r, rf_read (regs si) r =
                 if r <? 15 then last_written (reg_writes p (firstn i (tl states))) r else 0).
  Proof.
    destruct (run_unpack f o G p img n states Hrun) as (Hp & Ht & Hw & s0 & posts & Hi & -> & Hok0 & Hc).
    cbn [tl].
    assert (Hregs0 : regs (load_image s0 img) = repeat 0 16).
    { cbn [load_image regs]. pose proof Hp as (_ & _ & Hbwf & _).
      exact (proj1 (proj2 (proj2 (initial_state_ok p s0 Hbwf Hi)))). }
    assert (Hcyc : forall s s', good_cycle f o G p s s' ->
              regs s' = rf_apply (regs s) (reg_writes_of p s') /\
              Forall (fun dv => fst dv < 16 /\ snd dv < two64) (reg_writes_of p s')).
    { intros s s' [Hs [t Hstep]].
      destruct (cycle_mem_regs f o G p Hp Ht s s' t Hs Hstep) as (_ & _ & H1 & H2). split; assumption. }
    assert (Hlen : forall i si, nth_error (load_image s0 img :: posts) i = Some si ->
                     List.length (regs si) = 16%nat).
    { intros i si Hn.
      assert (Hsi : state_ok G p si).
      { apply (chain_inv (good_cycle f o G p) (state_ok G p)) with (l := posts) (s := load_image s0 img) (i := i);
          [|exact Hok0 | exact Hc | exact Hn].
        intros s s' Hs [_ [t Hstep]]. exact (proj1 (cycle_facts f o G p Hp s s' t Hs Hstep)). }
      exact (proj1 (proj2 (proj2 Hsi))). }
    split; [|split].
    - intros s Hn. cbn in Hn. injection Hn as <-. exact Hregs0.
    - intros i si si' Hcy.
      pose proof (chain_cycle (good_cycle f o G p) _ _ _ _ _ Hc Hcy) as HR.
      destruct (Hcyc si si' HR) as (Hregs & HF). destruct HR as [Hs [t Hstep]].
      pose proof (Hlen i si (proj1 Hcy)) as HL.
      split; [exact Hregs|]. split; [exact HF|].
      assert (HwE : has_reg_write "reg_dstE" p = true ->
                wire si' "reg_dstE" < 16 /\ wire si' "reg_inputE" < two64).
      { intros Hh. rewrite Forall_forall in HF.
        apply (HF (wire si' "reg_dstE", wire si' "reg_inputE")).
        unfold reg_writes_of. rewrite Hh. left. reflexivity. }
      assert (HwM : has_reg_write "reg_dstM" p = true ->
                wire si' "reg_dstM" < 16 /\ wire si' "reg_inputM" < two64).
      { intros Hh. rewrite Forall_forall in HF.
        apply (HF (wire si' "reg_dstM", wire si' "reg_inputM")).
        unfold reg_writes_of. rewrite Hh. apply in_or_app. right. left. reflexivity. }
      split; [|split; [|split; [|split]]].
      + intros Hh Hd. destruct (HwM Hh) as (Hd16 & Hv).
        rewrite Hregs. unfold reg_writes_of. rewrite Hh. rewrite rf_apply_snoc.
        rewrite rf_read_write; [rewrite N.eqb_refl; reflexivity | | exact Hd16 | exact Hv | exact Hd].
        apply rf_apply_length. exact HL.
      + intros Hh Hd Hne. destruct (HwE Hh) as (Hd16 & Hv).
        rewrite Hregs. unfold reg_writes_of. rewrite Hh.
        destruct (has_reg_write "reg_dstM" p) eqn:EM.
        * destruct (HwM eq_refl) as (HdM & HvM). rewrite rf_apply_snoc.
          rewrite rf_read_write; [| apply rf_apply_length; exact HL | exact HdM | exact HvM | exact Hd].
          destruct (wire si' "reg_dstM" =? wire si' "reg_dstE") eqn:Eq;
            [apply N.eqb_eq in Eq; elim (Hne eq_refl Eq)|].
          unfold rf_apply. cbn [fold_left fst snd].
          rewrite rf_read_write; [rewrite N.eqb_refl; reflexivity | exact HL | exact Hd16 | exact Hv | exact Hd].
        * rewrite app_nil_r. unfold rf_apply. cbn [fold_left fst snd].
          rewrite rf_read_write; [rewrite N.eqb_refl; reflexivity | exact HL | exact Hd16 | exact Hv | exact Hd].
      + intros r Hr. rewrite Hregs. apply rf_apply_other; [exact HL | exact Hr].
      + intros Hin. apply (cycle_reg_read f o G p Hp Ht si si' t "reg_srcA" "reg_outputA" Hs Hstep Hin).
        unfold table_actions. cbn [In]. tauto.
      + intros Hin. apply (cycle_reg_read f o G p Hp Ht si si' t "reg_srcB" "reg_outputB" Hs Hstep Hin).
        unfold table_actions. cbn [In]. tauto.
    - intros i si Hn. split; [exact (Hlen i si Hn)|].
      pose proof (chain_fold (good_cycle f o G p) regs (reg_writes_of p)
                    (fun r dv => rf_write r (fst dv) (snd dv))
                    (fun s s' HR => proj1 (Hcyc s s' HR)) i posts _ si Hc Hn) as Hfold.
      rewrite Hregs0 in Hfold. fold (reg_writes p (firstn i posts)) in Hfold.
      fold (rf_apply (repeat 0 16) (reg_writes p (firstn i posts))) in Hfold.
      assert (HF : Forall (fun dv => fst dv < 16 /\ snd dv < two64) (reg_writes p (firstn i posts))).
      { apply Forall_flat_map. apply Forall_firstn.
        apply (chain_Forall (good_cycle f o G p) _ (fun s s' HR => proj2 (Hcyc s s' HR)) posts _ Hc). }
      intros r. rewrite Hfold.
      assert (HL0 : List.length (repeat 0 16) = 16%nat) by reflexivity.
      destruct (r <? 15) eqn:Er.
      + rewrite (rf_apply_closed _ (repeat 0 16) r HL0 HF) by lia.
        rewrite rf_read_zeros. reflexivity.
      + destruct (N.eq_dec r 15) as [->|Hne].
        * apply rf_apply_15; [exact HL0 | apply rf_read_zeros].
        * destruct (rf_laws_ok (rf_apply (repeat 0 16) (reg_writes p (firstn i posts))) 0 0 r
                      (rf_apply_length _ _ HL0)) as (_ & _ & _ & _ & H16).
          apply H16. lia.
  Qed.
End History2.

Theorem regfile_history_holds : stmt_regfile_history.
Proof. intros f o G p img n states Hrun. exact (regfile_history_run f o G p img n states Hrun). Qed.

(* ---- 3. the register banks --------------------------------------------------------------------- *)
Section History3.
  Variable f : features.
  Variable o : options.
  Variable G : string -> option width.
  Variable p : program.
  Variable img : memory.
  Variable n : nat.
  Variable states : list mstate.
  Hypothesis Hrun : run_of f o G p img n states.
  Hypothesis Hund : bank_outputs_undriven p = true.

  Lemma out_not_written a k : In a (p_actions p) -> In k (all_outs (p_banks p)) -> written a <> Some k.
  Proof.
    intros Ha Hk Hw. unfold bank_outputs_undriven in Hund. rewrite forallb_forall in Hund.
    specialize (Hund a Ha). rewrite Hw in Hund. apply negb_true_iff in Hund.
    apply SchedProofs.mem_str_false in Hund. contradiction.
  Qed.

  Theorem bank_history_run :
    forall b inw outw w, In b (p_banks p) -> In (inw, outw, w) (b_signals b) ->
      exists d,
        lookup (b_defaults b) outw = Some d /\ wd d = w /\ fits d /\
        (forall s0, nth_error states O = Some s0 -> lookup (values s0) outw = Some d) /\
        (forall i si acts1 acts2 sm t,
           nth_error states i = Some si -> p_actions p = acts1 ++ acts2 ->
           exec_actions f o acts1 si = Ok (sm, t) ->
           lookup (values sm) outw = lookup (values si) outw) /\
        (forall i si si', cycle_of states i si si' ->
           exists v,
             lookup (values si') inw = Some v /\ wd v = w /\ fits v /\
             lookup (values si') outw =
               if 0 <? wire si' (b_bubble b) then Some d
               else if 0 <? wire si' (b_stall b) then lookup (values si) outw
               else Some v).
  Proof.
    intros b inw outw w Hb Hsig.
    destruct (run_unpack f o G p img n states Hrun) as (Hp & Ht & Hw & s0 & posts & Hi & -> & Hok0 & Hc).
    pose proof Hp as (_ & _ & Hbwf & _ & _ & Hsigs & _).
    destruct (Hsigs b inw outw w Hb Hsig) as (Gi & Go & Hww & d & Ed & Hwd & Hfd).
    assert (Hout : In outw (all_outs (p_banks p)))
      by exact (in_all_outs _ b outw Hb (in_sig_outs _ _ _ _ Hsig)).
    assert (Hinw : In inw (all_ins (p_banks p)))
      by exact (in_all_ins _ b inw Hb (in_sig_ins _ _ _ _ Hsig)).
    destruct Hbwf as (_ & Hdisj & Hbw). destruct (Hbw b Hb) as (Hst_no & Hbu_no & _).
    exists d. split; [exact Ed|]. split; [exact Hwd|]. split; [exact Hfd|]. split; [|split].
    - intros s Hn. cbn in Hn. injection Hn as <-. cbn [load_image values].
      pose proof Hp as (_ & _ & Hbwf' & _).
      destruct (initial_state_ok p s0 Hbwf' Hi) as (_ & _ & _ & _ & Hdef & _).
      rewrite (Hdef b inw outw w Hb Hsig). exact Ed.
    - intros i si acts1 acts2 sm t _ Hsplit Hex.
      destruct (actions_frame_ok f o acts1 si sm t Hex) as (_ & Hfr & _). apply Hfr.
      intros a Ha. apply out_not_written; [|exact Hout]. rewrite Hsplit. apply in_or_app. left. exact Ha.
    - intros i si si' Hcy.
      destruct (chain_cycle (good_cycle f o G p) _ _ _ _ _ Hc Hcy) as [Hs [t Hstep]].
      destruct (cycle_facts f o G p Hp si si' t Hs Hstep)
        as (Hs' & s1 & t1 & _ & Hpb & _ & _ & Hsame & _ & _ & Hknown & _).
      pose proof Hp as (_ & _ & Hbwf' & _).
      destruct (proj1 (clock_edge_ok (p_banks p) (values s1) (values si') Hbwf' Hpb) b inw outw w Hb Hsig)
        as (st & bu & Est & Ebu & Eout).
      assert (Hin_no : ~ In inw (all_outs (p_banks p))) by (intros Hx; exact (Hdisj inw Hx Hinw)).
      destruct Hs' as (Hstart' & HT' & _).
      destruct (valued_some (values si') inw (Hstart' inw (start_in p b inw outw w Hb Hsig))) as (v & Ev).
      destruct (HT' inw v w Ev Gi) as (Hvw & Hvf).
      exists v. split; [exact Ev|]. split; [exact Hvw|]. split; [exact Hvf|].
      unfold wire. rewrite (Hsame _ Hbu_no), (Hsame _ Hst_no), Ebu, Est.
      rewrite Eout. unfold is_true.
      destruct (0 <? bits bu); [exact Ed|].
      destruct (0 <? bits st).
      + apply Hknown. apply known0_In. split; [exact (start_out p b inw outw w Hb Hsig)|].
        intros a Ha. apply out_not_written; assumption.
      + rewrite <- (Hsame _ Hin_no). exact Ev.
  Qed.
End History3.

Theorem bank_history_holds : stmt_bank_history.
Proof.
  intros f o G p img n states Hrun Hund. exact (bank_history_run f o G p img n states Hrun Hund).
Qed.

(* ================================================================================== *)
(* Part D: accepted programs meet the hypotheses                                       *)
(* ================================================================================== *)
Lemma built_outs_bank_like f fixed il iu stmts p :
  build_program f fixed il iu stmts = Ok p ->
  forall x, In x (all_outs (p_banks p)) -> bank_like x = true /\ ~ In x (assigned_names stmts).
Proof.
  intros Hb x Hx.
  destruct (build_ok_inv f fixed il iu stmts p Hb)
    as [He [Hca [Hcr [consts [Hrc [Hte [Hun [acts [Hacts Hp]]]]]]]]].
  rewrite Hp in Hx. cbn [p_banks] in Hx. apply sig_of_out in Hx. destruct Hx as [sg [Hsg <-]].
  destruct (T3_facts f il iu _ consts Hte) as [_ [F2 _]]. rewrite Forall_forall in F2.
  destruct (F2 sg Hsg) as [S1' [_ [_ [_ [S5 _]]]]]. split; [exact S5|].
  intros Hin. apply (S1_assigns_has fixed il iu) in Hin. rewrite Hin in S1'. discriminate S1'.
Qed.

(* who writes what in a compiled program: assignments write assigned names, components their
   output *)
Lemma built_writes f fixed il iu stmts p :
  fixed_table_ok fixed = true ->
  build_program f fixed il iu stmts = Ok p ->
  forall a m, In a (p_actions p) -> written a = Some m ->
    In m (assigned_names stmts) \/ In m (Build.fixed_out_names fixed).
Proof.
  intros Hok Hb a m Ha Hw.
  destruct (build_ok_inv f fixed il iu stmts p Hb)
    as [He [Hca [Hcr [consts [Hrc [Hte [Hun [acts [Hacts Hp]]]]]]]]].
  destruct (a2a_inv _ _ _ _ _ _ _ _ Hacts) as [g [by_out [no_out [order [sacts [Hf [Hto [Hs Hacts']]]]]]]].
  destruct (preprocess_shape _ _ _ _ _ _ _ _ _ _ Hf) as [Hby [extra [Hno [Hsub Hex]]]].
  cbn [app] in Hno. subst no_out.
  assert (Hby2 : forall n ff, lookup by_out n = Some ff ->
                   In ff fixed /\ exists w, ff_out ff = Some (n, w)).
  { intros n ff Hl. destruct (Hby n ff Hl) as [Hx|[Hx [Hy _]]]; [discriminate Hx | split; assumption]. }
  destruct (schedule_ok _ _ _ _ _ _ _ _ _ _ _ Hs) as [_ [_ [new [Hn HF]]]]. cbn [app] in Hn. subst sacts.
  rewrite Hp in Ha. cbn [p_actions] in Ha. rewrite Hacts' in Ha. apply in_app_iff in Ha.
  destruct Ha as [Ha|Ha].
  - destruct (Forall2_In_r _ _ _ _ HF Ha) as [n [_ Hem]].
    destruct (emitted_pure _ _ _ _ _ _ _ _ Hok Hby2 Hem) as [_ Hwn]. rewrite Hwn in Hw. injection Hw as <-.
    destruct Hem as [[e [w [we [Hl _]]]]|[_ [ff [Hl _]]]].
    + left. apply (S1_assigns_has fixed il iu). apply has_lookup. exists e. exact Hl.
    + right. destruct (Hby2 n ff Hl) as [Hin [w Ho]]. exact (In_fixed_out_names fixed ff n w Hin Ho).
  - apply in_map_iff in Ha. destruct Ha as [ff [<- Hff]].
    destruct (Hex ff Hff) as [Hin [Ho _]].
    destruct (fixed_fn_ok_noout ff (fixed_ok_In fixed ff Hok Hin) Ho) as [Heff _].
    rewrite (effect_written _ Heff) in Hw. discriminate Hw.
Qed.

Lemma table_wires_plain : forallb (fun k => negb (bank_like k)) table_wires = true.
Proof. vm_compute. reflexivity. Qed.

Theorem accepted_program_runs_holds : stmt_accepted_program_runs.
Proof.
  intros f il iu stmts p Hwf Hb.
  destruct table_is_generated_holds as (_ & Heffs & Hnames).
  assert (Hplain : forall k, In k table_wires -> ~ In k (all_outs (p_banks p))).
  { intros k Hk Hin. destruct (built_outs_bank_like f gen_fixed il iu stmts p Hb k Hin) as [Hbl _].
    pose proof table_wires_plain as Hpl. rewrite forallb_forall in Hpl. specialize (Hpl k Hk).
    rewrite Hbl in Hpl. discriminate Hpl. }
  split; [|split; [split|]].
  - exact (accept_program_ok_gen f il iu gen_fixed_ok gen_fixed_widths_ok stmts p Hwf Hb).
  - rewrite <- Heffs. exact (build_effects_in_table_order_ok f gen_fixed il iu gen_fixed_ok stmts p Hb).
  - unfold ports_not_banked. apply forallb_forall. intros k Hk. apply negb_true_iff.
    apply SchedProofs.mem_str_false. exact (Hplain k Hk).
  - unfold bank_outputs_undriven. apply forallb_forall. intros a Ha.
    destruct (written a) as [k|] eqn:Ew; [|reflexivity].
    apply negb_true_iff. apply SchedProofs.mem_str_false. intros Hin.
    destruct (built_writes f gen_fixed il iu stmts p gen_fixed_ok Hb a k Ha Ew) as [Hx|Hx].
    + exact (proj2 (built_outs_bank_like f gen_fixed il iu stmts p Hb k Hin) Hx).
    + apply (Hplain k); [|exact Hin]. rewrite <- Hnames, <- fixed_names_all.
      apply fixed_out_in_names. exact Hx.
Qed.

Theorem accepted_run_of_holds : stmt_accepted_run_of.
Proof.
  intros f o il iu stmts p img n s0 sn Hwf Hb Himg Hi Hit.
  destruct (accepted_program_runs_holds f il iu stmts p Hwf Hb) as ((G & Hp) & Ht & Hund).
  split; [exact Hund|]. exists G.
  split; [exact Hp|]. split; [exact Ht|]. split; [exact Himg|].
  exists s0, sn. split; [exact Hi|]. split; [exact Hit | reflexivity].
Qed.

(* ================================================================================== *)
(* Part E: non-vacuity - a concrete accepted program, run for six cycles                *)
(* ================================================================================== *)
(* a counter C_n; the data memory written in even cycles (unaligned, overlapping) and read back
   through the read port; both register write ports selecting %rbx in cycle 1 and REG_NONE later;
   a second bank Y latched in cycle 0, stalled in cycle 1, bubbled in cycle 2, stalled AND bubbled
   in cycle 3 *)
Definition ex_src : string :=
"register cC { n : 64 = 0; }
register xY { v : 64 = 7; }
c_n = C_n + 1;
x_v = C_n;
stall_Y = (C_n & 1) == 1;
bubble_Y = (C_n & 3) >= 2;
pc = C_n;
mem_addr = 0x100 + (C_n & 4);
mem_input = C_n * 0x0101010101010101;
mem_writebit = (C_n & 1) == 0;
mem_readbit = C_n != 3;
reg_srcA = 3;
reg_srcB = 15;
reg_dstE = [ C_n < 3 : 3; 1 : 15 ];
reg_inputE = C_n + 100;
reg_dstM = [ C_n == 1 : 3; C_n == 2 : 15; 1 : 4];
reg_inputM = mem_output + reg_outputA;
Stat = 1;
".

Definition ex_prog : program :=
  match build_program gen_features gen_fixed ascii_lower ascii_upper (hcl_text ex_src) with
  | Ok p => p
  | Err _ => mkProgram [] [] [] [] []
  end.
Definition ex_img : memory := [(1, 0x30); (2, 0x12); (0x100, 0xEF); (0x101, 0xBE); (0x105, 0x11)].
Definition ex_init : mstate :=
  match initial_state ex_prog with Ok s => s | Err _ => mkState [] [] [] None 0 end.
Definition ex_states : list mstate :=
  run_states 6 gen_features default_options ex_prog (load_image ex_init ex_img).

Example ex_accepted :
  build_program gen_features gen_fixed ascii_lower ascii_upper (hcl_text ex_src) = Ok ex_prog /\
  List.length (p_actions ex_prog) = 24%nat /\
  In port_mem_read (p_actions ex_prog) /\ In port_instr (p_actions ex_prog) /\
  In port_readA (p_actions ex_prog) /\ In port_readB (p_actions ex_prog) /\
  has_mem_write ex_prog = true /\ has_reg_write "reg_dstE" ex_prog = true /\
  has_reg_write "reg_dstM" ex_prog = true.
Proof.
  vm_compute. repeat split; try reflexivity; repeat (first [left; reflexivity | right]).
Qed.

Example ex_wf_stmts : Forall wf_stmt (hcl_text ex_src).
Proof.
  vm_compute.
  repeat (constructor; [repeat (constructor; try (split; [|split]); try (cbv; intros; discriminate);
                                 try exact Logic.I) |]).
  constructor.
Qed.

Example ex_img_wf : wf_mem ex_img.
Proof.
  split.
  - repeat (apply Sorted.SSorted_cons; [|repeat constructor; unfold key_lt; cbn [fst]; lia]).
    apply Sorted.SSorted_nil.
  - repeat constructor; cbn [fst snd]; rewrite ?two64_lit; lia.
Qed.

(* all hypotheses of the three histories hold for this run *)
Example ex_run :
  bank_outputs_undriven ex_prog = true /\
  exists G, run_of gen_features default_options G ex_prog ex_img 6 ex_states.
Proof.
  destruct (iter_step 6 gen_features default_options ex_prog (load_image ex_init ex_img)) as [sn|es] eqn:E;
    [|vm_compute in E; discriminate E].
  apply (accepted_run_of_holds gen_features default_options ascii_lower ascii_upper (hcl_text ex_src)
           ex_prog ex_img 6%nat ex_init sn ex_wf_stmts (proj1 ex_accepted) ex_img_wf); [|exact E].
  vm_compute. reflexivity.
Qed.

(* ... and what the histories talk about is not trivial here: three writes, the second partly
   overwritten by the third; a read that sees the image (cycle 0), reads that see earlier writes
   but not the write of their own cycle (cycles 2, 4), a disabled read (cycle 3); the M port
   winning over the E port on %rbx in cycle 1 (100, not 101), REG_NONE selected by either port;
   bank Y latched, stalled, bubbled, stalled and bubbled *)
Example ex_observed :
  mem_writes ex_prog (tl ex_states) =
    [(0x100, 0); (0x100, 0x0202020202020202); (0x104, 0x0404040404040404)] /\
  map (fun s => wire s "mem_output") (tl ex_states) =
    [0x11000000BEEF; 0; 0; 0; 0x02020202; 0x0404040404040404] /\
  map (fun s => wire s "i10bytes") (tl ex_states) = [0x123000; 0x1230; 0x12; 0; 0; 0] /\
  reg_writes ex_prog (tl ex_states) =
    [(3, 100); (4, 0x11000000BEEF); (3, 101); (3, 100); (3, 102); (15, 100); (15, 103); (4, 102);
     (15, 104); (4, 0x02020268); (15, 105); (4, 0x040404040404046A)] /\
  map (fun s => (nth 3 (regs s) 0, nth 4 (regs s) 0, nth 15 (regs s) 0)) ex_states =
    [(0, 0, 0); (100, 0x11000000BEEF, 0); (100, 0x11000000BEEF, 0); (102, 0x11000000BEEF, 0);
     (102, 102, 0); (102, 0x02020268, 0); (102, 0x040404040404046A, 0)] /\
  map (fun s => wire s "reg_outputA") (tl ex_states) = [0; 100; 100; 102; 102; 102] /\
  map (fun s => (wire s "Y_v", wire s "stall_Y", wire s "bubble_Y")) ex_states =
    [(7, 0, 0); (0, 0, 0); (0, 1, 0); (7, 0, 1); (7, 1, 1); (4, 0, 0); (4, 1, 0)].
Proof. vm_compute. repeat split; reflexivity. Qed.

(* the final memory of the example, byte by byte, is the image with the three writes applied *)
Example ex_final_memory :
  forall sn, nth_error ex_states 6 = Some sn ->
    forall x, x < two64 -> byte_at (mem sn) x = byte_after ex_img (mem_writes ex_prog (tl ex_states)) x.
Proof.
  intros sn Hn x Hx. destruct ex_run as (_ & G & Hrun).
  destruct (memory_history_holds _ _ _ _ _ _ _ Hrun) as (Hmem & _).
  destruct (Hmem 6%nat sn Hn) as (_ & _ & Hb).
  replace (tl ex_states) with (firstn 6 (tl ex_states)) by (vm_compute; reflexivity).
  exact (Hb x Hx).
Qed.

(* ================================================================================== *)
(* Part F: the separation hypotheses are needed                                        *)
(* ================================================================================== *)
Definition cexA_bank : bank :=
  mkBank "xY" [("x_v", "Y_v", Bits 8)] [("Y_v", mkV 7 (Bits 8))] "stall_Y" "bubble_Y".
Definition cexA_prog : program :=
  mkProgram [] [AAssign "x_v" (EConst (mkV 1 (Bits 8))) (Bits 8);
                AAssign "Y_v" (EConst (mkV 5 (Bits 8))) (Bits 8)]
            [cexA_bank] ["stall_Y"; "bubble_Y"] [].
Definition cexA_G : string -> option width :=
  lookup [("x_v", Bits 8); ("Y_v", Bits 8); ("stall_Y", Bits 1); ("bubble_Y", Bits 1)].

Definition wf_widthb (w : width) : bool := match w with Bits n => n <=? 128 | Unl => true end.
Lemma wf_widthb_ok w : wf_widthb w = true -> wf_width w.
Proof. destruct w as [n|]; cbn [wf_widthb wf_width]; [lia | trivial]. Qed.
Lemma fitsb_ok v : (bits v <? 2 ^ bits_or_128 (wd v)) && wf_widthb (wd v) = true -> fits v.
Proof.
  intros H. apply andb_true_iff in H. destruct H as [H1 H2]. split; [lia | apply wf_widthb_ok; exact H2].
Qed.

Ltac in_cases H := repeat (destruct H as [H|H]; [try (injection H as ?; subst); try subst|]); try destruct H.

Lemma cexA_ok : program_ok gen_features cexA_G cexA_prog.
Proof.
  unfold program_ok. cbn [cexA_prog p_actions p_banks p_consts].
  split; [|split; [vm_compute; reflexivity|split; [|split; [|split; [constructor|split; [|split]]]]]].
  - intros a Ha. in_cases Ha; cbn [action_typed]; (split; [reflexivity|]);
      (split; [apply wf_widthb_ok; reflexivity|]);
      (split; [cbn [wf_expr]; apply fitsb_ok; vm_compute; reflexivity|]);
      eexists; (split; [vm_compute; reflexivity | vm_compute; discriminate]).
  - unfold banks_wf. cbn [all_outs all_ins flat_map bank_outs bank_ins cexA_bank b_signals map fst snd app
                          b_stall b_bubble b_defaults In].
    split; [repeat constructor; intros []|]. split; [intros x [<-|[]] [H|[]]; discriminate H|].
    intros b Hb. in_cases Hb. cbn [b_stall b_bubble b_defaults b_signals map fst snd In].
    repeat split; try (intros [H|[]]; discriminate H); try (repeat constructor; intros []); tauto.
  - intros n v [].
  - intros b i o w Hb Hs. in_cases Hb. cbn in Hs. in_cases Hs.
    split; [reflexivity|]. split; [reflexivity|]. split; [apply wf_widthb_ok; reflexivity|].
    eexists. split; [reflexivity|]. split; [reflexivity|]. apply fitsb_ok; vm_compute; reflexivity.
  - intros b Hb. in_cases Hb. split; reflexivity.
  - intros n [].
Qed.

Lemma wf_mem_nil : wf_mem [].
Proof. split; constructor. Qed.

Theorem bank_output_stable_draft_refuted : ~ stmt_bank_output_stable_draft.
Proof.
  intros H.
  destruct (initial_state cexA_prog) as [s0|es] eqn:Ei; [|vm_compute in Ei; discriminate Ei].
  assert (Hrun : run_of gen_features default_options cexA_G cexA_prog [] 0 [load_image s0 []]).
  { split; [exact cexA_ok|]. split; [split; [constructor | vm_compute; reflexivity]|].
    split; [exact wf_mem_nil|]. exists s0, (load_image s0 []). split; [exact Ei|]. split; reflexivity. }
  destruct (exec_actions gen_features default_options (p_actions cexA_prog) (load_image s0 []))
    as [[sm t]|es] eqn:Ex; [|vm_compute in Ei; injection Ei as <-; vm_compute in Ex; discriminate Ex].
  pose proof (H _ _ _ _ _ _ _ Hrun cexA_bank "x_v" "Y_v" (Bits 8) (or_introl eq_refl) (or_introl eq_refl)
                O (load_image s0 []) (p_actions cexA_prog) [] sm t eq_refl (eq_sym (app_nil_r _)) Ex) as Hc.
  vm_compute in Ei. injection Ei as <-. vm_compute in Ex. injection Ex as <- _.
  vm_compute in Hc. discriminate Hc.
Qed.

Definition cexB_bank : bank :=
  mkBank "zZ" [("next_addr", "mem_addr", Bits 64)] [("mem_addr", mkV 0 (Bits 64))] "stall_Z" "bubble_Z".
Definition cexB_prog : program :=
  mkProgram [] [AAssign "next_addr" (EConst (mkV 16 (Bits 64))) (Bits 64);
                AAssign "mem_input" (EConst (mkV 0xAB (Bits 64))) (Bits 64);
                AAssign "mem_writebit" (EConst (mkV 1 (Bits 1))) (Bits 1);
                port_mem_write]
            [cexB_bank] ["stall_Z"; "bubble_Z"] [].
Definition cexB_G : string -> option width :=
  lookup [("next_addr", Bits 64); ("mem_addr", Bits 64); ("mem_input", Bits 64); ("mem_writebit", Bits 1);
          ("stall_Z", Bits 1); ("bubble_Z", Bits 1)].

Lemma cexB_ok : program_ok gen_features cexB_G cexB_prog.
Proof.
  unfold program_ok. cbn [cexB_prog p_actions p_banks p_consts].
  split; [|split; [vm_compute; reflexivity|split; [|split; [|split; [constructor|split; [|split]]]]]].
  - intros a Ha. in_cases Ha; cbn [action_typed port_mem_write].
    1-3: (split; [reflexivity|]); (split; [apply wf_widthb_ok; reflexivity|]);
      (split; [cbn [wf_expr]; apply fitsb_ok; vm_compute; reflexivity|]);
      eexists; (split; [vm_compute; reflexivity | vm_compute; discriminate]).
    split; [reflexivity|]. split; [reflexivity|]. split; [lia|]. intros w Hw. injection Hw as <-. reflexivity.
  - unfold banks_wf. cbn [all_outs all_ins flat_map bank_outs bank_ins cexB_bank b_signals map fst snd app
                          b_stall b_bubble b_defaults In].
    split; [repeat constructor; intros []|]. split; [intros x [<-|[]] [H|[]]; discriminate H|].
    intros b Hb. in_cases Hb. cbn [b_stall b_bubble b_defaults b_signals map fst snd In].
    repeat split; try (intros [H|[]]; discriminate H); try (repeat constructor; intros []); tauto.
  - intros n v [].
  - intros b i o w Hb Hs. in_cases Hb. cbn in Hs. in_cases Hs.
    split; [reflexivity|]. split; [reflexivity|]. split; [apply wf_widthb_ok; reflexivity|].
    eexists. split; [reflexivity|]. split; [reflexivity|]. apply fitsb_ok; vm_compute; reflexivity.
  - intros b Hb. in_cases Hb. split; reflexivity.
  - intros n [].
Qed.

Theorem memory_history_draft_refuted : ~ stmt_memory_history_draft.
Proof.
  intros H.
  destruct (initial_state cexB_prog) as [s0|es] eqn:Ei; [|vm_compute in Ei; discriminate Ei].
  destruct (iter_step 1 gen_features default_options cexB_prog (load_image s0 [])) as [sn|es] eqn:Es;
    [|vm_compute in Ei; injection Ei as <-; vm_compute in Es; discriminate Es].
  assert (Hsub : subseq (effect_part (p_actions cexB_prog)) table_effects).
  { vm_compute. apply sub_skip. apply sub_take. constructor. }
  pose proof (H _ default_options _ _ [] 1%nat s0 sn cexB_ok Hsub wf_mem_nil Ei Es 0 ltac:(rewrite two64_lit; lia)) as Hc.
  vm_compute in Ei. injection Ei as <-. vm_compute in Es. injection Es as <-.
  vm_compute in Hc. discriminate Hc.
Qed.

Print Assumptions table_is_generated_holds.
Print Assumptions port_tests_hold.
Print Assumptions run_states_hold.
Print Assumptions byte_after_unfold_holds.
Print Assumptions memory_history_holds.
Print Assumptions regfile_history_holds.
Print Assumptions bank_history_holds.
Print Assumptions accepted_program_runs_holds.
Print Assumptions accepted_run_of_holds.
Print Assumptions ex_run.
Print Assumptions ex_final_memory.
Print Assumptions bank_output_stable_draft_refuted.
Print Assumptions memory_history_draft_refuted.
