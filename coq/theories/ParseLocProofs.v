(* Proofs of ParseLocSpec.v: the viable-prefix recogniser of ParseLoc.v agrees with the model parser
   ParseDiag.parse_diag (section 1-2), hence first_error_index is the first token that cannot
   continue a sentence (section 3), and its span is a token of the user's text (section 4). *)
From Coq Require Import List Arith Lia Bool NArith.
From HclV Require Import Base Expr Build Lexer Parser LexParseSpec TriviaSpec TriviaProofs Yo Region RegionSpec RegionProofs
                         LexLocSpec LexLocProofs Generated SpanParser SpanParserLemmas SpanParserSpec SpanParserProofs
                         ParseDiag ParseDiagSpec ParseDiagProofs ParseLoc ParseLocSpec ParseLocLemmas.
Import ListNotations.
Open Scope list_scope.

(* ====================================================================================== *)
(* 0. kinds                                                                               *)
(* ====================================================================================== *)
Lemma kind_of_idem t : kind_of (kind_of t) = kind_of t.
Proof. destruct t; reflexivity. Qed.
Lemma token_eqb_kind t k : token_eqb (kind_of t) k = token_eqb t k.
Proof. destruct t; try reflexivity; destruct k; reflexivity. Qed.
Lemma unop_kind t : unop_of_token (kind_of t) = unop_of_token t.
Proof. destruct t; reflexivity. Qed.
Lemma op_kind ops t : op_of_token ops (kind_of t) = op_of_token ops t.
Proof.
  unfold op_of_token. induction ops as [|op ops IH]; [reflexivity|]. cbn [find].
  assert (E : token_eqb (binop_token op) (kind_of t) = token_eqb (binop_token op) t).
  { destruct t; try reflexivity; destruct op; reflexivity. }
  rewrite E, IH. reflexivity.
Qed.
Lemma is_lit_kind t : is_lit (kind_of t) = is_lit t.
Proof. destruct t; reflexivity. Qed.
Lemma starts_name_kind t : starts_name (kind_of t) = starts_name t.
Proof. destruct t; reflexivity. Qed.
Lemma starts_reg_kind t : starts_reg_decl (kind_of t) = starts_reg_decl t.
Proof. destruct t; reflexivity. Qed.

Lemma kinds_cons t l : kinds (t :: l) = kind_of (tk t) :: kinds l.
Proof. reflexivity. Qed.
Lemma kinds_app a b : kinds (a ++ b) = kinds a ++ kinds b.
Proof. unfold kinds. apply map_app. Qed.
Lemma kinds_length l : List.length (kinds l) = List.length l.
Proof. unfold kinds. apply map_length. Qed.

(* ---- no constant above 128 directly after ":", "[" or ".." ---- *)
Definition NB (toks : list tok) : Prop := no_oversize_index (map tk toks) = true.

Lemma noi_tl a l : no_oversize_index (a :: l) = true -> no_oversize_index l = true.
Proof.
  destruct l as [|t l]; [reflexivity|]. cbn [no_oversize_index]. intros H. apply andb_prop in H. exact (proj2 H).
Qed.
Lemma noi_app w l : no_oversize_index (w ++ l) = true -> no_oversize_index l = true.
Proof. induction w as [|a w IH]; [exact (fun H => H)|]. cbn [app]. intros H. apply IH. exact (noi_tl _ _ H). Qed.
Lemma noi_head p t l : no_oversize_index (p :: t :: l) = true -> after_opener p = true -> oversize t = false.
Proof.
  cbn [no_oversize_index]. intros H Hp. rewrite Hp in H. apply andb_prop in H. destruct H as (H & _).
  destruct (oversize t); [discriminate H|reflexivity].
Qed.
Lemma NB_app w l : NB (w ++ l) -> NB l.
Proof. unfold NB. rewrite map_app. apply noi_app. Qed.
Lemma NB_tl a l : NB (a :: l) -> NB l.
Proof. unfold NB. cbn [map]. apply noi_tl. Qed.
Lemma NB_small (p t : tok) l : NB (p :: t :: l) -> after_opener (tk p) = true -> is_lit (tk t) = true ->
  exists w, small_constant (tk t) = Some w.
Proof.
  unfold NB. cbn [map]. intros H Hp Hl. pose proof (noi_head _ _ _ H Hp) as Ho.
  destruct (tk t); try discriminate Hl. cbn [oversize small_constant] in *.
  destruct (N.leb (bits v) 128); [eexists; reflexivity|discriminate Ho].
Qed.
Lemma small_is_lit t w : small_constant t = Some w -> is_lit t = true.
Proof. destruct t; try discriminate. reflexivity. Qed.
Lemma not_lit_small t : is_lit t = false -> small_constant t = None.
Proof. destruct t; try reflexivity. discriminate. Qed.

(* ====================================================================================== *)
(* 1. the recogniser agrees with the expression parser                                    *)
(* ====================================================================================== *)
(* the parser returns (value, rest)  iff  the recogniser is Done with the kinds of rest - the
   converse under the hypothesis that no fallible action fails *)
Definition AgE {A : Type} (pr : option (A * list tok)) (vr : vres) (nb : Prop) : Prop :=
  match pr with
  | Some (_, rest) => vr = Done (kinds rest)
  | None => nb -> forall r, vr <> Done r
  end.

Lemma AgE_weaken {A} (pr : option (A * list tok)) vr (nb nb' : Prop) : (nb' -> nb) -> AgE pr vr nb -> AgE pr vr nb'.
Proof. intros Hw H. destruct pr as [[a rest]|]; [exact H|]. intros Hn. exact (H (Hw Hn)). Qed.

Lemma expect_not_done k vr : (forall r, vr <> Done r) -> forall r, expect k vr <> Done r.
Proof.
  intros H r. unfold expect, closing. destruct vr as [[|t l]|x|c|]; try discriminate.
  - exfalso. exact (H _ eq_refl).
Qed.
Lemma closing_not_done after vr : (forall r, vr <> Done r) -> forall r, closing after vr <> Done r.
Proof.
  intros H r. unfold closing. destruct vr as [[|t l]|x|c|]; try discriminate. exfalso. exact (H _ eq_refl).
Qed.
Lemma pass_not_done vr (k : list token -> vres) : (forall r, vr <> Done r) ->
  forall r, match vr with Done x => k x | other => other end <> Done r.
Proof. intros H r. destruct vr; try discriminate. exfalso. exact (H _ eq_refl). Qed.

Section AgreeExpr.
  Variable tiers : list tier.

  Lemma sfx_tiers f ts toks a rest : parse_tiers_sp tiers f ts toks = Some (a, rest) -> exists w, toks = w ++ rest.
  Proof. intros H. destruct (proj1 (stable_all tiers f) ts _ _ _ H) as (w & Hw & _). exists w. exact Hw. Qed.
  Lemma sfx_simple f toks a rest : parse_simple_sp tiers f toks = Some (a, rest) -> exists w, toks = w ++ rest.
  Proof.
    intros H. destruct (proj1 (proj2 (proj2 (proj2 (stable_all tiers f)))) _ _ _ H) as (w & Hw & _). exists w. exact Hw.
  Qed.
  Lemma sfx_mux f toks a rest : parse_mux_options_sp tiers f toks = Some (a, rest) -> exists w, toks = w ++ rest.
  Proof.
    intros H. destruct (proj1 (proj2 (proj2 (proj2 (proj2 (stable_all tiers f))))) _ _ _ H) as (w & Hw & _). exists w. exact Hw.
  Qed.
  Lemma sfx_commas f toks a rest : parse_commas_exprs_sp tiers f toks = Some (a, rest) -> exists w, toks = w ++ rest.
  Proof.
    intros H. destruct (proj2 (proj2 (proj2 (proj2 (proj2 (stable_all tiers f))))) _ _ _ H) as (w & Hw & _). exists w. exact Hw.
  Qed.

  Ltac nb_sfx H := let w := fresh "w" in let Hw := fresh "Hw" in
    first [ destruct (sfx_tiers _ _ _ _ _ H) as (w & Hw) | destruct (sfx_simple _ _ _ _ H) as (w & Hw)
          | destruct (sfx_mux _ _ _ _ H) as (w & Hw) | destruct (sfx_commas _ _ _ _ H) as (w & Hw) ].

  Definition ag_at (f : nat) : Prop :=
    (forall ts toks, AgE (parse_tiers_sp tiers f ts toks) (vp_tiers tiers f ts (kinds toks)) (NB toks)) /\
    (forall rest ops l ext toks, AgE (left_loop_sp tiers f rest ops l ext toks) (vp_left_loop tiers f rest ops (kinds toks)) (NB toks)) /\
    (forall toks, AgE (parse_term_sp tiers f toks) (vp_term tiers f (kinds toks)) (NB toks)) /\
    (forall toks, AgE (parse_simple_sp tiers f toks) (vp_simple tiers f (kinds toks)) (NB toks)) /\
    (forall toks, AgE (parse_mux_options_sp tiers f toks) (vp_mux_options tiers f (kinds toks)) (NB toks)) /\
    (forall toks, AgE (parse_commas_exprs_sp tiers f toks) (vp_commas_exprs tiers f (kinds toks)) (NB toks)).

  Lemma ag_all : forall f, ag_at f.
  Proof.
    induction f as [|f IH].
    - unfold ag_at, AgE. repeat split; intros; discriminate.
    - destruct IH as (IH1 & IH2 & IH3 & IH4 & IH5 & IH6).
      unfold ag_at. split; [|split; [|split; [|split; [|split]]]].
      + (* tiers *)
        intros ts toks. rewrite parse_tiers_sp_S, vp_tiers_S.
        destruct ts as [|[[| | |] ops] rest].
        * exact (IH3 toks).
        * pose proof (IH1 rest toks) as A1.
          destruct (parse_tiers_sp tiers f rest toks) as [[[l ext] toks1]|] eqn:E1; cbn [AgE] in A1.
          -- rewrite A1. nb_sfx E1. apply (AgE_weaken _ _ (NB toks1)); [rewrite Hw; apply NB_app|exact (IH2 rest ops l ext toks1)].
          -- intros Hn r. specialize (A1 Hn). destruct (vp_tiers tiers f rest (kinds toks)) as [?| | |] eqn:Ev; try discriminate;
               exfalso; exact (A1 _ eq_refl).
        * pose proof (IH1 rest toks) as A1.
          destruct (parse_tiers_sp tiers f rest toks) as [[[l ext] toks1]|] eqn:E1; cbn [AgE] in A1.
          -- rewrite A1. nb_sfx E1. destruct toks1 as [|t toks1]; [reflexivity|].
             rewrite kinds_cons, op_kind. destruct (op_of_token ops (tk t)); [|reflexivity].
             pose proof (IH1 rest toks1) as A2.
             destruct (parse_tiers_sp tiers f rest toks1) as [[[r extr] toks2]|] eqn:E2; cbn [AgE] in A2 |- *.
             ++ exact A2.
             ++ intros Hn. apply A2. rewrite Hw in Hn. exact (NB_tl _ _ (NB_app _ _ Hn)).
          -- intros Hn r. specialize (A1 Hn). destruct (vp_tiers tiers f rest (kinds toks)) as [[|? ?]| | |] eqn:Ev; try discriminate;
               exfalso; exact (A1 _ eq_refl).
        * pose proof (IH1 rest toks) as A1.
          destruct (parse_tiers_sp tiers f rest toks) as [[[l ext] toks1]|] eqn:E1; cbn [AgE] in A1.
          -- rewrite A1. nb_sfx E1. destruct toks1 as [|t toks1]; [reflexivity|].
             rewrite kinds_cons, token_eqb_kind. destruct (token_eqb (tk t) TIn); [|reflexivity].
             destruct toks1 as [|t2 toks2]; [intros _ r; discriminate|].
             rewrite kinds_cons, token_eqb_kind. destruct (token_eqb (tk t2) TOpenBrace); [|intros _ r; discriminate].
             pose proof (IH6 toks2) as A2.
             destruct (parse_commas_exprs_sp tiers f toks2) as [[items toks3]|] eqn:E2; cbn [AgE] in A2.
             ++ rewrite A2. destruct toks3 as [|t3 toks3]; [intros _ r; discriminate|].
                rewrite kinds_cons. cbn [expect]. rewrite token_eqb_kind.
                destruct (token_eqb (tk t3) TCloseBrace); [reflexivity|intros _ r; discriminate].
             ++ intros Hn. apply expect_not_done. apply A2. rewrite Hw in Hn. exact (NB_tl _ _ (NB_tl _ _ (NB_app _ _ Hn))).
          -- intros Hn r. specialize (A1 Hn). destruct (vp_tiers tiers f rest (kinds toks)) as [[|? ?]| | |] eqn:Ev; try discriminate;
               exfalso; exact (A1 _ eq_refl).
        * intros _ r. discriminate.
      + (* left_loop *)
        intros rest ops l ext toks. rewrite left_loop_sp_S, vp_left_loop_S.
        destruct toks as [|t toks1]; [reflexivity|].
        rewrite kinds_cons, op_kind. destruct (op_of_token ops (tk t)); [|reflexivity].
        pose proof (IH1 rest toks1) as A1.
        destruct (parse_tiers_sp tiers f rest toks1) as [[[r extr] toks2]|] eqn:E1; cbn [AgE] in A1.
        * rewrite A1. cbv zeta. nb_sfx E1.
          apply (AgE_weaken _ _ (NB toks2)); [intros Hn; apply NB_tl in Hn; rewrite Hw in Hn; exact (NB_app _ _ Hn)|apply IH2].
        * intros Hn r. specialize (A1 (NB_tl _ _ Hn)). destruct (vp_tiers tiers f rest (kinds toks1)) as [?| | |] eqn:Ev; try discriminate;
            exfalso; exact (A1 _ eq_refl).
      + (* term *)
        intros toks. rewrite parse_term_sp_S, vp_term_S.
        destruct toks as [|t toks1]; [intros _ r; discriminate|].
        rewrite kinds_cons, unop_kind. destruct (unop_of_token (tk t)).
        * pose proof (IH4 toks1) as A1.
          destruct (parse_simple_sp tiers f toks1) as [[[e exte] toks2]|] eqn:E1; cbn [AgE] in A1 |- *.
          -- exact A1.
          -- intros Hn. exact (A1 (NB_tl _ _ Hn)).
        * pose proof (IH4 (t :: toks1)) as A1. rewrite kinds_cons in A1.
          destruct (parse_simple_sp tiers f (t :: toks1)) as [[[e exte] toks2]|] eqn:E1; cbn [AgE] in A1.
          -- rewrite A1. nb_sfx E1. destruct toks2 as [|t1 r1]; [reflexivity|].
             rewrite kinds_cons, token_eqb_kind.
             destruct (token_eqb (tk t1) TOpenBracket) eqn:Eb.
             2:{ destruct r1 as [|t2 [|t3 [|t4 [|t5 r5]]]]; reflexivity. }
             assert (Hn1 : NB (t :: toks1) -> NB (t1 :: r1)) by (rewrite Hw; apply NB_app).
             assert (Hop : after_opener (tk t1) = true) by (unfold after_opener; rewrite Eb, orb_true_r; reflexivity).
             unfold vp_slice.
             destruct r1 as [|t2 r2]; [intros _ r; discriminate|]. rewrite kinds_cons, is_lit_kind.
             destruct (is_lit (tk t2)) eqn:L2.
             2:{ rewrite (not_lit_small _ L2). destruct r2 as [|t3 [|t4 [|t5 r5]]]; intros _ r; discriminate. }
             destruct r2 as [|t3 r3]; [intros _ r; discriminate|]. rewrite kinds_cons, token_eqb_kind.
             destruct (token_eqb (tk t3) TDotDot) eqn:E3.
             2:{ destruct r3 as [|t4 [|t5 r5]]; try (intros _ r; discriminate).
                 destruct (small_constant (tk t2)), (small_constant (tk t4)); cbn [andb]; intros _ r; discriminate. }
             destruct r3 as [|t4 r4]; [intros _ r; discriminate|]. rewrite kinds_cons, is_lit_kind.
             destruct (is_lit (tk t4)) eqn:L4.
             2:{ rewrite (not_lit_small _ L4). destruct r4 as [|t5 r5]; [intros _ r; discriminate|].
                 destruct (small_constant (tk t2)); intros _ r; discriminate. }
             destruct r4 as [|t5 r5]; [intros _ r; discriminate|]. rewrite kinds_cons, token_eqb_kind.
             destruct (token_eqb (tk t5) TCloseBracket) eqn:E5.
             ++ destruct (small_constant (tk t2)) as [lo|] eqn:S2.
                ** destruct (small_constant (tk t4)) as [hi|] eqn:S4; [cbn [andb]; reflexivity|].
                   intros Hn r. exfalso. apply Hn1 in Hn.
                   assert (Hop3 : after_opener (tk t3) = true) by (unfold after_opener; rewrite E3; apply orb_true_r).
                   destruct (NB_small t3 t4 _ (NB_tl _ _ (NB_tl _ _ Hn)) Hop3 L4) as (w4 & E4). congruence.
                ** intros Hn r. exfalso. apply Hn1 in Hn. destruct (NB_small t1 t2 _ Hn Hop L2) as (w2 & E2'). congruence.
             ++ destruct (small_constant (tk t2)), (small_constant (tk t4)); rewrite ?andb_false_r; intros _ r; discriminate.
          -- intros Hn r. specialize (A1 Hn).
             destruct (vp_simple tiers f (kind_of (tk t) :: kinds toks1)) as [[|? ?]| | |] eqn:Ev; try discriminate;
               exfalso; exact (A1 _ eq_refl).
      + (* simple *)
        intros toks. rewrite parse_simple_sp_S, vp_simple_S.
        destruct toks as [|t toks1]; [intros _ r; discriminate|].
        rewrite kinds_cons. destruct (tk t) eqn:Ht; cbn [kind_of c_lit c_id]; try (intros _ r; discriminate); try reflexivity.
        * (* ( *)
          pose proof (IH1 tiers toks1) as A1.
          destruct (parse_tiers_sp tiers f tiers toks1) as [[[e ext0] toks2]|] eqn:E1; cbn [AgE] in A1.
          -- rewrite A1. nb_sfx E1. destruct toks2 as [|t2 toks2]; [intros _ r; discriminate|].
             rewrite kinds_cons, !token_eqb_kind.
             destruct (token_eqb (tk t2) TCloseParen); [reflexivity|].
             destruct (token_eqb (tk t2) TDotDot); [|intros _ r; discriminate].
             pose proof (IH1 tiers toks2) as A2.
             destruct (parse_tiers_sp tiers f tiers toks2) as [[[r0 ext2] toks3]|] eqn:E2; cbn [AgE] in A2.
             ++ rewrite A2. destruct toks3 as [|t3 toks3]; [intros _ r; discriminate|].
                rewrite kinds_cons. cbn [expect]. rewrite token_eqb_kind.
                destruct (token_eqb (tk t3) TCloseParen); [reflexivity|intros _ r; discriminate].
             ++ intros Hn. apply expect_not_done. apply A2. apply NB_tl in Hn. rewrite Hw in Hn. exact (NB_tl _ _ (NB_app _ _ Hn)).
          -- intros Hn r. specialize (A1 (NB_tl _ _ Hn)).
             destruct (vp_tiers tiers f tiers (kinds toks1)) as [[|? ?]| | |] eqn:Ev; try discriminate; exfalso; exact (A1 _ eq_refl).
        * (* [ *)
          pose proof (IH5 toks1) as A1.
          destruct (parse_mux_options_sp tiers f toks1) as [[a toks2]|] eqn:E1; cbn [AgE] in A1.
          -- rewrite A1. destruct toks2 as [|t2 toks2]; [intros _ r; discriminate|].
             rewrite kinds_cons. cbn [expect]. rewrite token_eqb_kind.
             destruct (token_eqb (tk t2) TCloseBracket); [reflexivity|intros _ r; discriminate].
          -- intros Hn. apply expect_not_done. exact (A1 (NB_tl _ _ Hn)).
      + (* mux options *)
        intros toks. rewrite parse_mux_options_sp_S, vp_mux_options_S.
        destruct toks as [|t toks1]; [reflexivity|].
        rewrite kinds_cons, token_eqb_kind. destruct (token_eqb (tk t) TCloseBracket); [reflexivity|].
        pose proof (IH1 tiers (t :: toks1)) as A1. rewrite kinds_cons in A1.
        destruct (parse_tiers_sp tiers f tiers (t :: toks1)) as [[[c extc] toks2]|] eqn:E1; cbn [AgE] in A1.
        * rewrite A1. nb_sfx E1. destruct toks2 as [|t1 toks2]; [intros _ r; discriminate|].
          rewrite kinds_cons, token_eqb_kind. destruct (token_eqb (tk t1) TColon); [|intros _ r; discriminate].
          pose proof (IH1 tiers toks2) as A2.
          assert (Hn2 : NB (t :: toks1) -> NB toks2) by (intros Hn; rewrite Hw in Hn; exact (NB_tl _ _ (NB_app _ _ Hn))).
          destruct (parse_tiers_sp tiers f tiers toks2) as [[[v extv] toks3]|] eqn:E2; cbn [AgE] in A2.
          -- rewrite A2. destruct (sfx_tiers _ _ _ _ _ E2) as (w2 & Hw2).
             destruct toks3 as [|t2 toks3]; [reflexivity|].
             rewrite kinds_cons, token_eqb_kind. destruct (token_eqb (tk t2) TSemicolon); [|reflexivity].
             pose proof (IH5 toks3) as A3.
             destruct (parse_mux_options_sp tiers f toks3) as [[more toks4]|] eqn:E3; cbn [AgE] in A3 |- *.
             ++ exact A3.
             ++ intros Hn. apply A3. apply Hn2 in Hn. rewrite Hw2 in Hn. exact (NB_tl _ _ (NB_app _ _ Hn)).
          -- intros Hn r. specialize (A2 (Hn2 Hn)).
             destruct (vp_tiers tiers f tiers (kinds toks2)) as [[|? ?]| | |] eqn:Ev; try discriminate; exfalso; exact (A2 _ eq_refl).
        * intros Hn r. specialize (A1 Hn).
          destruct (vp_tiers tiers f tiers (kind_of (tk t) :: kinds toks1)) as [x| | |] eqn:Ev;
            [exfalso; exact (A1 _ eq_refl)| | |]; discriminate.
      + (* commas *)
        intros toks. rewrite parse_commas_exprs_sp_S, vp_commas_exprs_S.
        destruct toks as [|t toks1]; [reflexivity|].
        rewrite kinds_cons, token_eqb_kind. destruct (token_eqb (tk t) TCloseBrace); [reflexivity|].
        pose proof (IH1 tiers (t :: toks1)) as A1. rewrite kinds_cons in A1.
        destruct (parse_tiers_sp tiers f tiers (t :: toks1)) as [[[e exte] toks2]|] eqn:E1; cbn [AgE] in A1.
        * rewrite A1. nb_sfx E1. destruct toks2 as [|t1 toks2]; [reflexivity|].
          rewrite kinds_cons, token_eqb_kind. destruct (token_eqb (tk t1) TComma); [|reflexivity].
          pose proof (IH6 toks2) as A2.
          destruct (parse_commas_exprs_sp tiers f toks2) as [[more toks3]|] eqn:E2; cbn [AgE] in A2 |- *.
          -- exact A2.
          -- intros Hn. apply A2. rewrite Hw in Hn. exact (NB_tl _ _ (NB_app _ _ Hn)).
        * intros Hn r. specialize (A1 Hn).
          destruct (vp_tiers tiers f tiers (kind_of (tk t) :: kinds toks1)) as [[|? ?]| | |] eqn:Ev; try discriminate;
            exfalso; exact (A1 _ eq_refl).
  Qed.
End AgreeExpr.

(* ====================================================================================== *)
(* 2. ... and with the declaration, statement and program parsers of ParseDiag            *)
(* ====================================================================================== *)
Definition AgD {A : Type} (pr : pres (A * list tok)) (vr : vres) (nb : Prop) : Prop :=
  match pr with
  | POk (_, rest) _ => vr = Done (kinds rest)
  | _ => nb -> forall r, vr <> Done r
  end.

Lemma AgD_weaken {A} (pr : pres (A * list tok)) vr (nb nb' : Prop) : (nb' -> nb) -> AgD pr vr nb -> AgD pr vr nb'.
Proof. intros Hw H. destruct pr as [[a rest] ds|ds|]; [exact H| |]; intros Hn; exact (H (Hw Hn)). Qed.

Lemma width_cases t :
  (exists w, width_constant t = WOk w /\ is_lit t = true) \/
  (width_constant t = WFatal /\ is_lit t = true /\ oversize t = true) \/
  (width_constant t = WBad /\ is_lit t = false).
Proof.
  destruct t; try (right; right; split; reflexivity).
  cbn [width_constant oversize is_lit]. destruct (N.leb (bits v) 128).
  - left. eexists. split; reflexivity.
  - right. left. repeat split; reflexivity.
Qed.

Lemma NB_big (p t : tok) l : NB (p :: t :: l) -> after_opener (tk p) = true -> oversize (tk t) = true -> False.
Proof. unfold NB. cbn [map]. intros H Hp Ho. rewrite (noi_head _ _ _ H Hp) in Ho. discriminate Ho. Qed.

Lemma colon_opener t : token_eqb t TColon = true -> after_opener t = true.
Proof. intros H. unfold after_opener. rewrite H. reflexivity. Qed.

Section AgreeDecl.
  Variable tiers : list tier.

  Lemma ag_expr_d f toks : AgD (expr_d tiers f toks) (vp_expr tiers f (kinds toks)) (NB toks).
  Proof.
    unfold expr_d, vp_expr, parse_expr_sp. pose proof (proj1 (ag_all tiers f) tiers toks) as A.
    destruct (parse_tiers_sp tiers f tiers toks) as [[[e ext] rest]|]; cbn [AgE] in A.
    - exact A.
    - destruct (fatal_tiers tiers f tiers toks); exact A.
  Qed.

  Lemma expr_d_sfx f toks a rest ds : expr_d tiers f toks = POk (a, rest) ds -> exists w, toks = w ++ rest.
  Proof.
    unfold expr_d, parse_expr_sp. destruct (parse_tiers_sp tiers f tiers toks) as [[[e ext] r]|] eqn:E.
    - intros H. injection H as <- <- _. exact (sfx_tiers _ _ _ _ _ _ E).
    - destruct (fatal_tiers tiers f tiers toks); discriminate.
  Qed.

  (* a declaration that ends with  "=" Expr *)
  Ltac tail_expr f rest4 Hnb :=
    let A := fresh "A" in
    pose proof (ag_expr_d f rest4) as A;
    destruct (expr_d tiers f rest4) as [[[? ?] ?] ?|?|]; cbn [AgD] in A |- *;
    [exact A | intros Hn; apply A; exact (Hnb Hn) | intros Hn; apply A; exact (Hnb Hn)].

  Lemma ag_width_gen {A : Type} f (toks : list tok) (K : tok -> N -> list tok -> pres (A * list tok))
        (Fd : tok -> list pdiag) :
    (forall t3 w rest4, AgD (K t3 w rest4) (vp_expr tiers f (kinds rest4)) (NB rest4)) ->
    forall p, after_opener (tk p) = true ->
    AgD (match toks with
         | t3 :: t4 :: rest4 =>
             match width_constant (tk t3) with
             | WOk w => if token_eqb (tk t4) TAssign then K t3 w rest4 else PNone
             | WFatal => if token_eqb (tk t4) TAssign then PFatal (Fd t3) else PNone
             | WBad => PNone
             end
         | _ => PNone
         end) (vp_width_value tiers f (kinds toks)) (NB (p :: toks)).
  Proof.
    intros Hk p Hp. unfold vp_width_value.
    destruct toks as [|t3 [|t4 rest4]]; try (intros _ r; discriminate).
    - rewrite !kinds_cons, is_lit_kind. cbn [kinds map]. destruct (is_lit (tk t3)); intros _ r; discriminate.
    - rewrite !kinds_cons, is_lit_kind, token_eqb_kind.
      destruct (width_cases (tk t3)) as [(w & -> & ->)|[(-> & -> & Ho)|(-> & ->)]].
      + destruct (token_eqb (tk t4) TAssign); [|intros _ r; discriminate].
        apply (AgD_weaken _ _ (NB rest4)); [intros Hn; exact (NB_tl _ _ (NB_tl _ _ (NB_tl _ _ Hn)))|apply Hk].
      + assert (Hx : NB (p :: t3 :: t4 :: rest4) -> forall r, (if token_eqb (tk t4) TAssign then vp_expr tiers f (kinds rest4) else Fail (kind_of (tk t4) :: kinds rest4)) <> Done r).
        { intros Hn. exfalso. exact (NB_big _ _ _ Hn Hp Ho). }
        destruct (token_eqb (tk t4) TAssign); exact Hx.
      + destruct (token_eqb (tk t4) TAssign); intros _ r; discriminate.
  Qed.

  Lemma ag_width_value {A : Type} f (toks : list tok) (k : N -> list tok -> pres (A * list tok)) :
    (forall w rest4, AgD (k w rest4) (vp_expr tiers f (kinds rest4)) (NB rest4)) ->
    forall p, after_opener (tk p) = true ->
    AgD (reg_width_d toks k) (vp_width_value tiers f (kinds toks)) (NB (p :: toks)).
  Proof.
    intros Hk p Hp.
    exact (ag_width_gen f toks (fun _ => k) (fun t3 => [(KInvalidWireWidth, tspan t3)]) (fun _ => Hk) p Hp).
  Qed.

  Lemma ag_wire_decl f eof toks : AgD (wire_decl_d tiers f eof toks) (vp_wire_decl tiers f (kinds toks)) (NB toks).
  Proof.
    unfold wire_decl_d, vp_wire_decl.
    destruct toks as [|t1 rest1]; [intros _ r; discriminate|].
    rewrite kinds_cons, starts_name_kind.
    destruct (tk t1) eqn:H1; cbn [starts_name]; try (intros _ r; discriminate).
    destruct rest1 as [|t2 rest2]; [reflexivity|].
    rewrite kinds_cons, !token_eqb_kind.
    destruct (token_eqb (tk t2) TColon) eqn:E2.
    - destruct rest2 as [|t3 rest3]; [intros _ r; discriminate|].
      rewrite kinds_cons, is_lit_kind.
      destruct (width_cases (tk t3)) as [(w & -> & ->)|[(-> & -> & Ho)|(-> & ->)]].
      + destruct rest3 as [|t4 rest4]; [reflexivity|].
        rewrite kinds_cons, token_eqb_kind. destruct (token_eqb (tk t4) TAssign); [|reflexivity].
        tail_expr f rest4 (fun Hn : NB (t1 :: t2 :: t3 :: t4 :: rest4) => NB_tl _ _ (NB_tl _ _ (NB_tl _ _ (NB_tl _ _ Hn)))).
      + assert (Hx : forall v, NB (t1 :: t2 :: t3 :: rest3) -> forall r, v <> Done r).
        { intros v Hn. exfalso. exact (NB_big _ _ _ (NB_tl _ _ Hn) (colon_opener _ E2) Ho). }
        destruct (follows_wire_width eof rest3); exact (Hx _).
      + intros _ r; discriminate.
    - destruct (token_eqb (tk t2) TAssign); [|reflexivity].
      tail_expr f rest2 (fun Hn : NB (t1 :: t2 :: rest2) => NB_tl _ _ (NB_tl _ _ Hn)).
  Qed.

  Ltac tail_expr2 f rest4 Hnb :=
    let A := fresh "A" in
    pose proof (ag_expr_d f rest4) as A;
    destruct (expr_d tiers f rest4) as [[[? ?] ?] ?|?|]; cbn [AgD] in A; cbv beta iota zeta; cbn [AgD];
    [exact A | intros Hn; apply A; exact (Hnb Hn) | intros Hn; apply A; exact (Hnb Hn)].

  Lemma ag_const_decl f toks : AgD (const_decl_d tiers f toks) (vp_const_decl tiers f (kinds toks)) (NB toks).
  Proof.
    unfold const_decl_d, vp_const_decl.
    destruct toks as [|t1 [|t2 rest2]]; try (intros _ r; discriminate).
    { rewrite kinds_cons, starts_name_kind. cbn [kinds map]. destruct (starts_name (tk t1)); intros _ r; discriminate. }
    rewrite !kinds_cons, starts_name_kind, !token_eqb_kind.
    destruct (tk t1) eqn:H1; cbn [starts_name]; try (intros _ r; discriminate).
    destruct (token_eqb (tk t2) TAssign).
    { tail_expr2 f rest2 (fun Hn : NB (t1 :: t2 :: rest2) => NB_tl _ _ (NB_tl _ _ Hn)). }
    destruct (token_eqb (tk t2) TColon) eqn:E2; [|intros _ r; discriminate].
    apply (AgD_weaken _ _ (NB (t2 :: rest2))); [apply NB_tl|].
    refine (ag_width_gen f rest2 (fun t3 _ rest4 => _) (fun t3 => _) _ t2 (colon_opener _ E2)).
    intros t3 w rest4. tail_expr2 f rest4 (fun Hn : NB rest4 => Hn).
  Qed.

  Lemma ag_reg_value f toks mk :
    AgD (reg_value_d tiers f toks mk) (vp_expr tiers f (kinds toks)) (NB toks).
  Proof.
    unfold reg_value_d. pose proof (ag_expr_d f toks) as A.
    destruct (expr_d tiers f toks) as [[[e exte] rest] ds|ds|]; cbn [AgD] in A |- *; [|exact A|exact A].
    destruct (mk e exte) as [r ds']. exact A.
  Qed.

  Lemma ag_reg_decl f toks : AgD (reg_decl_d tiers f toks) (vp_reg_decl tiers f (kinds toks)) (NB toks).
  Proof.
    unfold reg_decl_d, vp_reg_decl.
    destruct toks as [|t1 [|t2 rest2]]; try (intros _ r; discriminate).
    { rewrite kinds_cons, starts_name_kind, token_eqb_kind. cbn [kinds map].
      destruct (starts_name (tk t1)); [intros _ r; discriminate|]. destruct (token_eqb (tk t1) TWire); intros _ r; discriminate. }
    rewrite !kinds_cons, !starts_name_kind, !token_eqb_kind.
    destruct (tk t1) eqn:H1; cbn [starts_name token_eqb]; try (intros _ r; discriminate).
    - (* wire *)
      destruct (tk t2) eqn:H2; cbn [starts_name]; try (intros _ r; discriminate).
      destruct rest2 as [|t3 rest3]; [intros _ r; discriminate|].
      rewrite kinds_cons, !token_eqb_kind.
      destruct (token_eqb (tk t3) TAssign).
      { apply (AgD_weaken _ _ (NB rest3)); [intros Hn; exact (NB_tl _ _ (NB_tl _ _ (NB_tl _ _ Hn)))|apply ag_reg_value]. }
      destruct (token_eqb (tk t3) TColon) eqn:E3; [|intros _ r; discriminate].
      apply (AgD_weaken _ _ (NB (t3 :: rest3))); [intros Hn; exact (NB_tl _ _ (NB_tl _ _ Hn))|].
      refine (ag_width_value f rest3 _ _ t3 (colon_opener _ E3)).
      intros w rest5. apply ag_reg_value.
    - (* a name *)
      destruct (token_eqb (tk t2) TAssign).
      { apply (AgD_weaken _ _ (NB rest2)); [intros Hn; exact (NB_tl _ _ (NB_tl _ _ Hn))|apply ag_reg_value]. }
      destruct (token_eqb (tk t2) TColon) eqn:E2; [|intros _ r; discriminate].
      apply (AgD_weaken _ _ (NB (t2 :: rest2))); [apply NB_tl|].
      refine (ag_width_value f rest2 _ _ t2 (colon_opener _ E2)).
      intros w rest4. apply ag_reg_value.
  Qed.

  (* (ID "=")* *)
  Lemma targets_agree : forall n toks, (List.length toks <= n)%nat ->
    kinds (snd (parse_targets_sp n toks)) = vp_targets (kinds toks) /\
    exists w, toks = w ++ snd (parse_targets_sp n toks).
  Proof.
    induction n as [|n IH]; intros toks Hn.
    - destruct toks; [|cbn in Hn; lia]. split; [reflexivity|exists []; reflexivity].
    - destruct toks as [|t1 [|t2 toks1]].
      + split; [reflexivity|exists []; reflexivity].
      + split; [reflexivity|exists []; reflexivity].
      + cbn [parse_targets_sp]. rewrite !kinds_cons. cbn [vp_targets]. rewrite starts_name_kind, token_eqb_kind.
        destruct (tk t1) eqn:H1; cbn [starts_name andb];
          try (split; [cbn [snd]; rewrite !kinds_cons, H1; reflexivity|exists []; reflexivity]).
        destruct (token_eqb (tk t2) TAssign); [|split; [cbn [snd]; rewrite !kinds_cons, H1; reflexivity|exists []; reflexivity]].
        destruct (IH toks1 ltac:(cbn [List.length] in Hn; lia)) as (I1 & w & I2).
        destruct (parse_targets_sp n toks1) as [more rest]. cbn [snd] in *. split; [exact I1|].
        exists (t1 :: t2 :: w). rewrite I2 at 1. reflexivity.
  Qed.

  Lemma targets_step n (t1 t2 : tok) l name : tk t1 = TIdentifier name -> token_eqb (tk t2) TAssign = true ->
    parse_targets_sp (S n) (t1 :: t2 :: l) =
    let '(more, rest) := parse_targets_sp n l in ((string_of_name name, tspan t1) :: more, rest).
  Proof.
    intros H1 H2.
    change (parse_targets_sp (S n) (t1 :: t2 :: l)) with
      (match tk t1 with
       | TIdentifier name =>
           if token_eqb (tk t2) TAssign then
             let '(more, rest) := parse_targets_sp n l in ((string_of_name name, tspan t1) :: more, rest)
           else ([], t1 :: t2 :: l)
       | _ => ([], t1 :: t2 :: l)
       end).
    rewrite H1, H2. reflexivity.
  Qed.

  Lemma mux_nonempty f t l a r : token_eqb (tk t) TCloseBracket = false ->
    parse_mux_options_sp tiers f (t :: l) = Some (a, r) -> exists c v more, a = SACons c v more.
  Proof.
    intros Ht H. destruct f as [|f]; [discriminate H|]. rewrite parse_mux_options_sp_S, Ht in H.
    destruct (parse_tiers_sp tiers f tiers (t :: l)) as [[[c extc] [|t1 toks1]]|]; try discriminate H.
    destruct (token_eqb (tk t1) TColon); [|discriminate H].
    destruct (parse_tiers_sp tiers f tiers toks1) as [[[v extv] [|t2 toks2]]|]; try discriminate H.
    - injection H as <- _. eexists _, _, _. reflexivity.
    - destruct (token_eqb (tk t2) TSemicolon).
      + destruct (parse_mux_options_sp tiers f toks2) as [[more toks3]|]; [|discriminate H].
        injection H as <- _. eexists _, _, _. reflexivity.
      + injection H as <- _. eexists _, _, _. reflexivity.
  Qed.

  Lemma ag_assignment f toks : AgD (assignment_d tiers f toks) (vp_assignment tiers f (kinds toks)) (NB toks).
  Proof.
    unfold assignment_d, vp_assignment.
    destruct toks as [|t1 [|t2 rest2]]; try (intros _ r; discriminate).
    { rewrite kinds_cons, starts_name_kind. cbn [kinds map]. destruct (starts_name (tk t1)); intros _ r; discriminate. }
    rewrite !kinds_cons, starts_name_kind, !token_eqb_kind.
    destruct (tk t1) eqn:H1; cbn [starts_name]; try (intros _ r; discriminate).
    destruct (token_eqb (tk t2) TOpenBracket) eqn:E2.
    - pose proof (proj1 (proj2 (proj2 (proj2 (proj2 (ag_all tiers f))))) rest2) as A.
      destruct rest2 as [|t3 rest3].
      { cbn [kinds map]. destruct f as [|f]; [cbn; intros _ r; discriminate|].
        rewrite parse_mux_options_sp_S. intros _ r; discriminate. }
      rewrite kinds_cons, token_eqb_kind.
      destruct (token_eqb (tk t3) TCloseBracket) eqn:E3.
      { destruct f as [|f]; [intros _ r; discriminate|]. rewrite parse_mux_options_sp_S, E3. intros _ r; discriminate. }
      rewrite kinds_cons in A.
      destruct (parse_mux_options_sp tiers f (t3 :: rest3)) as [[a r0]|] eqn:Em; cbn [AgE] in A.
      + destruct (mux_nonempty _ _ _ _ _ E3 Em) as (c & v & more & ->).
        rewrite A. destruct r0 as [|t4 rest4]; [intros _ r; discriminate|].
        rewrite kinds_cons. cbn [expect]. rewrite token_eqb_kind.
        destruct (token_eqb (tk t4) TCloseBracket); [reflexivity|intros _ r; discriminate].
      + assert (Hx : NB (t1 :: t2 :: t3 :: rest3) -> forall r,
                  expect TCloseBracket (vp_mux_options tiers f (kind_of (tk t3) :: kinds rest3)) <> Done r).
        { intros Hn. apply expect_not_done. apply A. exact (NB_tl _ _ (NB_tl _ _ Hn)). }
        destruct (fatal_mux_options tiers f (t3 :: rest3)); exact Hx.
    - destruct (token_eqb (tk t2) TAssign) eqn:E2a.
      + destruct (targets_agree (List.length (t1 :: t2 :: rest2)) (t1 :: t2 :: rest2) (Nat.le_refl _)) as (I1 & w & I2).
        rewrite !kinds_cons, H1 in I1. rewrite <- I1.
        assert (Hnames : fst (parse_targets_sp (List.length (t1 :: t2 :: rest2)) (t1 :: t2 :: rest2)) <> []).
        { change (List.length (t1 :: t2 :: rest2)) with (S (S (List.length rest2))).
          rewrite (targets_step _ _ _ _ _ H1 E2a). destruct (parse_targets_sp (S (List.length rest2)) rest2). discriminate. }
        destruct (parse_targets_sp (List.length (t1 :: t2 :: rest2)) (t1 :: t2 :: rest2)) as [names toks1].
        cbn [fst snd] in *. destruct names as [|n0 names]; [congruence|].
        assert (Hnb : NB (t1 :: t2 :: rest2) -> NB toks1) by (rewrite I2; apply NB_app).
        tail_expr2 f toks1 Hnb.
      + assert (Hnames : fst (parse_targets_sp (List.length (t1 :: t2 :: rest2)) (t1 :: t2 :: rest2)) = []).
        { change (List.length (t1 :: t2 :: rest2)) with (S (S (List.length rest2))).
          change (parse_targets_sp (S (S (List.length rest2))) (t1 :: t2 :: rest2)) with
            (match tk t1 with
             | TIdentifier name =>
                 if token_eqb (tk t2) TAssign then
                   let '(more, rest) := parse_targets_sp (S (List.length rest2)) rest2 in ((string_of_name name, tspan t1) :: more, rest)
                 else ([], t1 :: t2 :: rest2)
             | _ => ([], t1 :: t2 :: rest2)
             end).
          rewrite H1, E2a. reflexivity. }
        destruct (parse_targets_sp (List.length (t1 :: t2 :: rest2)) (t1 :: t2 :: rest2)) as [names toks1].
        cbn [fst] in Hnames. subst names. intros _ r. discriminate.
  Qed.

  (* Repeat<sep, item> *)
  Lemma ag_list {A : Type} starts sep (item : nat -> list tok -> pres (A * list tok)) (vitem : nat -> list token -> vres) :
    (forall t, starts (kind_of t) = starts t) -> (forall k, kind_of k = k -> k = sep -> True) ->
    (forall f toks, AgD (item f toks) (vitem f (kinds toks)) (NB toks)) ->
    IStab item ->
    forall f toks, AgD (list_d starts sep item f toks) (vp_list starts sep vitem f (kinds toks)) (NB toks).
  Proof.
    intros Hst _ Hitem Hstab. induction f as [|f IH]; intros toks; [intros _ r; discriminate|].
    cbn [list_d vp_list]. destruct toks as [|t1 toks1]; [reflexivity|].
    rewrite kinds_cons, Hst. destruct (starts (tk t1)); [|reflexivity].
    pose proof (Hitem f (t1 :: toks1)) as Ai. rewrite kinds_cons in Ai.
    destruct (item f (t1 :: toks1)) as [[d rest] ds|ds|] eqn:Ei; cbn [AgD] in Ai.
    - rewrite Ai. destruct (Hstab _ _ _ _ _ Ei) as (it & Hit & _ & _).
      unfold next_is. destruct rest as [|t rest]; [reflexivity|].
      rewrite kinds_cons, token_eqb_kind. destruct (token_eqb (tk t) sep); [|reflexivity]. cbn [tl].
      pose proof (IH rest) as A2.
      destruct (list_d starts sep item f rest) as [[more rest2] ds2|ds2|]; cbn [AgD] in A2 |- *.
      + exact A2.
      + intros Hn. apply A2. rewrite Hit in Hn. exact (NB_tl _ _ (NB_app _ _ Hn)).
      + intros Hn. apply A2. rewrite Hit in Hn. exact (NB_tl _ _ (NB_app _ _ Hn)).
    - intros Hn r. specialize (Ai Hn). destruct (vitem f (kind_of (tk t1) :: kinds toks1)) as [[|? ?]| | |]; try discriminate;
        exfalso; exact (Ai _ eq_refl).
    - intros Hn r. specialize (Ai Hn). destruct (vitem f (kind_of (tk t1) :: kinds toks1)) as [[|? ?]| | |]; try discriminate;
        exfalso; exact (Ai _ eq_refl).
  Qed.

  Lemma ag_assignments : forall f toks, AgD (assignments_d tiers f toks) (vp_assignments tiers f (kinds toks)) (NB toks).
  Proof.
    induction f as [|f IH]; intros toks; [intros _ r; discriminate|].
    cbn [assignments_d vp_assignments].
    pose proof (ag_assignment f toks) as A.
    destruct (assignment_d tiers f toks) as [[a rest] ds|ds|] eqn:Ea; cbn [AgD] in A.
    - rewrite A. destruct (assignment_d_stable tiers _ _ _ _ _ Ea) as (it & Hit & _ & _).
      destruct rest as [|t toks2]; [reflexivity|].
      rewrite kinds_cons, token_eqb_kind. destruct (token_eqb (tk t) TComma); [|reflexivity].
      destruct toks2 as [|t2 toks3]; [reflexivity|].
      rewrite kinds_cons, starts_name_kind.
      destruct (tk t2) eqn:H2; cbn [starts_name AgD]; try (rewrite (kinds_cons t2), H2; reflexivity).
      pose proof (IH (t2 :: toks3)) as A2. rewrite kinds_cons, H2 in A2.
      destruct (assignments_d tiers f (t2 :: toks3)) as [[more rest3] ds2|ds2|]; cbn [AgD] in A2 |- *.
      + exact A2.
      + intros Hn. apply A2. rewrite Hit in Hn. exact (NB_tl _ _ (NB_app _ _ Hn)).
      + intros Hn. apply A2. rewrite Hit in Hn. exact (NB_tl _ _ (NB_app _ _ Hn)).
    - intros Hn r. specialize (A Hn). destruct (vp_assignment tiers f (kinds toks)) as [[|? ?]| | |]; try discriminate;
        exfalso; exact (A _ eq_refl).
    - intros Hn r. specialize (A Hn). destruct (vp_assignment tiers f (kinds toks)) as [[|? ?]| | |]; try discriminate;
        exfalso; exact (A _ eq_refl).
  Qed.

  Lemma next_tok_is_kinds k l : next_tok_is k (kinds l) = next_is k l.
  Proof. destruct l as [|t l]; [reflexivity|]. cbn [kinds map next_tok_is next_is]. apply token_eqb_kind. Qed.

  Definition AgS (pr : pres (dstmt * stmt_kind * list tok)) (vr : vres * stmt_kind) (nb : Prop) : Prop :=
    match pr with
    | POk (_, k, rest) _ => vr = (Done (kinds rest), k)
    | _ => nb -> forall r, fst vr <> Done r
    end.

  Lemma AgS_weaken_tl t l pr vr : AgS pr vr (NB l) -> AgS pr vr (NB (t :: l)).
  Proof. destruct pr as [[[s k] rest] ds|ds|]; cbn [AgS]; [exact (fun H => H)| |]; intros H Hn; exact (H (NB_tl _ _ Hn)). Qed.

  Lemma ag_lift_list {A : Type} (mk : list A -> dstmt) (pr : pres (list A * list tok)) vr nb :
    AgD pr vr nb -> AgS (lift_list mk pr) (vr, NeedSemi) nb.
  Proof. destruct pr as [[d rest] ds|ds|]; cbn [lift_list AgD AgS fst]; [intros ->; reflexivity|exact (fun H => H)..]. Qed.

  Lemma ag_simple_statement f ne toks :
    AgS (simple_statement_d tiers f ne toks) (vp_simple tiers f (kinds toks), NeedSemi) (NB toks).
  Proof.
    unfold simple_statement_d. pose proof (proj1 (proj2 (proj2 (proj2 (ag_all tiers f)))) toks) as A.
    destruct (parse_simple_sp tiers f toks) as [[[e ext] rest]|]; cbn [AgE] in A; cbn [AgS fst].
    - rewrite A. reflexivity.
    - destruct (fatal_simple tiers f toks); exact A.
  Qed.

  Lemma ag_statement f eof ne toks :
    AgS (statement_d tiers f eof ne toks) (vp_statement tiers f (kinds toks)) (NB toks).
  Proof.
    unfold statement_d, vp_statement.
    destruct toks as [|t toks1]; [intros _ r; discriminate|].
    pose proof (ag_simple_statement f ne (t :: toks1)) as As. rewrite kinds_cons in As |- *.
    destruct (tk t) eqn:Ht; cbn [kind_of c_lit c_id]; cbn [kind_of c_lit c_id] in As; try (intros _ r; discriminate); try exact As.
    - (* wire *)
      apply (AgS_weaken_tl t). apply ag_lift_list.
      apply (ag_list starts_name TComma (fun f => wire_decl_d tiers f eof) (vp_wire_decl tiers));
        [apply starts_name_kind|intros; exact I|intros; apply ag_wire_decl|apply wire_decl_d_stable].
    - (* const *)
      apply (AgS_weaken_tl t). apply ag_lift_list.
      apply (ag_list starts_name TComma (const_decl_d tiers) (vp_const_decl tiers));
        [apply starts_name_kind|intros; exact I|intros; apply ag_const_decl|apply const_decl_d_stable].
    - (* register *)
      clear As. destruct toks1 as [|t1 [|t2 toks2]]; try (intros _ r; discriminate).
      { rewrite kinds_cons, starts_name_kind. cbn [kinds map fst]. destruct (starts_name (tk t1)); intros _ r; discriminate. }
      rewrite !kinds_cons, starts_name_kind, token_eqb_kind.
      destruct (tk t1) eqn:H1; cbn [starts_name]; try (intros _ r; discriminate).
      destruct (token_eqb (tk t2) TOpenBrace); [|intros _ r; discriminate].
      pose proof (ag_list starts_reg_decl TSemicolon (reg_decl_d tiers) (vp_reg_decl tiers) starts_reg_kind
                    (fun _ _ _ => I) (fun f toks => ag_reg_decl f toks) (reg_decl_d_stable tiers) f toks2) as A.
      unfold reg_decls_d.
      destruct (list_d starts_reg_decl TSemicolon (reg_decl_d tiers) f toks2) as [[regs rest] ds|ds|]; cbn [AgD] in A.
      + rewrite A. destruct rest as [|t3 rest]; [intros _ r; discriminate|].
        rewrite kinds_cons. cbn [expect]. rewrite token_eqb_kind.
        destruct (token_eqb (tk t3) TCloseBrace); [reflexivity|intros _ r; discriminate].
      + intros Hn. cbn [fst]. apply expect_not_done. apply A. exact (NB_tl _ _ (NB_tl _ _ (NB_tl _ _ Hn))).
      + intros Hn. cbn [fst]. apply expect_not_done. apply A. exact (NB_tl _ _ (NB_tl _ _ (NB_tl _ _ Hn))).
    - (* a name *)
      rewrite !next_tok_is_kinds.
      destruct (next_is TAssign toks1 || next_is TOpenBracket toks1); [|exact As].
      apply ag_lift_list. pose proof (ag_assignments f (t :: toks1)) as A. rewrite kinds_cons, Ht in A. exact A.
  Qed.

  Definition AgP (pr : option dresult) (vr : vres) (nb : Prop) : Prop :=
    match pr with
    | Some (DDone _) => vr = Done []
    | _ => nb -> forall r, vr <> Done r
    end.

  Lemma ag_statements : forall f toks seen acc,
    AgP (statements_d tiers f toks seen acc) (vp_statements tiers f (kinds toks) seen) (NB toks).
  Proof.
    induction f as [|f IH]; intros toks seen acc; [intros _ r; discriminate|].
    cbn [statements_d vp_statements].
    destruct toks as [|t toks1].
    { destruct seen; [reflexivity|intros _ r; discriminate]. }
    rewrite kinds_cons, token_eqb_kind.
    destruct (token_eqb (tk t) TSemicolon).
    { destruct seen; [|intros _ r; discriminate].
      pose proof (IH toks1 true acc) as A.
      destruct (statements_d tiers f toks1 true acc) as [[l|l ds]|]; cbn [AgP] in A |- *;
        [exact A|intros Hn; exact (A (NB_tl _ _ Hn))..]. }
    rewrite <- (kinds_cons t toks1). rewrite kinds_length.
    pose proof (ag_statement (20 * S (List.length (t :: toks1))) seen (no_diags acc) (t :: toks1)) as A.
    destruct (statement_d tiers (20 * S (List.length (t :: toks1))) seen (no_diags acc) (t :: toks1))
      as [[[s k] rest] ds|ds|] eqn:Es; cbn [AgS] in A.
    - rewrite A. destruct (statement_d_stable tiers _ _ _ _ _ _ _ _ Es) as (sg & Hsg & _ & _).
      assert (Hnr : NB (t :: toks1) -> NB rest) by (rewrite Hsg; apply NB_app).
      destruct k.
      + destruct rest as [|t2 rest2].
        { destruct seen; [reflexivity|intros _ r; discriminate]. }
        rewrite kinds_cons, token_eqb_kind. destruct (token_eqb (tk t2) TSemicolon); [|intros _ r; discriminate].
        pose proof (IH rest2 true ((s, ds) :: acc)) as A2.
        destruct (statements_d tiers f rest2 true ((s, ds) :: acc)) as [[l|l ds2]|]; cbn [AgP] in A2 |- *;
          [exact A2|intros Hn; exact (A2 (NB_tl _ _ (Hnr Hn)))..].
      + pose proof (IH rest true ((s, ds) :: acc)) as A2.
        destruct (statements_d tiers f rest true ((s, ds) :: acc)) as [[l|l ds2]|]; cbn [AgP] in A2 |- *;
          [exact A2|intros Hn; exact (A2 (Hnr Hn))..].
    - intros Hn r. specialize (A Hn).
      destruct (vp_statement tiers (20 * S (List.length (t :: toks1))) (kinds (t :: toks1))) as [[x| | |] k];
        cbn [fst] in A; try discriminate. exfalso. exact (A _ eq_refl).
    - intros Hn r. specialize (A Hn).
      destruct (vp_statement tiers (20 * S (List.length (t :: toks1))) (kinds (t :: toks1))) as [[x| | |] k];
        cbn [fst] in A; try discriminate. exfalso. exact (A _ eq_refl).
  Qed.

  (* the whole text *)
  Lemma parse_diag_done_vp toks l : parse_diag tiers toks = Some (DDone l) -> vp_program tiers (kinds toks) = Done [].
  Proof.
    unfold parse_diag, vp_program. intros H. rewrite kinds_length.
    pose proof (ag_statements (S (List.length toks)) toks false []) as A. rewrite H in A. exact A.
  Qed.

  Lemma vp_done_parse_diag toks r : NB toks -> vp_program tiers (kinds toks) = Done r ->
    exists l, parse_diag tiers toks = Some (DDone l).
  Proof.
    unfold parse_diag, vp_program. rewrite kinds_length. intros Hn H.
    pose proof (ag_statements (S (List.length toks)) toks false []) as A.
    destruct (statements_d tiers (S (List.length toks)) toks false []) as [[l|l ds]|]; cbn [AgP] in A.
    - exists l. reflexivity.
    - exfalso. exact (A Hn _ H).
    - exfalso. exact (A Hn _ H).
  Qed.
End AgreeDecl.

(* ====================================================================================== *)
(* 3. sentences, viable prefixes and the first error                                      *)
(* ====================================================================================== *)
Lemma kinds_map_tk toks : kinds toks = map kind_of (map tk toks).
Proof. unfold kinds. rewrite map_map. reflexivity. Qed.

Lemma map_kind_idem l : map kind_of (map kind_of l) = map kind_of l.
Proof. rewrite map_map. apply map_ext. apply kind_of_idem. Qed.

(* positioned tokens of given kinds *)
Definition at0 (k : token) : tok := (O, k, O).
Lemma map_tk_at0 l : map tk (map at0 l) = l.
Proof. rewrite map_map. apply map_id. Qed.
Lemma kinds_at0 l : kinds (map at0 l) = map kind_of l.
Proof. rewrite kinds_map_tk, map_tk_at0. reflexivity. Qed.

Lemma oversize_kind t : oversize (kind_of t) = false.
Proof. destruct t; reflexivity. Qed.

Lemma noi_cons2 p t l :
  no_oversize_index (p :: t :: l) = (if after_opener p then negb (oversize t) else true) && no_oversize_index (t :: l).
Proof. reflexivity. Qed.
Lemma noi_small l : Forall (fun t => oversize t = false) l -> no_oversize_index l = true.
Proof.
  induction l as [|p l IH]; intros H; [reflexivity|]. destruct l as [|t l]; [reflexivity|].
  rewrite noi_cons2. inversion H as [|? ? _ H2]. inversion H2 as [|? ? Ht _]. rewrite Ht, (IH H2).
  destruct (after_opener p); reflexivity.
Qed.
Lemma noi_app_small a b : no_oversize_index a = true -> Forall (fun t => oversize t = false) b ->
  no_oversize_index (a ++ b) = true.
Proof.
  induction a as [|p a IH]; intros Ha Hb; [exact (noi_small _ Hb)|].
  destruct a as [|t a].
  - cbn [app]. destruct b as [|t b]; [reflexivity|]. rewrite noi_cons2.
    inversion Hb as [|? ? Ht _]. rewrite Ht, (noi_small _ Hb). destruct (after_opener p); reflexivity.
  - cbn [app]. rewrite noi_cons2 in Ha |- *. apply andb_prop in Ha. destruct Ha as (H1 & H2).
    rewrite H1. exact (IH H2 Hb).
Qed.
Lemma Forall_kind_small l : Forall (fun t => oversize t = false) (map kind_of l).
Proof. induction l; constructor; [apply oversize_kind|assumption]. Qed.

Lemma statements_done_nil tiers : forall f toks seen r, vp_statements tiers f toks seen = Done r -> r = [].
Proof.
  induction f as [|f IH]; intros toks seen r H; [discriminate H|].
  cbn [vp_statements] in H. destruct toks as [|t toks1].
  { destruct seen; [injection H as <-; reflexivity|discriminate H]. }
  destruct (token_eqb t TSemicolon).
  { destruct seen; [exact (IH _ _ _ H)|discriminate H]. }
  destruct (vp_statement tiers (20 * S (List.length (t :: toks1))) (t :: toks1)) as [[rest|x|c|] k]; try discriminate H.
  destruct k; [|exact (IH _ _ _ H)].
  destruct rest as [|t2 rest2].
  - destruct seen; [injection H as <-; reflexivity|discriminate H].
  - destruct (token_eqb t2 TSemicolon); [exact (IH _ _ _ H)|discriminate H].
Qed.

Lemma vp_program_done_nil tiers ks r : vp_program tiers ks = Done r -> r = [].
Proof. apply statements_done_nil. Qed.

(* THE BRIDGE: a sentence is what the recogniser accepts *)
Lemma sentence_iff_vp tiers ks : sentence tiers ks <-> vp_program tiers (map kind_of ks) = Done [].
Proof.
  split.
  - intros (toks & l & Hk & Hp). unfold same_kinds in Hk. rewrite <- Hk, <- kinds_map_tk.
    exact (parse_diag_done_vp tiers toks l Hp).
  - intros H. set (toks := map at0 (map kind_of ks)).
    assert (Hk : kinds toks = map kind_of ks) by (unfold toks; rewrite kinds_at0; apply map_kind_idem).
    assert (Hn : NB toks).
    { unfold NB, toks. rewrite map_tk_at0. apply noi_small. apply Forall_kind_small. }
    rewrite <- Hk in H. destruct (vp_done_parse_diag tiers toks [] Hn H) as (l & Hl).
    exists toks, l. split; [|exact Hl]. unfold same_kinds, toks. rewrite map_tk_at0. apply map_kind_idem.
Qed.

Lemma viable_prefix_mono tiers a b : viable_prefix tiers (a ++ b) -> viable_prefix tiers a.
Proof. intros (suf & H). exists (b ++ suf). rewrite app_assoc. exact H. Qed.

Lemma sentence_viable tiers ks : sentence tiers ks -> viable_prefix tiers ks.
Proof. intros H. exists []. rewrite app_nil_r. exact H. Qed.

Lemma firstn_le_split {A} (l : list A) m n : (m <= n)%nat -> firstn n l = firstn m l ++ firstn (n - m) (skipn m l).
Proof.
  revert l n. induction m as [|m IH]; intros l n Hle; [rewrite Nat.sub_0_r; reflexivity|].
  destruct n as [|n]; [lia|]. destruct l as [|x l]; [cbn [skipn firstn]; rewrite firstn_nil; reflexivity|].
  cbn [firstn skipn app Nat.sub]. rewrite (IH l n) by lia. reflexivity.
Qed.

Lemma viable_firstn tiers ks m n : (m <= n)%nat -> viable_prefix tiers (firstn n ks) -> viable_prefix tiers (firstn m ks).
Proof. intros Hle H. rewrite (firstn_le_split ks m n Hle) in H. exact (viable_prefix_mono _ _ _ H). Qed.

Theorem first_error_none_iff_sentence_holds : stmt_first_error_none_iff_sentence.
Proof.
  intros tiers toks. unfold first_error_index, first_error_index_kinds.
  rewrite sentence_iff_vp, <- kinds_map_tk.
  destruct (vp_program tiers (kinds toks)) as [r|r|c|] eqn:E.
  - rewrite (vp_program_done_nil _ _ _ E). split; reflexivity.
  - split; discriminate.
  - split; discriminate.
  - split; discriminate.
Qed.

Theorem first_error_none_if_parsed_holds : stmt_first_error_none_if_parsed.
Proof.
  intros tiers toks l H. apply first_error_none_iff_sentence_holds. exists toks, l. split; [reflexivity|exact H].
Qed.

Theorem first_error_none_if_accepted_holds : stmt_first_error_none_if_accepted.
Proof.
  intros tiers toks stmts H. apply (first_error_none_if_parsed_holds tiers toks (silent stmts)).
  apply diag_conservative_holds. exact H.
Qed.

Theorem parse_diag_done_no_error_holds : stmt_parse_diag_done_no_error.
Proof.
  intros tiers toks [l|l ds] H; [left; exact (first_error_none_if_parsed_holds _ _ _ H)|right; exists l, ds; reflexivity].
Qed.

Theorem first_error_total_holds : stmt_first_error_total.
Proof.
  intros tiers toks. destruct (first_error_index tiers toks) as [i|] eqn:E.
  - right. exists i. split; [reflexivity|]. intros Hs. apply first_error_none_iff_sentence_holds in Hs. congruence.
  - left. split; [reflexivity|]. apply first_error_none_iff_sentence_holds. exact E.
Qed.

Theorem first_error_kinds_only_holds : stmt_first_error_kinds_only.
Proof.
  intros tiers toks toks' H. unfold first_error_index. rewrite !kinds_map_tk. unfold same_kinds in H. rewrite H. reflexivity.
Qed.

(* ---- (b) ---- *)
Lemma firstn_kinds n toks : firstn n (kinds toks) = map kind_of (firstn n (map tk toks)).
Proof. rewrite kinds_map_tk. apply firstn_map. Qed.

Lemma firstn_app_exact {A} (a b : list A) : firstn (List.length a) (a ++ b) = a.
Proof. rewrite firstn_app, Nat.sub_diag, firstn_all. cbn [firstn]. apply app_nil_r. Qed.

Section Located.
  Variable tiers : list tier.
  Hypothesis Htab : table_ok tiers.
  Let Hok : tiers_ok tiers := proj1 Htab.
  Let Hlen : (List.length tiers <= 16)%nat := proj2 Htab.

  (* a list of kinds that the recogniser does not reject at a token is a viable prefix *)
  Lemma not_failed_viable ks : (forall r, vp_program tiers (map kind_of ks) <> Fail r) -> viable_prefix tiers ks.
  Proof.
    intros Hnf. destruct (vp_program tiers (map kind_of ks)) as [r|r|c|] eqn:E.
    - apply sentence_viable. apply sentence_iff_vp. rewrite E, (vp_program_done_nil _ _ _ E). reflexivity.
    - exfalso. exact (Hnf r eq_refl).
    - exists c. apply sentence_iff_vp. rewrite map_app, (vp_program_completion_kinds _ _ _ E).
      exact (vp_program_completion tiers Hok Hlen _ _ E).
    - exfalso. exact (vp_program_ns tiers Hok Hlen _ E).
  Qed.

  (* the recogniser fails at token k after pre: pre is viable, pre ++ [k] is not, whatever follows *)
  Lemma failed_at pre k post : vp_program tiers (pre ++ k :: post) = Fail (k :: post) ->
    (forall r, vp_program tiers pre <> Fail r) /\
    (forall post' r, vp_program tiers (pre ++ k :: post') <> Done r).
  Proof.
    intros H. split.
    - intros r Hr. destruct (vp_program_fail_suffix tiers Hok Hlen _ _ Hr) as (pre' & k' & post' & Hpre & ->).
      rewrite Hpre in Hr.
      pose proof (vp_program_fail_stable tiers Hok Hlen pre' k' post' (post' ++ k :: post) Hr) as H2.
      assert (E : pre' ++ k' :: post' ++ k :: post = pre ++ k :: post) by (rewrite Hpre, <- app_assoc; reflexivity).
      rewrite E, H in H2. injection H2 as _ H2.
      apply (f_equal (@List.length token)) in H2. rewrite app_length in H2. cbn [List.length] in H2. lia.
    - intros post' r Hr. rewrite (vp_program_fail_stable tiers Hok Hlen pre k post post' H) in Hr. discriminate Hr.
  Qed.

  Lemma sound_fail toks pre k post : kinds toks = pre ++ k :: post -> vp_program tiers (kinds toks) = Fail (k :: post) ->
    let ks := map tk toks in let i := List.length pre in
    (i < List.length ks)%nat /\ viable_prefix tiers (firstn i ks) /\ ~ viable_prefix tiers (firstn (S i) ks).
  Proof.
    intros HK H ks i. rewrite HK in H. destruct (failed_at _ _ _ H) as (Hpre & Hnext).
    assert (Hlen' : List.length ks = List.length (pre ++ k :: post)).
    { unfold ks. rewrite map_length, <- HK. symmetry. apply kinds_length. }
    split; [rewrite Hlen', app_length; cbn [List.length]; lia|]. split.
    - apply not_failed_viable. unfold ks, i. rewrite <- firstn_kinds, HK, firstn_app_exact. exact Hpre.
    - intros (suf & Hs). apply sentence_iff_vp in Hs. rewrite map_app in Hs. unfold ks, i in Hs.
      rewrite <- firstn_kinds, HK in Hs.
      replace (firstn (S (List.length pre)) (pre ++ k :: post)) with (pre ++ [k]) in Hs.
      2:{ rewrite firstn_app, firstn_all2 by lia. replace (S (List.length pre) - List.length pre)%nat with 1%nat by lia. reflexivity. }
      rewrite <- app_assoc in Hs. exact (Hnext _ _ Hs).
  Qed.

  Theorem first_error_sound_at toks i : first_error_index tiers toks = Some i ->
    let ks := map tk toks in
    (i <= List.length ks)%nat /\
    viable_prefix tiers (firstn i ks) /\
    ((i < List.length ks)%nat -> ~ viable_prefix tiers (firstn (S i) ks)) /\
    (i = List.length ks -> ~ sentence tiers ks).
  Proof.
    intros H ks. unfold first_error_index, first_error_index_kinds in H.
    assert (HL : List.length ks = List.length (kinds toks)) by (unfold ks; rewrite map_length, kinds_length; reflexivity).
    destruct (vp_program tiers (kinds toks)) as [r|r|c|] eqn:E; try discriminate H.
    - injection H as <-.
      destruct (vp_program_fail_suffix tiers Hok Hlen _ _ E) as (pre & k & post & HK & ->).
      destruct (sound_fail toks pre k post HK E) as (H1 & H2 & H3). fold ks in H1, H2, H3.
      assert (Hi : (List.length (kinds toks) - List.length (k :: post) = List.length pre)%nat).
      { rewrite HK, app_length. cbn [List.length]. lia. }
      rewrite Hi. split; [lia|]. split; [exact H2|]. split; [intros _; exact H3|]. intros Hc. lia.
    - injection H as <-. rewrite <- HL. split; [lia|]. rewrite firstn_all. split; [|split].
      + apply not_failed_viable. fold ks. unfold ks. rewrite <- kinds_map_tk, E. discriminate.
      + intros Hc. lia.
      + intros _ Hs. apply sentence_iff_vp in Hs. unfold ks in Hs. rewrite <- kinds_map_tk, E in Hs. discriminate Hs.
    - exfalso. exact (vp_program_ns tiers Hok Hlen _ E).
  Qed.

  Lemma first_error_unique_at toks i :
    let ks := map tk toks in
    (i <= List.length ks)%nat -> viable_prefix tiers (firstn i ks) ->
    ((i < List.length ks)%nat -> ~ viable_prefix tiers (firstn (S i) ks)) ->
    (i = List.length ks -> ~ sentence tiers ks) ->
    first_error_index tiers toks = Some i.
  Proof.
    intros ks Hi Hv Hn He.
    destruct (first_error_index tiers toks) as [j|] eqn:E.
    - destruct (first_error_sound_at toks j E) as (Hj & Hvj & Hnj & Hej). fold ks in Hj, Hvj, Hnj, Hej.
      destruct (Nat.lt_trichotomy i j) as [Hlt|[->|Hgt]]; [|reflexivity|]; exfalso.
      + apply (Hn ltac:(lia)). exact (viable_firstn tiers ks (S i) j ltac:(lia) Hvj).
      + apply (Hnj ltac:(lia)). exact (viable_firstn tiers ks (S j) i ltac:(lia) Hv).
    - exfalso. apply first_error_none_iff_sentence_holds in E. fold ks in E.
      destruct (Nat.eq_dec i (List.length ks)) as [Heq|Hne]; [exact (He Heq E)|].
      apply (Hn ltac:(lia)). apply (viable_firstn tiers ks (S i) (List.length ks) ltac:(lia)).
      rewrite firstn_all. exact (sentence_viable _ _ E).
  Qed.

  Lemma first_error_prefix_only_at toks i : first_error_index tiers toks = Some i -> (i < List.length toks)%nat ->
    forall rest', first_error_index tiers (firstn (S i) toks ++ rest') = Some i.
  Proof.
    intros H Hi rest'. unfold first_error_index, first_error_index_kinds in H |- *.
    destruct (vp_program tiers (kinds toks)) as [r|r|c|] eqn:E; try discriminate H.
    - injection H as <-.
      destruct (vp_program_fail_suffix tiers Hok Hlen _ _ E) as (pre & k & post & HK & ->).
      assert (Hi' : (List.length (kinds toks) - List.length (k :: post) = List.length pre)%nat).
      { rewrite HK, app_length. cbn [List.length]. lia. }
      rewrite Hi' in *.
      assert (HK2 : kinds (firstn (S (List.length pre)) toks ++ rest') = pre ++ k :: kinds rest').
      { rewrite kinds_app. unfold kinds at 1. rewrite <- firstn_map. fold (kinds toks). rewrite HK.
        rewrite firstn_app, firstn_all2 by lia. replace (S (List.length pre) - List.length pre)%nat with 1%nat by lia.
        cbn [firstn]. rewrite <- app_assoc. reflexivity. }
      rewrite HK2. rewrite HK in E.
      rewrite (vp_program_fail_stable tiers Hok Hlen pre k post (kinds rest') E).
      rewrite app_length. cbn [List.length]. f_equal. lia.
    - injection H as <-. rewrite kinds_length in Hi. lia.
    - exfalso. exact (vp_program_ns tiers Hok Hlen _ E).
  Qed.
End Located.

Theorem first_error_sound_holds : stmt_first_error_sound.
Proof. intros tiers toks i Htab H. exact (first_error_sound_at tiers Htab toks i H). Qed.

Theorem first_error_unique_holds : stmt_first_error_unique.
Proof. intros tiers toks i Htab. exact (first_error_unique_at tiers Htab toks i). Qed.

Theorem first_error_prefix_only_holds : stmt_first_error_prefix_only.
Proof. intros tiers toks i Htab. exact (first_error_prefix_only_at tiers Htab toks i). Qed.

(* ---- the explicit completion ---- *)
Theorem completion_sound_holds : stmt_completion_sound.
Proof.
  intros tiers toks c0 (Hok & Hlen) H. unfold completion, completion_kinds in H.
  destruct (vp_program tiers (kinds toks)) as [r|r|c|] eqn:E; try discriminate H. injection H as <-.
  pose proof (vp_program_completion tiers Hok Hlen _ _ E) as Hc.
  pose proof (vp_program_completion_kinds _ _ _ E) as Hk.
  assert (Hkk : kinds (toks ++ map (fun k => (O, k, O)) c) = kinds toks ++ c).
  { rewrite kinds_app. f_equal. unfold kinds. rewrite map_map. cbn [tk fst snd]. exact Hk. }
  split; [|split].
  - unfold first_error_index, first_error_index_kinds. rewrite E, kinds_length. reflexivity.
  - apply sentence_iff_vp. rewrite <- kinds_map_tk, Hkk. exact Hc.
  - intros Hn. apply (vp_done_parse_diag tiers _ []); [|rewrite Hkk; exact Hc].
    unfold NB. rewrite map_app. apply noi_app_small; [exact Hn|].
    rewrite map_map. cbn [tk fst snd]. rewrite map_id, <- Hk. apply Forall_kind_small.
Qed.

Theorem completion_complete_holds : stmt_completion_complete.
Proof.
  intros tiers toks (Hok & Hlen) H. unfold completion, completion_kinds.
  unfold first_error_index, first_error_index_kinds in H.
  destruct (vp_program tiers (kinds toks)) as [r|r|c|] eqn:E; try discriminate H.
  - exfalso. injection H as H. rewrite kinds_length in H.
    destruct (vp_program_fail_suffix tiers Hok Hlen _ _ E) as (pre & k & post & HK & ->).
    pose proof (kinds_length toks) as L. rewrite HK, app_length in L. cbn [List.length] in *. lia.
  - eexists. reflexivity.
  - exfalso. exact (vp_program_ns tiers Hok Hlen _ E).
Qed.

(* ---- on the very tokens ---- *)
Lemma prog_shape_suffix R RO RS b toks tail l : prog_shape R RO RS b toks tail l -> exists w, toks = w ++ tail.
Proof.
  induction 1 as [b semis tail _|b semis sg rest tail s k ds more _ _ _ _ _ (w & IH)].
  - exists semis. reflexivity.
  - exists (semis ++ sg ++ w). rewrite IH, <- !app_assoc. reflexivity.
Qed.

Lemma no_fatal_when_small tiers toks l ds : NB toks -> parse_diag tiers toks <> Some (DFatal l ds).
Proof.
  intros Hn H. destruct (diag_grammar_sound_holds tiers toks _ H) as (tail & Hp & ds0 & d & _ & Hf & _).
  destruct (prog_shape_suffix _ _ _ _ _ _ _ Hp) as (w & ->).
  destruct Hf as (pre & p & t & post & -> & Hw & _ & Hcase).
  apply NB_app, NB_app in Hn.
  apply (NB_big p t post Hn).
  - unfold after_opener.
    destruct Hcase as [(_ & ->)|(_ & [-> | (-> & _)])]; reflexivity.
  - apply too_wide_oversize. exact Hw.
Qed.

Theorem first_error_none_iff_parse_diag_holds : stmt_first_error_none_iff_parse_diag.
Proof.
  intros tiers toks Hn. split.
  - split.
    + intros H. unfold first_error_index, first_error_index_kinds in H.
      destruct (vp_program tiers (kinds toks)) as [r|r|c|] eqn:E; try discriminate H.
      exact (vp_done_parse_diag tiers toks r Hn E).
    + intros (l & H). exact (first_error_none_if_parsed_holds _ _ _ H).
  - intros [l|l ds] H; [exists l; reflexivity|]. exfalso. exact (no_fatal_when_small tiers toks l ds Hn H).
Qed.

(* the draft without the hypothesis on widths: refuted by  wire x : 200 ; )  *)
Definition lexs (s : String.string) : list tok := fst (lex test_uclass (bytes_of_string s)).

Lemma first_error_none_iff_parse_diag_any_refuted : ~ stmt_first_error_none_iff_parse_diag_any.
Proof.
  intros H. destruct (H doc_tiers (lexs "wire x : 200 ; )")) as (_ & H2).
  assert (E : exists r, parse_diag doc_tiers (lexs "wire x : 200 ; )") = Some r) by (eexists; vm_compute; reflexivity).
  specialize (H2 E). vm_compute in H2. discriminate H2.
Qed.

(* ====================================================================================== *)
(* 4. the span                                                                            *)
(* ====================================================================================== *)
Lemma first_error_index_le tiers toks i : first_error_index tiers toks = Some i -> (i <= List.length toks)%nat.
Proof.
  unfold first_error_index, first_error_index_kinds.
  destruct (vp_program tiers (kinds toks)); intros H; try discriminate H; injection H as <-; rewrite kinds_length; lia.
Qed.

Theorem first_error_span_is_a_token_holds : stmt_first_error_span_is_a_token.
Proof.
  intros tiers toks sp H. unfold first_error_span in H.
  destruct (first_error_index tiers toks) as [i|] eqn:E; [|discriminate H]. injection H as <-.
  exists i. split; [reflexivity|].
  destruct (nth_error toks i) as [t|] eqn:En.
  - left. exists t. split; [reflexivity|]. split; [reflexivity|]. apply aligned_tok. exact (nth_error_In _ _ En).
  - right. split; [|reflexivity]. apply nth_error_None in En. pose proof (first_error_index_le _ _ _ E). lia.
Qed.

Lemma eof_span_last toks t : nth_error toks (List.length toks - 1) = Some t -> eof_span toks = (tend t, S (tend t)).
Proof.
  intros H. destruct toks as [|x0 l0]; [discriminate H|].
  destruct (@exists_last _ (x0 :: l0) ltac:(discriminate)) as (l & a & E). rewrite E in H |- *.
  unfold eof_span. rewrite rev_app_distr. cbn [rev app].
  rewrite app_length in H. cbn [List.length] in H. replace (List.length l + 1 - 1)%nat with (List.length l) in H by lia.
  rewrite nth_error_app2, Nat.sub_diag in H by lia. injection H as ->. reflexivity.
Qed.

Lemma eof_span_bound toks n : (forall t, In t toks -> (tend t <= n)%nat) -> (fst (eof_span toks) <= n)%nat.
Proof.
  intros H. unfold eof_span. destruct (rev toks) as [|t r] eqn:Er; cbn [fst]; [lia|].
  apply H. apply in_rev. rewrite Er. left. reflexivity.
Qed.

Theorem first_error_span_in_text_holds : stmt_first_error_span_in_text.
Proof.
  intros uc tiers text sp Hsc H. unfold first_error_span_text in H.
  destruct (lex uc (utf8 text)) as [toks [e|]] eqn:El; [discriminate H|].
  exists toks. split; [reflexivity|].
  destruct (lex_tokens_ordered_holds uc text toks None Hsc El) as (Hord & Hend). split; [exact Hord|].
  destruct (first_error_span_is_a_token_holds tiers toks sp H) as (i & Hi & [(t & Hn & -> & _)|(-> & ->)]).
  - left. exists t. split; [exact (nth_error_In _ _ Hn)|]. split; [reflexivity|].
    destruct (tokens_from_nth _ _ Hord i t Hn) as (_ & Hlt & _). cbn [tspan fst snd].
    split; [exact Hlt|exact (Hend t (nth_error_In _ _ Hn))].
  - right. split; [exact Hi|]. split; [reflexivity|]. apply eof_span_bound. exact Hend.
Qed.

Lemma doc_table_ok : table_ok doc_tiers.
Proof.
  split; [|cbn; lia]. intros k ops H. cbn in H.
  repeat (destruct H as [H|H]; [injection H as <- _; discriminate|]). destruct H.
Qed.

Theorem first_error_rendered_holds : stmt_first_error_rendered.
Proof.
  intros uc tiers ptext utext fname pstmts sp Htab Hsc' Hp H. unfold first_error_rendered. cbv zeta.
  unfold parse_text_sp in Hp.
  destruct (lex uc (utf8 (ptext ++ [10]))) as [ptoks [e|]] eqn:Hla; [discriminate Hp|].
  unfold first_error_span_text in H.
  assert (Hwhole : utf8 (ptext ++ [10]) ++ utf8 utext = utf8 ((ptext ++ [10]) ++ utext)) by (symmetry; apply utf8_app).
  rewrite Hwhole.
  destruct (lex uc (utf8 ((ptext ++ [10]) ++ utext))) as [toks [e|]] eqn:El; [discriminate H|].
  assert (Hsc2 : Forall scalar ((ptext ++ [10]) ++ utext)) by (rewrite <- app_assoc; exact Hsc').
  destruct (lex_whole uc ptext utext ptoks toks Hsc' Hla El) as (toks_b & Htoks).
  remember (utf8 (ptext ++ [10])) as pre eqn:Hpre.
  remember (utf8 utext) as user eqn:Hus.
  remember (map (shift_tok (List.length pre)) toks_b) as utoks eqn:Hut. subst toks.
  destruct (lex_tokens_ordered_holds uc _ _ None Hsc2 El) as (Hord & Hend).
  assert (Hendu : forall t, In t (ptoks ++ utoks) -> (tend t <= List.length pre + List.length user)%nat).
  { intros t Ht. specialize (Hend t Ht). rewrite <- Hwhole, app_length in Hend. exact Hend. }
  (* the preamble is a sentence *)
  assert (Hps : sentence tiers (map tk ptoks)).
  { apply first_error_none_iff_sentence_holds. exact (first_error_none_if_accepted_holds tiers ptoks pstmts Hp). }
  destruct (first_error_span_is_a_token_holds tiers _ sp H) as (idx & Hidx & Hcase).
  destruct (first_error_sound_at tiers Htab _ idx Hidx) as (Hle & _ & Hnv & _). cbv zeta in Hle, Hnv.
  rewrite map_length in Hle, Hnv. rewrite app_length in Hle, Hnv.
  assert (Hge : (List.length ptoks <= idx)%nat).
  { destruct (Nat.le_gt_cases (List.length ptoks) idx) as [Hc|Hc]; [exact Hc|]. exfalso.
    apply (Hnv ltac:(lia)).
    rewrite map_app, firstn_app, map_length.
    replace (S idx - List.length ptoks)%nat with 0%nat by lia. cbn [firstn]. rewrite app_nil_r.
    apply (viable_firstn tiers (map tk ptoks) (S idx) (List.length (map tk ptoks))); [rewrite map_length; exact Hc|].
    rewrite firstn_all. exact (sentence_viable _ _ Hps). }
  assert (Hune : utoks <> []).
  { intros Hu. rewrite Hu, app_nil_r in Hidx. apply first_error_none_iff_sentence_holds in Hps. congruence. }
  assert (Hshift : forall t, In t utoks -> (List.length pre <= tstart t)%nat).
  { intros t Ht. rewrite Hut in Ht. apply in_map_iff in Ht. destruct Ht as (tb & <- & _). unfold shift_tok, tstart. cbn [fst]. lia. }
  exists ptoks, utoks, (idx - List.length ptoks)%nat.
  split; [reflexivity|]. split; [reflexivity|].
  split; [rewrite Hidx; f_equal; lia|]. split; [exact Hune|].
  assert (Hwfp : wf_text pre) by (rewrite Hpre; apply wf_text_utf8).
  assert (Hwfu : wf_text user) by (rewrite Hus; apply wf_text_utf8).
  destruct Hcase as [(t & Hn & -> & _)|(-> & ->)].
  - (* a token *)
    assert (Hnu : nth_error utoks (idx - List.length ptoks) = Some t).
    { rewrite nth_error_app2 in Hn by exact Hge. exact Hn. }
    destruct (tokens_from_nth _ _ Hord idx t Hn) as (_ & Hlt & _).
    pose proof (Hshift t (nth_error_In _ _ Hnu)) as Hs.
    pose proof (Hendu t (nth_error_In _ _ Hn)) as He.
    destruct (rendered_in_user_file pre user fname (tstart t) (tend t) Hwfp Hwfu Hs Hlt He)
      as (us & ue & E1 & E2 & E3 & E4 & Hout & Hone).
    split; [exact Hout|]. left. exists t, us, ue. repeat split; assumption.
  - (* the end of input *)
    assert (Hlast : exists t, nth_error utoks (List.length utoks - 1) = Some t).
    { destruct (nth_error utoks (List.length utoks - 1)) as [t|] eqn:En; [exists t; reflexivity|].
      apply nth_error_None in En. destruct utoks; [congruence|cbn [List.length] in En; lia]. }
    destruct Hlast as (t & Ht).
    assert (Hulen : (1 <= List.length utoks)%nat) by (destruct utoks; [congruence|cbn [List.length]; lia]).
    unfold tok in *.
    assert (Htw : nth_error (ptoks ++ utoks) (List.length (ptoks ++ utoks) - 1) = Some t).
    { rewrite app_length, nth_error_app2 by lia. rewrite <- Ht. f_equal. lia. }
    rewrite (eof_span_last _ _ Htw).
    destruct (tokens_from_nth _ _ Hord _ t Htw) as (_ & Hlt & _).
    pose proof (Hshift t (nth_error_In _ _ Ht)) as Hs.
    pose proof (Hendu t (nth_error_In _ _ Htw)) as He.
    split.
    + cbn [fst snd]. destruct (show_region (new_from_data pre user fname) (tend t) (S (tend t))) as [out|] eqn:Esr.
      * exists out. split; [reflexivity|].
        exact (never_preamble_partial pre user fname (tend t) (S (tend t)) out ltac:(lia) ltac:(lia) Esr).
      * exfalso. exact (show_region_total_ok pre user fname (tend t) (S (tend t)) Hwfp Hwfu Esr).
    + right. split; [rewrite app_length; lia|]. exists t. split; [exact Ht|]. split; [reflexivity|]. split; lia.
Qed.

Theorem first_error_rendered_gen_holds : stmt_first_error_rendered_gen.
Proof.
  intros uc utext fname sp Hsc H.
  destruct gen_preamble_ok_holds as (ptext & ptoks & Hpre & Hscp & Hlex).
  destruct preamble_parses as (l & Hl & _).
  assert (Hp : parse_text_sp uc doc_tiers (utf8 (ptext ++ [10])) = Some l).
  { rewrite <- Hpre. unfold parse_text_sp in Hl |- *. rewrite Hlex in Hl |- *. exact Hl. }
  assert (Hsc' : Forall scalar (ptext ++ [10] ++ utext)).
  { rewrite app_assoc. apply Forall_app. split; assumption. }
  assert (H' : first_error_span_text uc doc_tiers (utf8 ((ptext ++ [10]) ++ utext)) = Some sp).
  { rewrite utf8_app, <- Hpre. exact H. }
  pose proof (first_error_rendered_holds uc doc_tiers ptext utext fname l sp doc_table_ok Hsc' Hp H') as R.
  rewrite <- Hpre in R. exact R.
Qed.

(* ====================================================================================== *)
(* 5. non-vacuity                                                                         *)
(* ====================================================================================== *)
(* (a) a text with two diagnostic productions is a sentence: no first error *)
Example ex_sentence : first_error_index doc_tiers (lexs "wire x; register xY { r = 1 } x [ 1 : 2 ];") = None.
Proof. vm_compute. reflexivity. Qed.
Example ex_sentence_is_one : sentence doc_tiers (map tk (lexs "wire x; register xY { r = 1 } x [ 1 : 2 ];")).
Proof. apply first_error_none_iff_sentence_holds. exact ex_sentence. Qed.
Example ex_parsed : exists l, parse_diag doc_tiers (lexs "wire x; x = 1;") = Some (DDone l) /\
                              first_error_index doc_tiers (lexs "wire x; x = 1;") = None.
Proof. eexists. split; [vm_compute; reflexivity|]. vm_compute. reflexivity. Qed.
Example ex_small : no_oversize_index (map tk (lexs "wire x : 8; x = 0x100 + y[0..7];")) = true.
Proof. vm_compute. reflexivity. Qed.

(* (b) "x = 1 )": the ")" is token 3; "x = [ a : ( b +": unexpected end of input, completed by "x ) ]" and ";" *)
Example ex_error_at_token : first_error_index doc_tiers (lexs "x = 1 ) ; y = 2;") = Some 3%nat.
Proof. vm_compute. reflexivity. Qed.
Example ex_error_at_token_sound :
  let ks := map tk (lexs "x = 1 ) ; y = 2;") in
  viable_prefix doc_tiers (firstn 3 ks) /\ ~ viable_prefix doc_tiers (firstn 4 ks).
Proof.
  destruct (first_error_sound_holds doc_tiers _ _ doc_table_ok ex_error_at_token) as (_ & H1 & H2 & _).
  split; [exact H1|]. apply H2. vm_compute. lia.
Qed.
Example ex_error_at_end : first_error_index doc_tiers (lexs "x = [ a : ( b +") = Some 8%nat /\
  option_map (map tk) (completion doc_tiers (lexs "x = [ a : ( b +")) = Some [c_id; TCloseParen; TCloseBracket; TSemicolon].
Proof. split; vm_compute; reflexivity. Qed.
Example ex_completion_parses : exists c l, completion doc_tiers (lexs "register qW { a : 4 = ") = Some c /\
  parse_diag doc_tiers (lexs "register qW { a : 4 = " ++ c) = Some (DDone l).
Proof. eexists. eexists. split; [vm_compute; reflexivity|]. vm_compute. reflexivity. Qed.
Example ex_unique : first_error_index doc_tiers (lexs "x = 1 ) ; y = 2;") = Some 3%nat.
Proof.
  destruct ex_error_at_token_sound as (H1 & H2).
  apply (first_error_unique_holds doc_tiers _ 3%nat doc_table_ok); cbv zeta.
  - vm_compute. lia.
  - exact H1.
  - intros _. exact H2.
  - intros E. vm_compute in E. discriminate E.
Qed.
Example ex_prefix_only : first_error_index doc_tiers (firstn 4 (lexs "x = 1 ) ; y = 2;") ++ lexs "] wire") = Some 3%nat.
Proof. apply (first_error_prefix_only_holds doc_tiers _ 3%nat doc_table_ok ex_error_at_token). vm_compute. lia. Qed.

(* (d) the span: the ")" at bytes 6..7; the end of input: one byte after the last token *)
Example ex_span_token : first_error_span_text test_uclass doc_tiers (bytes_of_string "x = 1 ) ; y = 2;") = Some (6, 7)%nat.
Proof. vm_compute. reflexivity. Qed.
Example ex_span_eof : first_error_span_text test_uclass doc_tiers (bytes_of_string "x = 1; y =  ") = Some (10, 11)%nat.
Proof. vm_compute. reflexivity. Qed.
Example ex_span_eof_alone : first_error_span_text test_uclass doc_tiers (bytes_of_string "x = 1") = Some (5, 6)%nat.
Proof. vm_compute. reflexivity. Qed.

(* with the compiled preamble: "wire y : 4;" LF "y = 1 + ;" - the ";" of line 2, column 8 *)
Definition ex_loc_user : list N := bytes_of_string ("wire y : 4;" ++ String.String (Ascii.ascii_of_nat 10) "y = 1 + ;").
Example ex_rendered :
  first_error_span_text test_uclass doc_tiers (preamble_bytes ++ ex_loc_user) =
    Some ((List.length preamble_bytes + 20)%nat, (List.length preamble_bytes + 21)%nat) /\
  line_no ex_loc_user 20 = 2%nat /\ col_of ex_loc_user 20 = 8%nat.
Proof. split; [vm_compute; reflexivity|]. split; vm_compute; reflexivity. Qed.

Print Assumptions first_error_none_iff_sentence_holds.
Print Assumptions first_error_none_if_parsed_holds.
Print Assumptions first_error_none_if_accepted_holds.
Print Assumptions first_error_none_iff_parse_diag_holds.
Print Assumptions first_error_none_iff_parse_diag_any_refuted.
Print Assumptions parse_diag_done_no_error_holds.
Print Assumptions first_error_sound_holds.
Print Assumptions completion_sound_holds.
Print Assumptions completion_complete_holds.
Print Assumptions first_error_total_holds.
Print Assumptions first_error_unique_holds.
Print Assumptions first_error_kinds_only_holds.
Print Assumptions first_error_prefix_only_holds.
Print Assumptions first_error_span_is_a_token_holds.
Print Assumptions first_error_span_in_text_holds.
Print Assumptions first_error_rendered_holds.
Print Assumptions first_error_rendered_gen_holds.

(* ====================================================================================== *)
(* validation against the real parser (harness /tmp/agents/hclv-clean; scripts in the work   *)
(* directory of this package: gen.py, vcheck.py, vcheck2.py)                               *)
(* ====================================================================================== *)
(* first_error_span_text  against  the first UnrecognizedToken of the real error list:
   - "parse" (text alone): single-token deletions, insertions, substitutions and truncations at
     every token of six programs that use every construct (diagnostic productions, mux options,
     register banks, slices, "in" lists, trailing commas, stray ";"):
       blank-separated            4647 texts, 4298 with an unexpected token: 4647 agree
       CR LF / comments / tabs    4670 texts, 4335 with an unexpected token: 4670 agree
   - "front" (compiled preamble ++ text, offsets into the whole): 300 texts, 278 with an
     unexpected token: 300 agree
   - widths and bit indexes above 128 (the fallible actions): 523 texts; 462 have no unexpected
     token at all (the action fails first); the 61 that have one have it at first_error_span
   - completion: the 229 truncations (of 332) that are viable and no sentence, followed by their
     completion, are all accepted by the real parser without an unexpected token
   No disagreement.  When the parser does record an unexpected token, the first one is at
   first_error_span; it records none when a fallible action fails before that token is read. *)
